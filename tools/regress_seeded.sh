#!/bin/bash
# regress_seeded.sh <MUTROOT> <out-log> <seed-dir>...: runs stored seeded changes against the quick check of their own
# property (plus the checks listed as caught_by, if the own one is not among them) in the isolated copy <MUTROOT>
# (tools/mutation_setup.sh), one line per seed: "<seed> caught|MISSED <check rc ...>".  For regression runs of the whole
# seeded/ collection after the checks or the generators have changed; several copies can run side by side.
M=$1; OUT=$2; shift 2
cd /verif
for d in "$@"; do
  d=${d%/}
  [ -f $d/meta.json ] || continue
  checks=$(python3 -c "
import json;m=json.load(open('$d/meta.json'))
own=m['property']; by=m.get('caught_by') or []
print(own if (own in by or not by) else by[0])")
  patch=$d/$(python3 -c "import json;m=json.load(open('$d/meta.json'));print(m.get('patch_for_current_tree','patch.diff'))")
  res=$(MUTROOT=$M timeout 2400 tools/iso_seed_run.sh $patch $checks 2>&1 | tr '\n' ' ' | cut -c1-200)
  if echo "$res" | grep -q "rc=1"; then v=caught; else v=MISSED; fi
  echo "$(basename $d) $v $res" >> $OUT
done
