#!/usr/bin/env python3
"""Creates the harness authors' own mutants (small realistic edits) as patches under /verif/mutants/,
checks each against the repository's own tests of the touched package and against the listed checks."""
import subprocess, json, os, sys
M = [
 ("v4-chunk-254", "dhcpv4/options.go", "			if n > math.MaxUint8 {\n				n = math.MaxUint8\n			}", "			if n > math.MaxUint8-1 {\n				n = math.MaxUint8 - 1\n			}", ["C07"], "long option values split into 254-byte instances"),
 ("v4-no-sort", "dhcpv4/options.go", "	sort.Ints(codes)\n", "	_ = sort.Ints\n", ["C07"], "options emitted in map iteration order"),
 ("v4-no-bootp-padding", "dhcpv4/dhcpv4.go", "	if buf.Len() < bootpMinLen {", "	if false && buf.Len() < bootpMinLen {", ["C07"], "packets shorter than 300 bytes are not padded"),
 ("v4-hlen-no-clamp", "dhcpv4/dhcpv4.go", "	if hwAddrLen > 16 {\n		hwAddrLen = 16\n	}", "	if hwAddrLen > 16 {\n		hwAddrLen = hwAddrLen % 16\n	}", ["C04"], "hlen > 16 is reduced modulo 16 instead of clipped to 16"),
 ("server4-return-on-bad-packet", "dhcpv4/server4/server.go", "			s.logger.Printf(\"Error parsing DHCPv4 request: %v\", err)\n			continue", "			s.logger.Printf(\"Error parsing DHCPv4 request: %v\", err)\n			return err", ["C14"], "a malformed datagram stops the DHCPv4 serving loop"),
 ("server6-handler-inline", "dhcpv6/server6/server.go", "		go s.handler(s.conn, peer, d)", "		s.handler(s.conn, peer, d)", ["C14"], "DHCPv6 handlers run inline: a handler that outlives the next reads blocks the loop"),
 ("relayrepl-swap-link-peer", "dhcpv6/dhcpv6relay.go", "		m, err = EncapsulateRelay(m, MessageTypeRelayReply, linkAddr[i], peerAddr[i])", "		m, err = EncapsulateRelay(m, MessageTypeRelayReply, peerAddr[i], linkAddr[i])", ["C16"], "relay-reply swaps link and peer address"),
 ("nclient4-no-opcode-filter", "dhcpv4/nclient4/client.go", "		if msg.OpCode != dhcpv4.OpcodeBootReply {", "		if false && msg.OpCode != dhcpv4.OpcodeBootReply {", ["C10"], "BOOTREQUEST datagrams are routed to waiting calls"),
 ("label-bound-off-by-one", "rfc1035label/label.go", "			if pos+length > len(buf) {", "			if pos+length >= len(buf) {", ["C19"], "a label ending exactly at the end of the buffer is rejected (breaks RFC 4704 partial names)"),
 ("udp-checksum-no-complement", "dhcpv4/nclient4/ipv4.go", "	udphdr.setChecksum(^udphdr.calculateChecksum(xsum, udphdr.length()))", "	udphdr.setChecksum(udphdr.calculateChecksum(xsum, udphdr.length()))", ["C18"], "UDP checksum written without one's complement"),
 ("v6-options-trailing-bytes", "dhcpv6/options.go", "	return buf.FinError()\n}", "	return buf.Error()\n}", ["C05"], "1..3 trailing bytes after the last option are accepted"),
 ("retry-linear-backoff", "dhcpv6/nclient6/client.go", "			timeout *= 2", "			timeout += c.timeout", ["C12"], "waits grow linearly instead of doubling"),
 ("reply-drops-giaddr", "dhcpv4/dhcpv4.go", "		WithGatewayIP(request.GatewayIPAddr),\n", "", ["C15"], "reply builder no longer copies the relay (gateway) address"),
 ("getips-accepts-trailing", "dhcpv4/option_ips.go", "		*i = append(*i, net.IP(buf.CopyN(net.IPv4len)))\n	}\n	return buf.FinError()", "		*i = append(*i, net.IP(buf.CopyN(net.IPv4len)))\n	}\n	return buf.Error()", ["C17"], "address lists with 1..3 trailing bytes return the aligned prefix"),
 ("request-any-server", "dhcpv4/nclient4/client.go", "	response, err := c.SendAndRead(ctx, c.serverAddr, request, IsAll(\n		IsCorrectServer(offer.ServerIdentifier()),\n		IsMessageType(dhcpv4.MessageTypeAck, dhcpv4.MessageTypeNak)))", "	response, err := c.SendAndRead(ctx, c.serverAddr, request,\n		IsMessageType(dhcpv4.MessageTypeAck, dhcpv4.MessageTypeNak))", ["C13"], "an ACK/NAK from any server completes the REQUEST"),
 ("iaaddr-lifetimes-swapped-on-encode", "dhcpv6/option_iaaddress.go", "	t1 := Duration{op.PreferredLifetime}\n	t1.Marshal(buf)\n	t2 := Duration{op.ValidLifetime}\n	t2.Marshal(buf)", "	t2 := Duration{op.ValidLifetime}\n	t2.Marshal(buf)\n	t1 := Duration{op.PreferredLifetime}\n	t1.Marshal(buf)", ["C02"], "IA address encodes valid lifetime before preferred lifetime"),
 ("close-does-not-unblock-calls", "dhcpv6/nclient6/client.go", "			case <-c.done:\n				return ErrNoResponse\n", "", ["C11"], "in-flight calls no longer notice Close"),
 ("summary-sorts-options-in-place", "dhcpv6/option_requestedoption.go", "	names := make([]string, 0, len(o))\n	for _, code := range o {", "	names := make([]string, 0, len(o))\n	for i := 1; i < len(o); i++ {\n		if o[i] < o[i-1] {\n			o[i], o[i-1] = o[i-1], o[i]\n		}\n	}\n	for _, code := range o {", ["C20"], "printing an ORO reorders its codes"),
]
env = dict(os.environ)
results = []
only = sys.argv[1:]
for name, path, old, new, checks, what in M:
    if only and name not in only:
        continue
    full = "/repo/" + path
    src = open(full).read()
    if src.count(old) != 1:
        print(name, "ANCHOR NOT FOUND/AMBIGUOUS", src.count(old)); continue
    open(full, "w").write(src.replace(old, new))
    try:
        b = subprocess.run("cd /repo && go build ./... 2>&1 | tail -3", shell=True, capture_output=True, text=True)
        if b.stdout.strip():
            print(name, "DOES NOT BUILD", b.stdout[:200]); continue
        patch = subprocess.run("git -C /repo diff", shell=True, capture_output=True, text=True).stdout
        open("/verif/mutants/%s.patch" % name, "w").write(patch)
        pkg = "./" + os.path.dirname(path) + "/..."
        t = subprocess.run("cd /repo && go test -mod=mod -vet=off -count=1 %s 2>&1 | grep -c '^FAIL\\|^--- FAIL' " % pkg, shell=True, capture_output=True, text=True)
        suite_ok = t.stdout.strip() == "0"
        det = {}
        for c in checks:
            r = subprocess.run("cd /verif && ./check %s quick" % c, shell=True, capture_output=True, text=True)
            first = [l for l in r.stdout.splitlines() if l.strip().startswith("violation")]
            det[c] = {"rc": r.returncode, "first": (first[0].strip()[:240] if first else "")}
        results.append({"mutant": name, "file": path, "what": what, "package_tests_pass": suite_ok, "checks": det})
        print(name, "suite_ok=%s" % suite_ok, {c: d["rc"] for c, d in det.items()})
    finally:
        subprocess.run("git -C /repo reset -q --hard HEAD", shell=True)
if not only:
    json.dump(results, open("/verif/mutants/RESULTS.json", "w"), indent=1)
