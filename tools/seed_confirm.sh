#!/bin/bash
# seed_confirm.sh <seed-dir> [worktree]: confirm a candidate seeded change in a scratch worktree of /repo:
#   patch applies, builds, full suite passes, demo fails with it and passes without it.
# Prints a JSON line with the outcome.  The scratch worktree is removed afterwards.
set -u
SD=$(readlink -f "$1")
WT=${2:-/tmp/wt/confirm.$$}
export GOFLAGS=-mod=mod GOPROXY=off GOSUMDB=off GOTOOLCHAIN=local
GO=go1.26.8
BASE=${BASE:-$(git -C /repo rev-list --max-parents=0 HEAD)}; git -C /repo worktree add -q --detach "$WT" "$BASE"
cd "$WT" || exit 2
res() { echo "{\"seed\":\"$SD\",\"applies\":$1,\"builds\":$2,\"suite_passes\":$3,\"demo_fails_with\":$4,\"demo_passes_without\":$5,\"demo_pkg\":\"$6\"}"; }
if ! git apply "$SD/patch.diff" 2>/dev/null; then res false false false false false ""; cd /; git -C /repo worktree remove --force "$WT"; exit 1; fi
B=true; $GO build ./... >/dev/null 2>&1 || B=false
S=true; $GO test -vet=off -count=1 ./... > "$SD/suite_with_patch.log" 2>&1 || S=false
# find the demo's package directory from its package clause + top comment
DEMO="$SD/demo_test.go"
PKGDIR=$(grep -oE '(dhcpv4|dhcpv6|netboot|rfc1035label|iana|interfaces)(/[a-z0-9]+)*' "$DEMO" | head -50 | sort | uniq -c | sort -rn | awk '{print $2}' | while read d; do [ -d "$WT/$d" ] && grep -q "^package $(basename $d)\b\|^package $(basename $d)_test" "$DEMO" && { echo $d; break; }; done)
[ -z "$PKGDIR" ] && PKGDIR=$(grep -m1 '^package ' "$DEMO" | awk '{print $2}' | sed 's/_test$//' | while read p; do find . -type d -name "$p" | head -1 | sed 's|^\./||'; done)
cp "$DEMO" "$WT/$PKGDIR/zz_seed_demo_test.go"
RUNPAT=$(grep -oE 'func (Test[A-Za-z0-9_]+)' "$DEMO" | awk '{print $2}' | paste -sd'|')
RACE=""; grep -q -- '-race' "$DEMO" "$SD/NOTES.md" 2>/dev/null && RACE="-race"
DF=false; $GO test -vet=off -count=1 $RACE -run "^($RUNPAT)\$" ./$PKGDIR > "$SD/demo_with_patch.log" 2>&1 || DF=true
git apply -R "$SD/patch.diff"
DP=false; $GO test -vet=off -count=1 $RACE -run "^($RUNPAT)\$" ./$PKGDIR > "$SD/demo_without_patch.log" 2>&1 && DP=true
res true $B $S $DF $DP "$PKGDIR"
cd /; git -C /repo worktree remove --force "$WT"
