#!/usr/bin/env python3
"""mutation_campaign.py [--files glob...] [--max-per-file N] [--out file] [--stage2]

Development-time tool (not a registered check): systematic operator-level mutants of the
library, each built and run against (1) the touched package's own tests and (2) the quick tier
of the checks that claim the properties the file is anchored in.  It works on an ISOLATED copy:
  /var/tmp/mut/repo   git worktree of /repo HEAD   (mutated in place, restored after each mutant)
  /var/tmp/mut/verif  copy of /verif whose harness module replaces the library by that worktree
so neither /repo nor /verif/run|evidence is touched.  tools/mutation_setup.sh creates both.

Output: one JSON line per mutant {file,line,op,before,after,builds,pkg_tests_pass,checks:{ID:rc},caught}.
Survivors (pkg tests pass, no check rc=1) are what one reads afterwards: equivalent mutant,
behaviour outside every property, or a gap in a monitor.
"""
import argparse, glob, hashlib, json, os, re, subprocess, sys, time

MROOT = os.environ.get("MUTROOT", "/var/tmp/mut")
MREPO = MROOT + "/repo"
MVERIF = MROOT + "/verif"
ENV = dict(os.environ, GOFLAGS="-mod=mod", GOPROXY="off", GOSUMDB="off", GOTOOLCHAIN="local",
           VERIF_CORPUS=MVERIF + "/corpus")
GO = "go1.26.8"

# file (regex on the path relative to the module root) -> checks whose quick tier is run
MAP = [
    (r"^dhcpv4/dhcpv4\.go$", ["C01", "C04", "C06", "C07", "C15", "C17"]),
    (r"^dhcpv4/options\.go$", ["C01", "C04", "C06", "C07", "C17"]),
    (r"^dhcpv4/modifiers\.go$", ["C15", "C17"]),
    (r"^dhcpv4/(option_|types|bsdp/).*\.go$", ["C17", "C15"]),
    (r"^dhcpv4/ztpv4/.*\.go$", ["C03"]),
    (r"^dhcpv4/nclient4/client\.go$", ["C10", "C11", "C12", "C13"]),
    (r"^dhcpv4/nclient4/lease\.go$", ["C13"]),
    (r"^dhcpv4/nclient4/(conn_unix|ipv4)\.go$", ["C18"]),
    (r"^dhcpv4/server4/.*\.go$", ["C14"]),
    (r"^dhcpv6/nclient6/client\.go$", ["C10", "C11", "C12", "C13"]),
    (r"^dhcpv6/server6/.*\.go$", ["C14"]),
    (r"^dhcpv6/ztpv6/.*\.go$", ["C03"]),
    (r"^dhcpv6/(dhcpv6message|dhcpv6relay|dhcpv6)\.go$", ["C02", "C05", "C06", "C16"]),
    (r"^dhcpv6/modifiers\.go$", ["C16"]),
    (r"^dhcpv6/.*\.go$", ["C02", "C05", "C06"]),
    (r"^rfc1035label/.*\.go$", ["C19", "C05", "C06"]),
    (r"^iana/.*\.go$", ["C17", "C02"]),
    (r"^netboot/.*\.go$", ["C03"]),
]
STAGE2 = ["C03", "C08", "C20", "C09"]

SKIP_FUNC = re.compile(r"func (\([^)]*\) )?(String|Summary|LongString|Error|debugf?|logf?|printf?)\(")
SKIP_LINE = re.compile(r"fmt\.|log\.|Errorf|errors\.New|Printf|//\s*nolint|^\s*//|^\s*import|^\s*package|^\s*\"")


def sh(cmd, cwd, timeout=900):
    try:
        p = subprocess.run(cmd, cwd=cwd, env=ENV, stdout=subprocess.PIPE, stderr=subprocess.STDOUT, text=True, timeout=timeout)
        return p.returncode, p.stdout
    except subprocess.TimeoutExpired:
        return 124, "timeout"


def strip_strings(line):
    """blank out string/char literals and trailing comments, preserving positions"""
    out = []
    i, n = 0, len(line)
    while i < n:
        c = line[i]
        if c == '"' or c == '`' or c == "'":
            q = c
            j = i + 1
            while j < n and line[j] != q:
                if line[j] == "\\" and q != '`':
                    j += 1
                j += 1
            out.append(" " * (min(j, n - 1) - i + 1))
            i = j + 1
            continue
        if c == "/" and i + 1 < n and line[i + 1] == "/":
            out.append(" " * (n - i))
            break
        out.append(c)
        i += 1
    return "".join(out)


OPS = [
    ("rel", re.compile(r"(?<![<>=!:+\-*/&|^%])<=(?![=])"), "<"),
    ("rel", re.compile(r"(?<![<>=!:+\-*/&|^%>])>=(?![=])"), ">"),
    ("rel", re.compile(r"(?<![<>=!:\-])<(?![<=\-])"), "<="),
    ("rel", re.compile(r"(?<![<>=!:\-])>(?![>=])"), ">="),
    ("eq", re.compile(r"(?<![<>=!:+\-*/&|^%])==(?!=)"), "!="),
    ("eq", re.compile(r"!=(?!=)"), "=="),
    ("logic", re.compile(r"&&"), "||"),
    ("logic", re.compile(r"\|\|"), "&&"),
    ("arith", re.compile(r"(?<=[\w\)\]]) \+ (?=[\w\(])"), " - "),
    ("arith", re.compile(r"(?<=[\w\)\]]) - (?=[\w\(])"), " + "),
    ("arith", re.compile(r"(?<=[\w\)\]])\+(?=[\w\(])"), "-"),
    ("arith", re.compile(r"(?<=[\w\)\]])-(?=[\w\(])"), "+"),
    ("shift", re.compile(r"<<"), ">>"),
    ("bit", re.compile(r"(?<![&|]) & (?![&|^])"), " | "),
    ("bit", re.compile(r"(?<![&|]) \| (?![&|])"), " & "),
    ("kw", re.compile(r"\bcontinue\b"), "break"),
    ("kw", re.compile(r"\btrue\b"), "false"),
    ("kw", re.compile(r"\bfalse\b"), "true"),
]
INTLIT = re.compile(r"(?<![\w.\"'x])(\d+)(?![\w.\"'])")
IFCOND = re.compile(r"^(\s*(?:\} else )?if )(.*?)( \{\s*)$")


def mutants_of(path):
    lines = open(path).read().split("\n")
    infunc_skip = False
    depth = 0
    for ln, raw in enumerate(lines):
        if raw.startswith("func "):
            infunc_skip = bool(SKIP_FUNC.search(raw))
        if infunc_skip or SKIP_LINE.search(raw) or not raw.strip():
            continue
        code = strip_strings(raw)
        for name, rx, rep in OPS:
            for m in rx.finditer(code):
                new = raw[:m.start()] + rep + raw[m.end():]
                yield ln, name, raw, new
        for m in INTLIT.finditer(code):
            v = int(m.group(1))
            for nv in ({v + 1, max(v - 1, 0)} - {v}):
                new = raw[:m.start(1)] + str(nv) + raw[m.end(1):]
                yield ln, "int", raw, new
        m = IFCOND.match(raw)
        if m and ";" not in m.group(2):
            yield ln, "negif", raw, m.group(1) + "!(" + m.group(2) + ")" + m.group(3)
        s = raw.strip()
        if (not s.endswith("{") and not s.startswith(("}", "return", "case ", "default:", "var ", "type ", "const ", "func ", ")", "defer"))
                and ":=" not in s and not s.endswith(",") and not s.endswith("(") and (("=" in code) or s.endswith(")"))):
            yield ln, "delstmt", raw, re.match(r"\s*", raw).group(0) + "_ = 0 // deleted"
        if s.startswith("return ") and s.endswith(", nil") and "err" not in s:
            pass


def checks_for(rel):
    for rx, cs in MAP:
        if re.search(rx, rel):
            return cs
    return []


def run_check(cid):
    rc, out = sh(["./check", cid, "quick"], MVERIF, timeout=1500)
    first = ""
    for l in out.splitlines():
        if l.startswith("violation ") or "VIOLATION" in l or "BUILD FAILED" in l or "HARNESS" in l:
            first = l[:300]
            break
    return rc, first


def main():
    ap = argparse.ArgumentParser()
    ap.add_argument("--files", nargs="*", default=[])
    ap.add_argument("--max-per-file", type=int, default=40)
    ap.add_argument("--out", default=MROOT + "/results.jsonl")
    ap.add_argument("--stage2", action="store_true", help="also run C03/C08/C20/C09 on mutants no mapped check caught")
    ap.add_argument("--all-checks", action="store_true", help="run every mapped check even after one caught the mutant")
    a = ap.parse_args()
    files = []
    for g in a.files:
        files += sorted(glob.glob(os.path.join(MREPO, g)))
    files = [f for f in files if f.endswith(".go") and not f.endswith("_test.go") and "verif_o" not in f]
    done = set()
    if os.path.exists(a.out):
        for l in open(a.out):
            try:
                d = json.loads(l)
                done.add((d["file"], d["line"], d["after"]))
            except Exception:
                pass
    outf = open(a.out, "a")
    for f in files:
        rel = os.path.relpath(f, MREPO)
        cs = checks_for(rel)
        if not cs:
            continue
        allm = list(mutants_of(f))
        # deterministic sample: order by hash
        allm.sort(key=lambda t: hashlib.sha1(("%s:%d:%s" % (rel, t[0], t[3])).encode()).hexdigest())
        pkgdir = os.path.dirname(rel)
        orig = open(f).read()
        taken = 0
        for ln, op, before, after in allm:
            if taken >= a.max_per_file:
                break
            if (rel, ln + 1, after) in done:
                taken += 1
                continue
            lines = orig.split("\n")
            lines[ln] = after
            open(f, "w").write("\n".join(lines))
            rec = dict(file=rel, line=ln + 1, op=op, before=before.strip(), after=after.strip())
            try:
                rc, out = sh([GO, "build", "./" + pkgdir], MREPO)
                rec["builds"] = rc == 0
                if rc != 0:
                    continue
                rc2, _ = sh([GO, "vet", "./" + pkgdir], MREPO) if False else (0, "")
                rc, out = sh([GO, "test", "-vet=off", "-count=1", "./" + pkgdir + "/..."], MREPO, timeout=600)
                rec["pkg_tests_pass"] = rc == 0
                taken += 1
                rec["checks"] = {}
                caught = False
                if rc == 0 or True:
                    for cid in cs:
                        crc, first = run_check(cid)
                        rec["checks"][cid] = dict(rc=crc, first=first)
                        if crc == 1:
                            caught = True
                            if not a.all_checks:
                                break
                    if not caught and a.stage2:
                        for cid in STAGE2:
                            if cid in cs:
                                continue
                            crc, first = run_check(cid)
                            rec["checks"][cid] = dict(rc=crc, first=first)
                            if crc == 1:
                                caught = True
                                break
                rec["caught"] = caught
                outf.write(json.dumps(rec) + "\n")
                outf.flush()
                print("%s:%d %-7s tests=%s caught=%s %s | %s => %s" % (rel, ln + 1, op, "pass" if rec["pkg_tests_pass"] else "FAIL", caught,
                      ",".join("%s=%d" % (k, v["rc"]) for k, v in rec["checks"].items()), before.strip()[:60], after.strip()[:60]), flush=True)
            finally:
                open(f, "w").write(orig)
    outf.close()


if __name__ == "__main__":
    main()
