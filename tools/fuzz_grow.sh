#!/bin/bash
# fuzz_grow.sh <pkg> <FuzzName> <duration> <corpus-subdir> [workers]
# Development-time corpus growth with Go's native coverage-guided fuzzer (same oracle as the registered check).
# New inputs are exported as raw files into /verif/corpus/<subdir>/ ; a crasher (oracle violation) is copied to /verif/corpus/_findings/.
pkg=$1; fn=$2; dur=$3; sub=$4; par=${5:-8}
cd /verif/harness || exit 2
export GOFLAGS=-mod=mod GOPROXY=off GOSUMDB=off GOTOOLCHAIN=local
cache=$(go1.26.8 env GOCACHE)/fuzz/verif/harness/$pkg/$fn
mkdir -p /var/tmp/verif-fuzzcache /verif/corpus/$sub /verif/corpus/_findings
go1.26.8 test -tags verif -vet=off -run '^$' -fuzz "^$fn\$" -fuzztime $dur -parallel $par ./$pkg > /var/tmp/verif-fuzzcache/$pkg-$fn.log 2>&1
rc=$?
go1.26.8 run ./cmd/corpusconv "$cache" "/verif/corpus/$sub"
if ls /verif/harness/$pkg/testdata/fuzz/$fn/* >/dev/null 2>&1; then
  for f in /verif/harness/$pkg/testdata/fuzz/$fn/*; do
    echo "FINDING (oracle violation or crash): $f"
    cp "$f" "/verif/corpus/_findings/$fn-$(basename $f)"
  done
fi
tail -3 /var/tmp/verif-fuzzcache/$pkg-$fn.log
exit $rc
