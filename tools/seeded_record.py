#!/usr/bin/env python3
# seeded_record.py <seeded/dir> <seed_run output>: records the outcome of tools/seed_run.sh in the seed's meta.json.
import json, re, sys

d, tmp = sys.argv[1], sys.argv[2]
m = json.load(open(d + '/meta.json'))
res = []
for l in open(tmp, errors='replace'):
    mm = re.match(r'(C\d\d) rc=(\d+) :: *(.*)', l)
    if mm:
        res.append(dict(check=mm.group(1), rc=int(mm.group(2)), first_violation=mm.group(3).strip()[:400]))
m['result'] = res
m['caught'] = any(r['rc'] == 1 for r in res)
m['caught_by'] = [r['check'] for r in res if r['rc'] == 1]
json.dump(m, open(d + '/meta.json', 'w'), indent=1)
print(d, 'caught_by=%s' % m['caught_by'], 'rcs=%s' % [(r['check'], r['rc']) for r in res], flush=True)
