#!/bin/bash
# Runs every candidate seeded change under /tmp/seedout against the quick check of its own property.
# Output: one line per seed "<prop>/<variant> <patchfile> rc=<rc> :: <first violation>"
cd /verif
for d in /tmp/seedout/C*/[AB]; do
  prop=$(basename $(dirname $d)); var=$(basename $d)
  patch=$d/patch.diff
  if ! git -C /repo apply --check $patch 2>/dev/null && [ -f $d/patch_rebased.diff ]; then patch=$d/patch_rebased.diff; fi
  extra=""
  case $prop/$var in C12/A) extra="C11";; C11/B) extra="";; esac
  res=$(tools/seed_run.sh $patch $prop $extra 2>&1 | tr '\n' ' ' | cut -c1-600)
  echo "$prop/$var $(basename $patch) :: $res"
done
