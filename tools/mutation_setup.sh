#!/bin/bash
# mutation_setup.sh: (re)creates the isolated copy used by tools/mutation_campaign.py and tools/iso_seed_run.sh:
#   /var/tmp/mut/repo  = detached git worktree of /repo HEAD
#   /var/tmp/mut/verif = copy of /verif (no run/, bin/, .git) whose harness module replaces the library by that worktree
# Remove with: git -C /repo worktree remove --force /var/tmp/mut/repo; rm -rf /var/tmp/mut
set -e
mkdir -p /var/tmp/mut
if [ ! -d /var/tmp/mut/repo ]; then git -C /repo worktree add -q --detach /var/tmp/mut/repo HEAD; fi
git -C /var/tmp/mut/repo checkout -q --detach "$(git -C /repo rev-parse HEAD)"; git -C /var/tmp/mut/repo checkout -q -- .
rsync -a --delete --exclude run --exclude bin --exclude .git --exclude evidence /verif/ /var/tmp/mut/verif/
mkdir -p /var/tmp/mut/verif/evidence
cd /var/tmp/mut/verif
sed -i 's#=> /repo#=> /var/tmp/mut/repo#' harness/go.mod
sed -i 's#"/repo/go.sum"#"/var/tmp/mut/repo/go.sum"#' check
sed -i 's#"/repo/dhcpv4/\*.go"#"/var/tmp/mut/repo/dhcpv4/*.go"#' harness/c15/c15_test.go
echo "isolated copy ready"
