#!/bin/bash
# mutation_setup.sh: (re)creates the isolated copy used by tools/mutation_campaign.py and tools/iso_seed_run.sh:
#   $M/repo  = detached git worktree of /repo HEAD
#   $M/verif = copy of /verif (no run/, bin/, .git) whose harness module replaces the library by that worktree
# Remove with: git -C /repo worktree remove --force $M/repo; rm -rf /var/tmp/mut
set -e
M=${MUTROOT:-/var/tmp/mut}
mkdir -p $M
if [ ! -d $M/repo ]; then git -C /repo worktree add -q --detach $M/repo HEAD; fi
git -C $M/repo checkout -q --detach "$(git -C /repo rev-parse HEAD)"; git -C $M/repo checkout -q -- .
rsync -a --delete --exclude run --exclude bin --exclude .git --exclude evidence /verif/ $M/verif/
mkdir -p $M/verif/evidence
cd $M/verif
sed -i "s#=> /repo#=> $M/repo#" harness/go.mod
sed -i "s#\"/repo/go.sum\"#\"$M/repo/go.sum\"#" check
sed -i "s#\"/repo/dhcpv4/\*.go\"#\"$M/repo/dhcpv4/*.go\"#" harness/c15/c15_test.go
echo "isolated copy ready"
