#!/bin/bash
# iso_seed_run.sh <patch.diff> <check-id>... : like seed_run.sh, but in the isolated copy made by tools/mutation_setup.sh
# ($MUTROOT/repo + $MUTROOT/verif, default /var/tmp/mut), so that /repo and /verif/run are left alone while long runs use them.
P=$(readlink -f "$1"); shift
M=${MUTROOT:-/var/tmp/mut}
R=$M/repo; V=$M/verif
cd $R || exit 2
git checkout -q -- . ; git clean -fdq
if ! git apply "$P" 2>/dev/null && ! git apply -3 "$P" 2>/dev/null; then echo "patch does not apply"; git reset -q --hard HEAD; exit 3; fi
cd $V
for id in "$@"; do
  s=$(date +%s)
  out=$(VERIF_CORPUS=$V/corpus VERIF_SEED=${VERIF_SEED:-1} timeout 3000 ./check $id ${TIER:-quick} 2>&1); rc=$?
  echo "$id rc=$rc secs=$(( $(date +%s)-s )) :: $(echo "$out" | grep -m2 -E 'violation |BUILD FAILED|HARNESS' | tr '\n' ' ' | cut -c1-300)"
done
git -C $R reset -q --hard HEAD; git -C $R clean -fdq; git -C $R status --short | head -3
