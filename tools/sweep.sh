#!/bin/bash
# sweep.sh <seed>...: every check's quick tier on the current tree at the given seeds; prints only non-silent results.
cd /verif
for s in "$@"; do
  for c in C01 C02 C03 C04 C05 C06 C07 C08 C09 C10 C11 C12 C13 C14 C15 C16 C17 C18 C19 C20; do
    out=$(VERIF_SEED=$s ./check $c quick 2>&1); rc=$?
    if [ $rc -ne 0 ]; then echo "seed=$s $c rc=$rc"; echo "$out" | grep -E "violation|VIOLATION|HARNESS" | head -5 | cut -c1-400; fi
  done
  echo "seed $s done"
done
