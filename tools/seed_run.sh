#!/bin/bash
# seed_run.sh <patch.diff> <check-id>... : apply a seeded change to /repo, run the quick checks, undo it.
# Prints "<id> rc=<rc>" per check; rc=1 means the check caught the change.
P=$(readlink -f "$1"); shift
cd /repo || exit 2
if ! git diff --quiet || ! git diff --cached --quiet; then echo "/repo has uncommitted changes"; exit 2; fi
if ! git apply "$P" 2>/dev/null && ! git apply -3 "$P" 2>/dev/null; then echo "patch does not apply"; git reset -q --hard HEAD; exit 3; fi
cd /verif
for id in "$@"; do
  out=$(VERIF_SEED=${VERIF_SEED:-1} ./check $id ${TIER:-quick} 2>&1); rc=$?
  echo "$id rc=$rc :: $(echo "$out" | grep -m2 -E 'violation |BUILD FAILED|HARNESS' | tr '\n' ' ' | cut -c1-300)"
done
git -C /repo reset -q --hard HEAD; git -C /repo status --short | head -3
