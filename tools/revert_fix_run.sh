#!/bin/bash
# revert_fix_run.sh <fix-commit> <check-id>...: reverse-apply a fix: commit to /repo's working tree (as a mutant),
# run the quick checks, restore.  rc=1 per check means the check detects the reverted fix.
C=$1; shift
cd /repo || exit 2
if ! git diff --quiet || ! git diff --cached --quiet; then echo "/repo has uncommitted changes"; exit 2; fi
git diff $C~1 $C | git apply -R || { echo "cannot reverse-apply"; git reset -q --hard HEAD; exit 3; }
cd /verif
for id in "$@"; do
  out=$(./check $id ${TIER:-quick} 2>&1); rc=$?
  echo "$id rc=$rc :: $(echo "$out" | grep -m3 -E 'violation |BUILD FAILED|HARNESS' | tr '\n' ' ' | cut -c1-400)"
done
git -C /repo reset -q --hard HEAD; git -C /repo status --short | head -3
