#!/usr/bin/env python3
# seeded_round_record.py <round> <seedout-dir> <frozen-commit-text>: files the seeded changes of one round under
# /verif/seeded/<ID>-r<round><V>/ (patch.diff, demo_test.go.txt, NOTES.md, meta.json) from
#   <seedout-dir>/<ID>/<V>/{patch.diff,demo_test.go,NOTES.md}   the sub-agent's delivery
#   <seedout-dir>/confirm.log                                   JSON lines of tools/seed_confirm.sh
#   <seedout-dir>/first.log                                     runs against the frozen copy made before the seeds were looked at
#   <seedout-dir>/now.log                                       runs against the current checks
# Log lines look like "C05/B :: C05 rc=1 secs=5 ::   violation ... " (tools/iso_seed_run.sh); a seed may have several.
import json, os, re, shutil, sys

rnd, out, frozen = sys.argv[1], sys.argv[2], sys.argv[3]
base = os.popen('git -C /repo log --oneline -1').read().strip()


def runs(path):
    res = {}
    if not os.path.exists(path):
        return res
    for l in open(path, errors='replace'):
        m = re.match(r'(C\d\d)/([AB]) :: (.*)', l)
        if not m:
            continue
        key = (m.group(1), m.group(2))
        for seg in re.finditer(r'(C\d\d) rc=(\d+) secs=\d+ :: *(.*?)(?= C\d\d rc=\d+ secs=|$)', m.group(3)):
            res.setdefault(key, []).append(dict(check=seg.group(1), rc=int(seg.group(2)), first_violation=seg.group(3).strip()[:400]))
    return res


confirm = {}
for l in open(out + '/confirm.log'):
    j = json.loads(l)
    m = re.search(r'/(C\d\d)/([AB])$', j['seed'])
    confirm[(m.group(1), m.group(2))] = j
first, now = runs(out + '/first.log'), runs(out + '/now.log')
for (pid, v), c in sorted(confirm.items()):
    src = '%s/%s/%s' % (out, pid, v)
    d = '/verif/seeded/%s-r%s%s' % (pid, rnd, v)
    os.makedirs(d, exist_ok=True)
    shutil.copy(src + '/patch.diff', d + '/patch.diff')
    shutil.copy(src + '/demo_test.go', d + '/demo_test.go.txt')
    shutil.copy(src + '/NOTES.md', d + '/NOTES.md')
    title = open(src + '/NOTES.md').readline().strip()
    conf = {k: c[k] for k in ('applies', 'builds', 'suite_passes', 'demo_fails_with', 'demo_passes_without', 'demo_pkg')}
    note = os.path.join(src, 'CONFIRM_NOTE.txt')
    if os.path.exists(note):
        conf['note'] = open(note).read().strip()
    fr, nr = first.get((pid, v), []), now.get((pid, v), [])
    meta = {
        'property': pid, 'variant': v, 'round': int(rnd),
        'breaks': 'property %s (written by an independent sub-agent that saw only the property text, the titles of earlier proposals and its own scratch worktree)' % pid,
        'title': title,
        'confirmed_in_scratch_worktree': conf,
        'base_commit': base + ' (current /repo HEAD: pinned commit + fix and hook commits)',
        'patch_for_current_tree': 'patch.diff',
        'checks': sorted({r['check'] for r in nr} | {pid}),
        'ran': [
            'BASE=HEAD tools/seed_confirm.sh %s' % src,
            'before: frozen isolated copy of /verif (%s), ./check %s quick on the patched isolated worktree' % (frozen, pid),
            'now: tools/iso_seed_run.sh patch.diff <checks> against the current /verif',
        ],
        'result_before_strengthening': fr,
        'caught_before_strengthening': any(r['rc'] == 1 for r in fr),
        'result': nr,
        'caught': any(r['rc'] == 1 for r in nr),
        'caught_by': sorted({r['check'] for r in nr if r['rc'] == 1}),
    }
    json.dump(meta, open(d + '/meta.json', 'w'), indent=1)
    print(pid, v, 'before=%s' % meta['caught_before_strengthening'], 'now=%s' % meta['caught_by'], '' if c['suite_passes'] else 'SUITE?')
