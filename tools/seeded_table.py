#!/usr/bin/env python3
# seeded_table.py <round>: the markdown table of one round of seeded changes (DESIGN.md section 8.1x), from seeded/*/meta.json
import glob, json, re, sys
rnd = sys.argv[1]
print('| seed | change | before | caught by (first violation key, current tree) |')
print('|---|---|---|---|')
for f in sorted(glob.glob('/verif/seeded/*-r%s[AB]/meta.json' % rnd)):
    m = json.load(open(f))
    name = f.split('/')[-2]
    t = re.sub(r'^#\s*C\d\d / [AB] \(round \d+\)\s*[—-]\s*', '', m['title'])
    if len(t) > 170:
        t = t[:167] + '...'
    t = t.replace('|', '\\|')
    by = []
    for r in m['result']:
        if r['rc'] == 1:
            k = re.match(r'violation (\S+?):? ', r['first_violation'] + ' ')
            key = k.group(1).rstrip(':') if k else '?'
            key = re.sub(r'^(C\d\d:[a-z0-9-]+(?::[A-Za-z0-9*./()-]+)?).*', r'\1', key)
            by.append('%s: `%s`' % (r['check'], key[:60]))
    print('| %s | %s | %s | %s |' % (name, t, 'caught' if m['caught_before_strengthening'] else '**missed**', '; '.join(by) if by else '**MISSED**'))
