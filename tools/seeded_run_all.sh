#!/bin/bash
# seeded_run_all.sh [dir-glob]: runs every stored seeded change (seeded/<id>/) against the quick checks named in its
# meta.json ("checks", default: its own property), through tools/seed_run.sh (apply to /repo, check, reset --hard).
# Rewrites the "result"/"caught" fields of each meta.json and prints one line per seed.  /repo must be clean.
cd /verif
tmp=$(mktemp /var/tmp/seedres.XXXXXX)
for d in seeded/${1:-*}/; do
  d=${d%/}
  [ -f $d/meta.json ] || continue
  patch=$(python3 -c "import json;m=json.load(open('$d/meta.json'));print(m.get('patch_for_current_tree','patch.diff'))")
  checks=$(python3 -c "import json;m=json.load(open('$d/meta.json'));print(' '.join(m.get('checks',[m['property']])))")
  tools/seed_run.sh $d/$patch $checks > $tmp 2>&1
  python3 tools/seeded_record.py "$d" "$tmp"
done
rm -f $tmp
git -C /repo status --short | head -3
