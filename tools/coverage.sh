#!/bin/bash
# coverage.sh: statement coverage of the library under the monitors' quick workloads (one of 8 shards each).
# Shows which library code the workloads never drive.  Output: run/cover/merged.out and a per-function table.
cd /verif/harness || exit 2
export GOFLAGS=-mod=mod GOPROXY=off GOSUMDB=off GOTOOLCHAIN=local
mkdir -p ../run/cover
for d in c[0-9][0-9]; do
  for run in TestCheck TestStress; do
    grep -q "func $run" $d/*_test.go 2>/dev/null || continue
    VERIF_TIER=quick VERIF_SHARD=3 VERIF_NSHARDS=7 VERIF_OUT=../run/cover/$d.$run.json VERIF_STAGE=cover \
      go1.26.8 test -tags verif -vet=off -count=1 -run "^$run\$" -coverpkg=github.com/insomniacslk/dhcp/... -coverprofile=../run/cover/$d.$run.out ./$d > ../run/cover/$d.$run.log 2>&1 || echo "$d $run failed"
  done
done
python3 - <<'PY'
import glob,collections
cov=collections.OrderedDict()
for f in sorted(glob.glob('/verif/run/cover/*.out')):
    if f.endswith('merged.out'): continue
    for l in open(f):
        if l.startswith('mode:'): continue
        k,c=l.rsplit(' ',1)
        cov[k]=max(cov.get(k,0),int(c))
with open('/verif/run/cover/merged.out','w') as o:
    o.write('mode: set\n')
    for k,c in cov.items(): o.write('%s %d\n'%(k,1 if c else 0))
PY
go1.26.8 tool cover -func=../run/cover/merged.out > ../run/cover/func.txt
tail -1 ../run/cover/func.txt
