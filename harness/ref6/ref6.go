// Package ref6 is an independent DHCPv6 reference decoder written from
// RFC 8415 and the per-option RFCs (layout rules: DESIGN.md Appendix A).
// It imports nothing from the module under test.  Three-valued result.
package ref6

import (
	"fmt"
	"strconv"

	"verif/harness/ref4"
	"verif/harness/reflabel"
	"verif/harness/tree"
)

type Verdict int

const (
	Accept Verdict = iota
	Reject
	Unspecified
)

func (v Verdict) String() string { return [...]string{"accept", "reject", "unspecified"}[v] }

type Result struct {
	V    Verdict
	Tree *tree.Node
	Why  string // reject / unspecified reason class
	// LenFields are the offsets (in the top-level input) of every 2-byte option length field found,
	// used by the mutators to perturb real length fields.
	LenFields []int
	MaxDepth  int
}

// CutV4Names applies the C06 normalisation (v4 names cut to 63/127) inside embedded DHCPv4 messages.
var CutV4Names bool

type dec struct {
	unspec    string
	lenFields []int
	maxDepth  int
}

type rejectErr struct{ why string }

func (d *dec) fail(why string) { panic(rejectErr{why}) }

func u16(b []byte) int { return int(b[0])<<8 | int(b[1]) }
func u32(b []byte) uint64 {
	return uint64(b[0])<<24 | uint64(b[1])<<16 | uint64(b[2])<<8 | uint64(b[3])
}

// Decode decodes a DHCPv6 message or relay message.
func Decode(b []byte) (res Result) {
	d := &dec{}
	defer func() {
		if r := recover(); r != nil {
			if re, ok := r.(rejectErr); ok {
				res = Result{V: Reject, Why: re.why, LenFields: d.lenFields, MaxDepth: d.maxDepth}
				return
			}
			panic(r)
		}
	}()
	t := d.message(b, 0, 1)
	res = Result{V: Accept, Tree: t, LenFields: d.lenFields, MaxDepth: d.maxDepth}
	if d.unspec != "" {
		res.V, res.Why = Unspecified, d.unspec
	}
	return
}

// DecodeOption decodes a single option value of the given code (the ParseOption entry point).
func DecodeOption(code int, v []byte) (res Result) {
	d := &dec{}
	defer func() {
		if r := recover(); r != nil {
			if re, ok := r.(rejectErr); ok {
				res = Result{V: Reject, Why: re.why}
				return
			}
			panic(r)
		}
	}()
	t := d.option(code, v, 0, 1)
	res = Result{V: Accept, Tree: t, MaxDepth: d.maxDepth}
	if d.unspec != "" {
		res.V, res.Why = Unspecified, d.unspec
	}
	return
}

func (d *dec) message(b []byte, base int, depth int) *tree.Node {
	if depth > d.maxDepth {
		d.maxDepth = depth
	}
	if len(b) < 1 {
		d.fail("msg-empty")
	}
	t := b[0]
	if t == 12 || t == 13 {
		if len(b) < 34 {
			d.fail("relay-header-short")
		}
		n := tree.N("relay").U("type", uint64(t)).U("hop", uint64(b[1])).B("link", b[2:18]).B("peer", b[18:34])
		return n.K(d.options(b[34:], base+34, depth, d.option)...)
	}
	if len(b) < 4 {
		d.fail("msg-header-short")
	}
	n := tree.N("msg").U("type", uint64(t)).B("xid", b[1:4])
	return n.K(d.options(b[4:], base+4, depth, d.option)...)
}

type optFn func(code int, v []byte, base int, depth int) *tree.Node

// options: code(2) len(2) value(len) tiling b exactly.
func (d *dec) options(b []byte, base int, depth int, f optFn) []*tree.Node {
	var out []*tree.Node
	i := 0
	for i < len(b) {
		if len(b)-i < 4 {
			d.fail("option-header-short")
		}
		code, l := u16(b[i:]), u16(b[i+2:])
		if base >= 0 {
			d.lenFields = append(d.lenFields, base+i+2)
		}
		if i+4+l > len(b) {
			d.fail("option-overrun")
		}
		vb := -1
		if base >= 0 {
			vb = base + i + 4
		}
		out = append(out, f(code, b[i+4:i+4+l], vb, depth+1))
		i += 4 + l
	}
	return out
}

func (d *dec) names(kind string, v []byte, allowPartial bool) []string {
	r := reflabel.Decode(v)
	switch r.V {
	case reflabel.Malformed:
		d.fail(kind + "-name-" + r.Why)
	case reflabel.Unspecified:
		d.unspecified(kind + "-name-" + r.Why)
		return nil
	}
	if r.Pointers > 0 {
		d.unspecified(kind + "-name-compressed") // RFC 8415 §10 forbids compression; the library tolerates it
	}
	if r.Partial && !allowPartial {
		d.unspecified(kind + "-name-partial")
	}
	return r.Names
}

func (d *dec) unspecified(why string) {
	if d.unspec == "" {
		d.unspec = why
	}
}

func hexList(v []byte, sz int) []string {
	var l []string
	for i := 0; i+sz <= len(v); i += sz {
		l = append(l, fmt.Sprintf("%x", v[i:i+sz]))
	}
	return l
}

// items: len(2) data items tiling v exactly.
func (d *dec) items(kind string, v []byte) []string {
	var l []string
	i := 0
	for i < len(v) {
		if len(v)-i < 2 {
			d.fail(kind + "-item-header-short")
		}
		n := u16(v[i:])
		if i+2+n > len(v) {
			d.fail(kind + "-item-overrun")
		}
		l = append(l, fmt.Sprintf("%x", v[i+2:i+2+n]))
		i += 2 + n
	}
	return l
}

func maskBits(b []byte, bits int) []byte {
	out := make([]byte, len(b))
	for i := range b {
		switch {
		case bits >= 8*(i+1):
			out[i] = b[i]
		case bits > 8*i:
			out[i] = b[i] & (0xff << (8 - (bits - 8*i)))
		}
	}
	return out
}

func (d *dec) duid(v []byte) *tree.Node {
	if len(v) < 2 {
		d.fail("duid-short")
	}
	if len(v) > 130 {
		d.unspecified("duid-longer-than-130")
	}
	t, body := u16(v), v[2:]
	switch t {
	case 1:
		if len(body) < 6 {
			d.fail("duid-llt-short")
		}
		return tree.N("duid-llt").U("hw", uint64(u16(body))).U("time", u32(body[2:])).B("ll", body[6:])
	case 2:
		if len(body) < 4 {
			d.fail("duid-en-short")
		}
		return tree.N("duid-en").U("en", u32(body)).B("id", body[4:])
	case 3:
		if len(body) < 2 {
			d.fail("duid-ll-short")
		}
		return tree.N("duid-ll").U("hw", uint64(u16(body))).B("ll", body[2:])
	case 4:
		if len(body) != 16 {
			d.fail("duid-uuid-length")
		}
		return tree.N("duid-uuid").B("uuid", body)
	}
	return tree.N("duid-opaque").U("type", uint64(t)).B("data", body)
}

// TypedCodes is the set of option codes this reference knows a layout for.
var TypedCodes = map[int]string{1: "clientid", 2: "serverid", 3: "iana", 4: "iata", 5: "iaaddr", 6: "oro", 8: "elapsed", 9: "relaymsg", 13: "status",
	15: "userclass", 16: "vendorclass", 17: "vendoropts", 18: "interfaceid", 23: "dns", 24: "domainsearch", 25: "iapd", 26: "iaprefix", 32: "refresh",
	37: "remoteid", 39: "fqdn", 56: "ntp", 59: "bootfileurl", 60: "bootfileparam", 61: "archtype", 62: "nii", 79: "clientlladdr", 87: "dhcpv4msg",
	88: "4o6server", 97: "4rd", 98: "4rdmap", 99: "4rdnonmap", 135: "relayport"}

func (d *dec) option(code int, v []byte, base int, depth int) *tree.Node {
	if depth > d.maxDepth {
		d.maxDepth = depth
	}
	need := func(ok bool, why string) {
		if !ok {
			d.fail(why)
		}
	}
	sub := func(b []byte, off int) []*tree.Node {
		nb := -1
		if base >= 0 {
			nb = base + off
		}
		return d.options(b, nb, depth, d.option)
	}
	switch code {
	case 1:
		return tree.N("clientid").K(d.duid(v))
	case 2:
		return tree.N("serverid").K(d.duid(v))
	case 3, 25:
		need(len(v) >= 12, "ia-short")
		k := "iana"
		if code == 25 {
			k = "iapd"
		}
		return tree.N(k).B("iaid", v[:4]).U("t1", u32(v[4:])).U("t2", u32(v[8:])).K(sub(v[12:], 12)...)
	case 4:
		need(len(v) >= 4, "iata-short")
		return tree.N("iata").B("iaid", v[:4]).K(sub(v[4:], 4)...)
	case 5:
		need(len(v) >= 24, "iaaddr-short")
		return tree.N("iaaddr").B("addr", v[:16]).U("pref", u32(v[16:])).U("valid", u32(v[20:])).K(sub(v[24:], 24)...)
	case 26:
		need(len(v) >= 25, "iaprefix-short")
		pl := int(v[8])
		need(pl <= 128, "iaprefix-length>128")
		return tree.N("iaprefix").U("pref", u32(v)).U("valid", u32(v[4:])).U("plen", uint64(pl)).B("prefix", maskBits(v[9:25], pl)).K(sub(v[25:], 25)...)
	case 6:
		need(len(v)%2 == 0, "oro-odd")
		var codes []string
		seen := map[int]bool{}
		for i := 0; i < len(v); i += 2 {
			c := u16(v[i:])
			if !seen[c] {
				seen[c] = true
				codes = append(codes, strconv.Itoa(c))
			}
		}
		return tree.N("oro").L("codes", codes)
	case 8:
		need(len(v) == 2, "elapsed-length")
		return tree.N("elapsed").U("cs", uint64(u16(v)))
	case 9:
		nb := -1
		if base >= 0 {
			nb = base
		}
		return tree.N("relaymsg").K(d.message(v, nb, depth+1))
	case 13:
		need(len(v) >= 2, "status-short")
		return tree.N("status").U("code", uint64(u16(v))).B("msg", v[2:])
	case 15:
		need(len(v) > 0, "userclass-empty")
		return tree.N("userclass").L("items", d.items("userclass", v))
	case 16:
		need(len(v) >= 4, "vendorclass-short")
		it := d.items("vendorclass", v[4:])
		if len(it) == 0 {
			d.unspecified("vendorclass-no-items")
		}
		return tree.N("vendorclass").U("en", u32(v)).L("items", it)
	case 17:
		need(len(v) >= 4, "vendoropts-short")
		vb := -1
		if base >= 0 {
			vb = base + 4
		}
		kids := d.options(v[4:], vb, depth, func(c int, sv []byte, _ int, _ int) *tree.Node {
			return tree.N("sub").U("code", uint64(c)).B("data", sv)
		})
		return tree.N("vendoropts").U("en", u32(v)).K(kids...)
	case 18:
		return tree.N("interfaceid").B("id", v)
	case 23, 88:
		need(len(v)%16 == 0, "addrlist-not-multiple-of-16")
		k := "dns"
		if code == 88 {
			k = "4o6server"
		} else if len(v) == 0 {
			d.unspecified("dns-empty")
		}
		return tree.N(k).L("addrs", hexList(v, 16))
	case 24:
		return tree.N("domainsearch").L("names", d.names("dsl", v, false))
	case 32:
		need(len(v) == 4, "refresh-length")
		return tree.N("refresh").U("secs", u32(v))
	case 37:
		need(len(v) >= 4, "remoteid-short")
		return tree.N("remoteid").U("en", u32(v)).B("id", v[4:])
	case 39:
		need(len(v) >= 1, "fqdn-empty")
		return tree.N("fqdn").U("flags", uint64(v[0])).L("names", d.names("fqdn", v[1:], true))
	case 56:
		kids := d.options(v, base, depth, func(c int, sv []byte, _ int, _ int) *tree.Node {
			switch c {
			case 1:
				need(len(sv) == 16, "ntp-srvaddr-length")
				return tree.N("ntp-srv").B("addr", sv)
			case 2:
				need(len(sv) == 16, "ntp-mcaddr-length")
				return tree.N("ntp-mc").B("addr", sv)
			case 3:
				return tree.N("ntp-fqdn").L("names", d.names("ntp", sv, false))
			}
			return tree.N("generic").U("code", uint64(c)).B("data", sv)
		})
		return tree.N("ntp").K(kids...)
	case 59:
		return tree.N("bootfileurl").B("url", v)
	case 60:
		return tree.N("bootfileparam").L("params", d.items("bootfileparam", v))
	case 61:
		need(len(v) > 0 && len(v)%2 == 0, "archtype-length")
		var a []string
		for i := 0; i < len(v); i += 2 {
			a = append(a, strconv.Itoa(u16(v[i:])))
		}
		return tree.N("archtype").L("archs", a)
	case 62:
		need(len(v) == 3, "nii-length")
		return tree.N("nii").U("type", uint64(v[0])).U("major", uint64(v[1])).U("minor", uint64(v[2]))
	case 79:
		need(len(v) >= 2, "clientlladdr-short")
		return tree.N("clientlladdr").U("hw", uint64(u16(v))).B("ll", v[2:])
	case 87:
		p, ok, why := ref4.Decode(v)
		need(ok, "dhcpv4msg-"+why)
		if CutV4Names {
			if len(p.SName) > 63 {
				p.SName = p.SName[:63]
			}
			if len(p.File) > 127 {
				p.File = p.File[:127]
			}
		}
		return tree.N("dhcpv4msg").S("p4", p.Canon())
	case 97:
		return tree.N("4rd").K(sub(v, 0)...)
	case 98:
		need(len(v) == 24, "4rdmap-length")
		p4, p6 := int(v[0]), int(v[1])
		need(p4 <= 32, "4rdmap-prefix4>32")
		need(p6 <= 128, "4rdmap-prefix6>128")
		return tree.N("4rdmap").U("p4len", uint64(p4)).U("p6len", uint64(p6)).U("ea", uint64(v[2])).U("wkp", uint64(v[3]>>7)).
			B("p4", maskBits(v[4:8], p4)).B("p6", maskBits(v[8:24], p6))
	case 99:
		need(len(v) == 4, "4rdnonmap-length")
		hs, tp := uint64(v[0]>>7), uint64(v[0]&1)
		tc := uint64(0)
		if tp == 1 {
			tc = uint64(v[1])
		}
		return tree.N("4rdnonmap").U("hs", hs).U("tcp", tp).U("tc", tc).U("pmtu", uint64(u16(v[2:])))
	case 135:
		need(len(v) == 2, "relayport-length")
		return tree.N("relayport").U("port", uint64(u16(v)))
	}
	return tree.N("generic").U("code", uint64(code)).B("data", v)
}
