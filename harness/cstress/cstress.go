// Package cstress runs the real clients under a real-time, race-detector
// friendly stress workload over a scripted conn and records a history (event
// log with global sequence numbers) for the offline checkers of C10 and C11.
package cstress

import (
	"os"
	"context"
	"errors"
	"encoding/binary"
	"fmt"
	"math/rand/v2"
	"net"
	"runtime"
	"runtime/pprof"
	"sort"
	"strings"
	"sync"
	"sync/atomic"
	"time"

	"verif/harness/cli"
	"verif/harness/sconn"
)

type CallRec struct {
	ID       int
	Xid      uint32
	Matcher  string // nil | typed | reject | block
	Tries    int
	T        time.Duration
	StartSeq int64
	EndSeq   int64
	TxSeqs   []int64 // sequence numbers of this call's transmissions
	Returned bool
	Err      string
	ErrKind  string // ok | noresp | ctx | inuse | other
	GotMsg   bool
	Resp     cli.Resp
	NilMsgWithoutErr bool
	CancelSeq int64 // when the harness cancelled its context (0: never)
	Held     bool   // deliberately kept pending (holder of an xid)
	InsideHolder int // id of the holder call whose pending window encloses this call entirely (0: none)
}

type Dgram struct {
	Nonce    int
	Class    string
	Xid      uint32
	Type     int
	K        int   // index of the ReadFrom call that returned it
	RetSeq   int64 // seq of rx.return
	NextInvokeSeq int64 // seq of the following rx.invoke (0: none)
}

type MatchEv struct {
	Call  int
	Nonce int
	Nil   bool
	Seq   int64
	Verdict bool
}

type History struct {
	Fam        string
	Calls      []*CallRec
	Dgrams     map[int]*Dgram
	Matches    []MatchEv
	HookHits   int
	CloseSeq   int64
	CloseRetSeq int64
	CloseErr   error
	Close2Err  error
	Stuck      []string // calls that had not returned when the watchdog fired (goroutine dump excerpt)
	Leak       string   // library goroutines still alive after Close
	Events     int
	OrderHash  uint64
	WallMs     int64
}

// StuckLimit is the wall-clock wait for "everything has returned after Close": 20 s among the other cases of a loaded
// machine (an expiry there only makes the history a suspect), 120 s when the history is re-run alone (an expiry counts).
func StuckLimit() time.Duration {
	if os.Getenv("VERIF_REPLAY") != "" {
		return 120 * time.Second
	}
	return 20 * time.Second
}

type Opts struct {
	Callers   int
	PerCaller int
	XidPool   int
	CloseMid  bool // Close races with in-flight calls
	T         time.Duration
	Cfg       int // client logging configuration (cli.NewCfg)
	Tries     int // tries per call (0: one); with more, unanswered calls retransmit side by side
}

// The library hook variable is written once per process and family, before any client exists; the action of
// the current history is reached through an atomic pointer (so installing it is never itself a race).
var curHook atomic.Pointer[func(string)]
var hookOnce sync.Map

func installHook(f cli.Family) {
	if _, loaded := hookOnce.LoadOrStore(f.Name(), true); loaded {
		return
	}
	f.SetHook(func(p string) {
		if h := curHook.Load(); h != nil {
			(*h)(p)
		}
	})
}

// Run executes one short history.
func Run(f cli.Family, rng *rand.Rand, o Opts) *History {
	h := &History{Fam: f.Name(), Dgrams: map[int]*Dgram{}}
	t0 := time.Now()
	conn := sconn.New(0)
	delaySeed := rng.Uint64()
	var dctr atomic.Uint64
	jitter := func(string) {
		x := (dctr.Add(1)*0x9E3779B97F4A7C15 + delaySeed) >> 58
		switch {
		case x < 20:
		case x < 40:
			runtime.Gosched()
		case x < 44:
			time.Sleep(time.Duration(x) * time.Microsecond)
		}
	}
	conn.Delay = jitter
	var hookHits atomic.Int64
	hk := func(p string) {
		hookHits.Add(1)
		jitter(p)
		if dctr.Load()%3 == 0 {
			time.Sleep(50 * time.Microsecond)
		}
	}
	installHook(f)
	curHook.Store(&hk)
	defer curHook.Store(nil)
	var mu sync.Mutex
	txByCall := map[int][]int64{}
	conn.OnWrite = func(w sconn.Write) {
		// the request carries the call id in its marker option (last 4 bytes of the marker payload)
		if id := markerOf(w.B); id > 0 {
			mu.Lock()
			txByCall[id] = append(txByCall[id], w.Seq)
			mu.Unlock()
		}
	}
	if o.Tries < 1 {
		o.Tries = 1
	}
	c, err := f.NewCfg(conn, o.T, o.Tries, o.Cfg)
	if err != nil {
		panic(err)
	}
	var callID atomic.Int64
	var matches []MatchEv
	var calls []*CallRec
	release := make(chan struct{})
	heldSig := make(chan struct{}, 1)
	holdRelease := make(chan struct{})
	var wg sync.WaitGroup
	closedFlag := atomic.Bool{}
	dest := &net.UDPAddr{IP: net.IPv4bcast, Port: 67}

	doCall := func(r *rand.Rand, xid uint32, matcher string, held bool, inside int, ctx context.Context, cancel context.CancelFunc) *CallRec {
		id := int(callID.Add(1))
		rec := &CallRec{ID: id, Xid: xid, Matcher: matcher, Tries: o.Tries, T: o.T, Held: held, InsideHolder: inside}
		mu.Lock()
		calls = append(calls, rec)
		mu.Unlock()
		var m cli.MatchFn
		logMatch := func(rp cli.Resp, v bool) {
			mu.Lock()
			matches = append(matches, MatchEv{Call: id, Nonce: rp.Nonce, Nil: rp.Nil, Seq: sconn.NextSeq(), Verdict: v})
			mu.Unlock()
		}
		switch matcher {
		case "typed":
			m = func(rp cli.Resp) bool { v := !rp.Nil && rp.Type == f.AcceptType(); logMatch(rp, v); return v }
		case "reject":
			m = func(rp cli.Resp) bool { logMatch(rp, false); return false }
		case "hold":
			m = func(rp cli.Resp) bool {
				select {
				case heldSig <- struct{}{}:
				default:
				}
				<-holdRelease // the call stays registered for as long as its matcher is running
				logMatch(rp, false)
				return false
			}
		case "block":
			m = func(rp cli.Resp) bool {
				select {
				case <-release:
				case <-time.After(2 * time.Millisecond):
				}
				v := !rp.Nil && rp.Type == f.AcceptType()
				logMatch(rp, v)
				return v
			}
		}
		req := markedRequest(f, xid, id)
		rec.StartSeq = sconn.NextSeq()
		resp, got, err := c.SendAndRead(ctx, dest, req, m)
		rec.EndSeq = sconn.NextSeq()
		rec.Returned, rec.GotMsg, rec.Resp = true, got, resp
		switch {
		case err == nil:
			rec.ErrKind = "ok"
			if !got {
				rec.NilMsgWithoutErr = true
			}
		case f.IsNoResponse(err):
			rec.ErrKind = "noresp"
		case err == context.Canceled || err == context.DeadlineExceeded:
			rec.ErrKind = "ctx"
		case f.IsInUse(err):
			rec.ErrKind = "inuse"
		case errors.Is(err, net.ErrClosed) || strings.Contains(err.Error(), "use of closed network connection"):
			rec.ErrKind = "closed" // the call was made on (or raced with) an already closed client: its transmission failed
		default:
			rec.ErrKind = "other"
		}
		if err != nil {
			rec.Err = err.Error()
		}
		_ = cancel
		_ = r
		return rec
	}

	// feeder: mixed datagram stream, as fast as the client reads
	stopFeed := make(chan struct{})
	var feedWG sync.WaitGroup
	feedWG.Add(1)
	fr := rand.New(rand.NewPCG(rng.Uint64(), 7))
	go func() {
		defer feedWG.Done()
		classes := f.Classes()
		nonce := 0
		for {
			select {
			case <-stopFeed:
				return
			default:
			}
			nonce++
			cls := classes[fr.IntN(len(classes))]
			if fr.IntN(3) == 0 {
				cls = "matching"
			}
			xid := uint32(1 + fr.IntN(o.XidPool))
			typ := f.AcceptType()
			if cls == "other-type" {
				typ = f.OtherType()
			}
			bcls := cls
			if cls == "other-type" {
				bcls = "matching"
			}
			d := &Dgram{Nonce: nonce, Class: cls, Xid: xid, Type: typ}
			mu.Lock()
			h.Dgrams[nonce] = d
			mu.Unlock()
			if !conn.Inject(sconn.Datagram{B: f.Datagram(bcls, xid, nonce, typ), From: dest, Nonce: nonce, Class: cls}) {
				return
			}
			if fr.IntN(8) == 0 {
				time.Sleep(time.Duration(fr.IntN(300)) * time.Microsecond)
			}
		}
	}()

	// callers
	for g := 0; g < o.Callers; g++ {
		wg.Add(1)
		cr := rand.New(rand.NewPCG(rng.Uint64(), uint64(g)))
		go func() {
			defer wg.Done()
			for k := 0; k < o.PerCaller && !closedFlag.Load(); k++ {
				xid := uint32(1 + cr.IntN(o.XidPool))
				matcher := []string{"nil", "typed", "typed", "reject", "block"}[cr.IntN(5)]
				ctx, cancel := context.WithCancel(context.Background())
				var rec *CallRec
				if cr.IntN(4) == 0 { // cancel while in flight
					d := time.Duration(cr.IntN(int(o.T))) / 2
					tm := time.AfterFunc(d, func() { cancel() })
					rec = doCall(cr, xid, matcher, false, 0, ctx, cancel)
					tm.Stop()
				} else {
					rec = doCall(cr, xid, matcher, false, 0, ctx, cancel)
				}
				cancel()
				_ = rec
			}
		}()
	}
	hr := rand.New(rand.NewPCG(rng.Uint64(), 99)) // the holder goroutine's own generator
	closeAfter := time.Duration(rng.IntN(int(2*o.T))) / 2
	// holder scenario: H's matcher is held blocked by the harness, so H demonstrably stays registered; a call J with
	// the same transaction id that starts after the matcher was entered and ends before it is released must be refused
	wg.Add(1)
	go func() {
		defer wg.Done()
		hx := uint32(1000 + hr.IntN(5)) // outside the feeder's pool
		ctx, cancel := context.WithCancel(context.Background())
		hdone := make(chan *CallRec, 1)
		go func() { hdone <- doCall(nil, hx, "hold", true, 0, ctx, cancel) }()
		// a datagram for H: its matcher blocks on it
		hn := 1 << 20
		mu.Lock()
		h.Dgrams[hn] = &Dgram{Nonce: hn, Class: "matching", Xid: hx, Type: f.OtherType()}
		mu.Unlock()
		injected := make(chan bool, 2)
		go func() {
			// wait until H has transmitted (it registers before transmitting), then inject
			for dl := time.Now().Add(time.Second); time.Now().Before(dl) && !closedFlag.Load(); {
				mu.Lock()
				ok := false
				for _, cc := range calls {
					if cc.Held && len(txByCall[cc.ID]) > 0 {
						ok = true
					}
				}
				mu.Unlock()
				if ok {
					break
				}
				time.Sleep(50 * time.Microsecond)
			}
			injected <- conn.Inject(sconn.Datagram{B: f.Datagram("matching", hx, hn, f.OtherType()), From: dest, Nonce: hn, Class: "matching"})
		}()
		select {
		case <-heldSig:
			var hrec *CallRec
			mu.Lock()
			for _, cc := range calls {
				if cc.Held {
					hrec = cc
				}
			}
			mu.Unlock()
			if hrec != nil && !closedFlag.Load() {
				c2, cc2 := context.WithCancel(context.Background())
				doCall(nil, hx, "nil", false, hrec.ID, c2, cc2)
				cc2()
			}
		case ok := <-injected:
			injected <- ok
			if ok { // delivered, but H never reached its matcher (it ended first): nothing to check
				select {
				case <-heldSig:
				case <-time.After(20 * time.Millisecond):
				}
			}
		case <-time.After(2 * time.Second):
		}
		close(holdRelease)
		cancel()
		<-hdone
		<-injected
	}()

	if o.CloseMid {
		time.Sleep(closeAfter)
	} else {
		wg.Wait()
	}
	closedFlag.Store(true)
	h.CloseSeq = sconn.NextSeq()
	closeDone := make(chan struct{})
	var closeErr, close2Err error
	var closeRetSeq int64
	go func() {
		e1 := c.Close()
		sq := sconn.NextSeq()
		e2 := c.Close()
		mu.Lock()
		closeErr, closeRetSeq, close2Err = e1, sq, e2
		mu.Unlock()
		close(closeDone)
	}()
	close(stopFeed)
	allDone := make(chan struct{})
	go func() { wg.Wait(); <-closeDone; close(allDone) }()
	select {
	case <-allDone:
	case <-time.After(StuckLimit()):
		// watchdog: the client is closed (or all contexts are done); whatever still sits in the client is stuck
		h.Stuck = libGoroutines("SendAndRead", "Close")
		close(release)
		return h
	}
	close(release)
	feedWG.Wait()
	// goroutine leak probe
	for i := 0; i < 200; i++ {
		if g := libGoroutines("receiveLoop", "SendAndRead"); len(g) == 0 {
			break
		} else if i == 199 {
			h.Leak = strings.Join(g, " | ")
		}
		time.Sleep(time.Millisecond)
	}
	// assemble
	mu.Lock()
	defer mu.Unlock()
	h.CloseErr, h.CloseRetSeq, h.Close2Err = closeErr, closeRetSeq, close2Err
	for _, cc := range calls {
		cc.TxSeqs = txByCall[cc.ID]
	}
	h.Calls = calls
	h.Matches = matches
	h.HookHits = int(hookHits.Load())
	evs := conn.Events()
	h.Events = len(evs) + 2*len(calls) + len(matches)
	var lastRet *Dgram
	hash := uint64(1469598103934665603)
	for _, e := range evs {
		hash = (hash ^ uint64(len(e.Kind))<<8 ^ uint64(e.Nonce&0xff)) * 1099511628211
		switch e.Kind {
		case "rx.return":
			if d := h.Dgrams[e.Nonce]; d != nil {
				d.K, d.RetSeq = e.K, e.Seq
				lastRet = d
			}
		case "rx.invoke", "rx.closed":
			if lastRet != nil && lastRet.NextInvokeSeq == 0 {
				lastRet.NextInvokeSeq = e.Seq
			}
		}
	}
	// interleaving signature: order of call starts/ends and deliveries
	type se struct {
		seq int64
		tag uint64
	}
	var order []se
	for _, cc := range calls {
		order = append(order, se{cc.StartSeq, uint64(cc.Xid)*4 + 1}, se{cc.EndSeq, uint64(cc.Xid)*4 + 2})
	}
	for _, d := range h.Dgrams {
		if d.RetSeq > 0 {
			order = append(order, se{d.RetSeq, uint64(d.Xid)*4 + 3})
		}
	}
	sort.Slice(order, func(i, j int) bool { return order[i].seq < order[j].seq })
	for _, x := range order {
		hash = (hash ^ x.tag) * 1099511628211
	}
	h.OrderHash = hash
	h.WallMs = time.Since(t0).Milliseconds()
	return h
}

func markedRequest(f cli.Family, xid uint32, id int) cli.Req {
	req := f.Request(xid, 0)
	var b [8]byte
	copy(b[:4], "VCID")
	binary.BigEndian.PutUint32(b[4:], uint32(id))
	if req.V4 != nil {
		req.V4.Options[225] = b[:]
	} else {
		req.V6.AddOption(&genOpt{code: 65002, data: b[:]})
	}
	return req
}

func markerOf(b []byte) int {
	for i := 0; i+8 <= len(b); i++ {
		if b[i] == 'V' && b[i+1] == 'C' && b[i+2] == 'I' && b[i+3] == 'D' {
			return int(binary.BigEndian.Uint32(b[i+4:]))
		}
	}
	return 0
}

// libGoroutines returns descriptions of goroutines that are inside the client packages in one of the given functions.
func libGoroutines(funcs ...string) []string {
	var sb strings.Builder
	pprof.Lookup("goroutine").WriteTo(&sb, 2)
	var out []string
	for _, g := range strings.Split(sb.String(), "\n\n") {
		if !strings.Contains(g, "insomniacslk/dhcp/dhcpv4/nclient4.") && !strings.Contains(g, "insomniacslk/dhcp/dhcpv6/nclient6.") {
			continue
		}
		for _, fn := range funcs {
			if strings.Contains(g, "."+fn) {
				lines := strings.Split(g, "\n")
				desc := lines[0]
				for _, l := range lines[1:] {
					if strings.Contains(l, "insomniacslk/dhcp") && !strings.HasPrefix(l, "\t") {
						desc += " " + strings.TrimSpace(l)
						break
					}
				}
				out = append(out, desc)
				break
			}
		}
	}
	return out
}

func (h *History) String() string { return fmt.Sprintf("%s: %d calls, %d datagrams, %d events", h.Fam, len(h.Calls), len(h.Dgrams), h.Events) }

// Herd: G callers released by a barrier call SendAndRead with the SAME transaction id at once; the scripted conn parks
// every admitted caller inside WriteTo (so admitted callers stay registered).  At most one of them may be admitted:
// the others must be refused.  Returns the number of rounds in which more than one caller was admitted, and the
// maximum number admitted in one round.
func Herd(f cli.Family, rounds, g int) (bad int, maxAdmitted int, detail string) {
	dest := &net.UDPAddr{IP: net.IPv4bcast, Port: 67}
	for r := 0; r < rounds; r++ {
		conn := sconn.New(0)
		release := make(chan struct{})
		var parked atomic.Int64
		conn.OnWrite = func(w sconn.Write) {
			parked.Add(1)
			<-release
		}
		c, err := f.NewCfg(conn, 50*time.Millisecond, 1, r)
		if err != nil {
			panic(err)
		}
		start := make(chan struct{})
		var returned atomic.Int64
		var refused atomic.Int64
		var wg sync.WaitGroup
		ctx, cancel := context.WithCancel(context.Background())
		for i := 0; i < g; i++ {
			wg.Add(1)
			req := f.Request(uint32(77), 0)
			go func() {
				defer wg.Done()
				<-start
				_, _, err := c.SendAndRead(ctx, dest, req, nil)
				if f.IsInUse(err) {
					refused.Add(1)
				}
				returned.Add(1)
			}()
		}
		close(start)
		// settle: every caller is either parked in WriteTo or has returned
		for dl := time.Now().Add(5 * time.Second); time.Now().Before(dl); {
			if parked.Load()+returned.Load() >= int64(g) {
				break
			}
			runtime.Gosched()
		}
		adm := int(parked.Load())
		if adm > maxAdmitted {
			maxAdmitted = adm
		}
		if adm > 1 {
			bad++
			detail = fmt.Sprintf("round %d: %d of %d concurrent calls with the same transaction id were admitted (transmitting at once), %d refused", r, adm, g, refused.Load())
		}
		cancel()
		close(release)
		wg.Wait()
		c.Close()
	}
	return
}
