package cstress

import (
	"fmt"
)

type Finding struct{ Key, Msg string }

// CheckC10 applies the schedule-independent conditions of DESIGN.md C10(b) to one history.
func CheckC10(h *History, accept func(matcher string, d *Dgram, fam string) bool) []Finding {
	var out []Finding
	add := func(key, f string, a ...any) { out = append(out, Finding{key, h.Fam + ": " + fmt.Sprintf(f, a...)}) }
	returnedBy := map[int]int{}
	for _, c := range h.Calls {
		if !c.Returned {
			continue
		}
		if c.NilMsgWithoutErr {
			add("nil-nil-return", "call %d (xid %d, matcher %s) returned (nil, nil)", c.ID, c.Xid, c.Matcher)
			continue
		}
		if c.ErrKind == "other" {
			add("unexpected-error", "call %d returned an error outside the allowed set: %s", c.ID, c.Err)
			continue
		}
		// (single-try calls only: the pinned DHCPv6 client gives up its transaction id between two tries, a concurrent call
		// may take it in that gap, and the first call's next try is then the one that is refused -- still "refused with an
		// error rather than sharing responses")
		if c.ErrKind == "inuse" && len(c.TxSeqs) > 0 && c.Tries == 1 {
			add("refused-call-transmitted", "call %d was refused (%s) although it had already transmitted: a refusal must happen before anything is sent", c.ID, c.Err)
			continue
		}
		if c.InsideHolder != 0 && c.ErrKind != "inuse" {
			add("pending-xid-not-refused", "call %d reused transaction id %d while call %d had it pending for its whole lifetime, and was not refused (result: %s)", c.ID, c.Xid, c.InsideHolder, c.ErrKind)
		}
		if c.ErrKind != "ok" {
			continue
		}
		if c.Resp.Damaged {
			add("damaged-message", "call %d returned a message with nonce %d whose trailer is not that of the injected datagram (cut short or overwritten after it arrived)", c.ID, c.Resp.Nonce)
			continue
		}
		d := h.Dgrams[c.Resp.Nonce]
		if d == nil {
			add("unknown-datagram", "call %d returned a message that was never injected (nonce %d)", c.ID, c.Resp.Nonce)
			continue
		}
		// (2) own transaction, passes the filters, matcher accepts it
		if d.Xid != c.Xid || c.Resp.Xid != c.Xid {
			add("foreign-transaction", "call %d (xid %d) returned datagram %d of transaction %d", c.ID, c.Xid, d.Nonce, d.Xid)
			continue
		}
		if !passes(d) {
			add("filtered-class-returned", "call %d returned datagram %d of class %s, which must be dropped", c.ID, d.Nonce, d.Class)
			continue
		}
		if !accept(c.Matcher, d, h.Fam) {
			add("matcher-rejects", "call %d (matcher %s) returned datagram %d (type %d) that its matcher rejects", c.ID, c.Matcher, d.Nonce, d.Type)
			continue
		}
		// (1) arrived while the call was waiting: routing interval overlaps the call
		if d.RetSeq == 0 || d.RetSeq > c.EndSeq {
			add("returned-before-arrival", "call %d returned datagram %d before it was read from the socket", c.ID, d.Nonce)
			continue
		}
		if d.NextInvokeSeq != 0 && d.NextInvokeSeq < c.StartSeq {
			add("stale-datagram", "call %d (started at seq %d) returned datagram %d whose routing ended at seq %d, before the call began", c.ID, c.StartSeq, d.Nonce, d.NextInvokeSeq)
			continue
		}
		// (3) no sharing
		if prev, dup := returnedBy[d.Nonce]; dup {
			add("shared-response", "datagram %d returned by calls %d and %d", d.Nonce, prev, c.ID)
			continue
		}
		returnedBy[d.Nonce] = c.ID
		// (5) first acceptable datagram in arrival order (single-try calls; datagrams delivered after the transmission)
		if len(c.TxSeqs) == 1 && c.Tries == 1 {
			tx := c.TxSeqs[0]
			for _, e := range h.Dgrams {
				if e.Nonce != d.Nonce && e.Xid == c.Xid && e.RetSeq > tx && e.RetSeq < d.RetSeq && passes(e) && accept(c.Matcher, e, h.Fam) {
					add("not-first-acceptable", "call %d returned datagram %d although acceptable datagram %d of the same transaction was delivered earlier (after the call's transmission)", c.ID, d.Nonce, e.Nonce)
					break
				}
			}
		}
	}
	// (4) matcher never sees nil
	for _, m := range h.Matches {
		if m.Nil {
			add("matcher-got-nil", "matcher of call %d was invoked with a nil message", m.Call)
			break
		}
	}
	return out
}

func passes(d *Dgram) bool { return d.Class == "matching" || d.Class == "other-type" }

// CheckC11 applies the completion conditions to one history.
func CheckC11(h *History) []Finding {
	var out []Finding
	add := func(key, f string, a ...any) { out = append(out, Finding{key, h.Fam + ": " + fmt.Sprintf(f, a...)}) }
	if len(h.Stuck) > 0 {
		add("stuck-after-close", "%v after Close was called these client goroutines were still blocked: %v", StuckLimit(), h.Stuck)
		return out
	}
	if h.Leak != "" {
		add("goroutine-leak", "client goroutines alive after Close returned: %s", h.Leak)
	}
	if h.CloseErr != nil || h.Close2Err != nil {
		add("close-result", "Close returned %v, second Close returned %v", h.CloseErr, h.Close2Err)
	}
	for _, c := range h.Calls {
		if !c.Returned {
			add("call-never-returned", "call %d did not return", c.ID)
			continue
		}
		if c.ErrKind == "other" {
			add("unexpected-error", "call %d returned %s", c.ID, c.Err)
		}
		if c.NilMsgWithoutErr {
			add("nil-nil-return", "call %d returned (nil, nil)", c.ID)
		}
	}
	return out
}
