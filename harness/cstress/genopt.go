package cstress

import (
	"fmt"

	"github.com/insomniacslk/dhcp/dhcpv6"
)

// genOpt is a harness-owned DHCPv6 option (so that the harness does not depend on OptionGeneric's internals).
type genOpt struct {
	code uint16
	data []byte
}

func (o *genOpt) Code() dhcpv6.OptionCode  { return dhcpv6.OptionCode(o.code) }
func (o *genOpt) ToBytes() []byte          { return o.data }
func (o *genOpt) String() string           { return fmt.Sprintf("harness-marker(%x)", o.data) }
func (o *genOpt) FromBytes(b []byte) error { o.data = append([]byte{}, b...); return nil }
