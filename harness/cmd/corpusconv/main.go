// corpusconv exports Go fuzz corpus files ("go test fuzz v1" / []byte("...")) as raw files named by content hash.
// usage: corpusconv <cache-dir> <out-dir>
package main

import (
	"crypto/sha1"
	"fmt"
	"os"
	"path/filepath"
	"strconv"
	"strings"
)

func main() {
	cache, out := os.Args[1], os.Args[2]
	os.MkdirAll(out, 0o755)
	n := 0
	filepath.Walk(cache, func(p string, info os.FileInfo, err error) error {
		if err != nil || info.IsDir() {
			return nil
		}
		b, err := os.ReadFile(p)
		if err != nil {
			return nil
		}
		lines := strings.Split(string(b), "\n")
		if len(lines) < 2 || !strings.HasPrefix(lines[0], "go test fuzz v1") {
			return nil
		}
		l := strings.TrimSpace(lines[1])
		if !strings.HasPrefix(l, "[]byte(") || !strings.HasSuffix(l, ")") {
			return nil
		}
		s, err := strconv.Unquote(l[len("[]byte(") : len(l)-1])
		if err != nil {
			return nil
		}
		name := filepath.Join(out, fmt.Sprintf("%x.bin", sha1.Sum([]byte(s)))[:len(out)+1+16]+".bin")
		if _, err := os.Stat(name); err != nil {
			os.WriteFile(name, []byte(s), 0o644)
			n++
		}
		return nil
	})
	fmt.Println("exported", n, "new corpus files to", out)
}
