package c16

import (
	"fmt"
	"math/rand/v2"
	"net"
	"os"
	"testing"
	"time"

	"github.com/insomniacslk/dhcp/dhcpv6"
	"verif/harness/gen4"
	"verif/harness/gen6"
	"verif/harness/mon"
	"verif/harness/proj"
	"verif/harness/v6util"
)

type replay struct {
	Stream string `json:"stream"`
	Idx    int    `json:"idx"`
}

var typed map[int]string

func isTyped(c int) bool { _, ok := typed[c]; return ok }

type level struct {
	link, peer net.IP
	iid        []byte // nil: absent
	rid        *dhcpv6.OptRemoteID
	extra      int
}

func optStr(o dhcpv6.Option) string {
	if o == nil {
		return "<absent>"
	}
	return proj.Opt6(o).String()
}

// optWire renders an option by what it is on the wire (code and payload), whatever Go type carries it.
func optWire(o dhcpv6.Option) string {
	if o == nil {
		return "<absent>"
	}
	return fmt.Sprintf("%d:%x", o.Code(), o.ToBytes())
}

// inner draws an inner message of any type with a chosen subset of the identity options.
func inner(r *rand.Rand, g *gen6.G, mt int) (*dhcpv6.Message, string) {
	m := &dhcpv6.Message{MessageType: dhcpv6.MessageType(mt)}
	copy(m.TransactionID[:], gen4.Bytes(r, 3))
	switch r.IntN(10) { // transaction ids are values like any other, also 000000 and ffffff
	case 0:
		m.TransactionID = dhcpv6.TransactionID{}
	case 1:
		m.TransactionID = dhcpv6.TransactionID{0xff, 0xff, 0xff}
	}
	desc := ""
	add := func(code int, name string, p int) {
		if r.IntN(p) != 0 {
			o, _ := g.Option(code, 2)
			m.AddOption(o)
			desc += name
		}
	}
	if r.IntN(4) == 0 { // some unrelated option first
		o, _ := g.Option(18, 2)
		m.AddOption(o)
	}
	add(1, "C", 4)
	add(2, "S", 3)
	add(3, "N", 3)
	if r.IntN(4) == 0 {
		add(3, "N", 2) // a second IA_NA
	}
	add(25, "P", 2)
	// identifiers are scoped per kind of identity association: the IA_PD may well carry the IAID of the IA_NA (clients that
	// derive one IAID from the interface do exactly that)
	if na, pd := m.Options.OneIANA(), m.Options.OneIAPD(); na != nil && pd != nil && r.IntN(3) == 0 {
		pd.IaId = na.IaId
	}
	if r.IntN(2) == 0 {
		m.AddOption(&dhcpv6.OptionGeneric{OptionCode: dhcpv6.OptionRapidCommit})
		desc += "R"
	}
	add(16, "V", 2)
	return m, desc
}

func caseRelay(r *mon.Rec, idx int) {
	rng := r.Rand("relay", idx)
	g := gen6.New(rng, isTyped)
	g.Budget = 1000
	g.NoV4 = true
	rp := replay{"relay", idx}
	r.Current(rp)
	r.Eval(1)
	depth := 1 + rng.IntN(16)
	if rng.IntN(3) == 0 {
		depth = 1 + rng.IntN(3)
	}
	mt0 := 1 + rng.IntN(11)
	if rng.IntN(5) == 0 { // what a relay wraps is any message: DHCPv4-query/response (20, 21), lease query types, unassigned octets
		mt0 = []int{20, 21, 14, 15, 16, 17, 18, 19, 36, 255, 0}[rng.IntN(11)]
	}
	msg, desc := inner(rng, g, mt0)
	fail := func(key, f string, a ...any) {
		r.Violate("C16:"+key, fmt.Sprintf("depth %d inner %s: ", depth, desc)+fmt.Sprintf(f, a...), rp)
	}
	pan, val, st := mon.Guard(func() {
		// build a relay-forward chain with EncapsulateRelay, innermost level first
		levels := make([]level, depth) // levels[0] is the outermost
		var cur dhcpv6.DHCPv6 = msg
		innerTree := proj.M6(msg).String()
		for k := depth - 1; k >= 0; k-- {
			lv := level{link: g.Addr(), peer: g.Addr()}
			if k < depth-1 && rng.IntN(4) == 0 {
				// cascaded lightweight relay agents (RFC 6221): the same link-address (::) and the same peer-address (the
				// client's link-local address) at several levels, told apart by their interface-ids only; or simply the
				// same pair as the level inside
				if rng.IntN(2) == 0 {
					lv.link, lv.peer = levels[k+1].link, levels[k+1].peer
				} else {
					lv.link, lv.peer = net.IPv6unspecified, net.ParseIP("fe80::211:22ff:fe33:4455")
				}
			}
			prev := cur
			prevTree := proj.M6(prev).String()
			rm, err := dhcpv6.EncapsulateRelay(cur, dhcpv6.MessageTypeRelayForward, lv.link, lv.peer)
			if err != nil {
				fail("encapsulate-error", "EncapsulateRelay: %v", err)
				return
			}
			// encapsulate -> decapsulate returns the original
			back, err := dhcpv6.DecapsulateRelay(rm)
			if err != nil || proj.M6(back).String() != prevTree {
				fail("decapsulate-not-inverse", "DecapsulateRelay(EncapsulateRelay(m)) != m (err %v)", err)
				return
			}
			wantHop := depth - 1 - k
			if int(rm.HopCount) != wantHop {
				fail("hop-count", "level %d from inside has hop count %d, want %d", depth-1-k, rm.HopCount, wantHop)
				return
			}
			// a relay agent puts its own options behind or in front of the Relay Message option (both orders are seen)
			add := func(o dhcpv6.Option) {
				if rng.IntN(3) == 0 {
					rm.Options.Options = append(dhcpv6.Options{o}, rm.Options.Options...)
				} else {
					rm.AddOption(o)
				}
			}
			if rng.IntN(2) == 0 {
				lv.iid = gen4.Bytes(rng, 1+rng.IntN(8))
				if rng.IntN(4) == 0 { // carried as an untyped option (same code, same bytes on the wire): an option like any other
					add(&dhcpv6.OptionGeneric{OptionCode: dhcpv6.OptionInterfaceID, OptionData: append([]byte{}, lv.iid...)})
				} else {
					add(dhcpv6.OptInterfaceID(lv.iid))
				}
			}
			if rng.IntN(2) == 0 {
				lv.rid = &dhcpv6.OptRemoteID{EnterpriseNumber: rng.Uint32(), RemoteID: gen4.Bytes(rng, rng.IntN(8))}
				if rng.IntN(4) == 0 {
					add(&dhcpv6.OptionGeneric{OptionCode: dhcpv6.OptionRemoteID, OptionData: lv.rid.ToBytes()})
				} else {
					add(lv.rid)
				}
			}
			if rng.IntN(3) == 0 { // unrelated options must not disturb anything
				o, _ := g.Option([]int{79, 135, 18, 37}[rng.IntN(2)], 2)
				rm.AddOption(o)
				lv.extra++
			}
			if rng.IntN(4) == 0 {
				// options the library has no type for, as relay agents add them: Relay Agent Echo Request (43, a list of
				// option codes), subscriber-id (38), relay-id (53), link-layer-ish vendor data -- before or after the others
				code := []int{43, 43, 38, 53, 47, 66, 200 + rng.IntN(50)}[rng.IntN(7)]
				data := gen4.Bytes(rng, 2*(1+rng.IntN(3)))
				if code == 43 {
					data = nil
					for _, c := range [][]int{{18}, {37}, {38}, {18, 37}, {53, 38}, {1}}[rng.IntN(6)] {
						data = append(data, byte(c>>8), byte(c))
					}
				}
				og := &dhcpv6.OptionGeneric{OptionCode: dhcpv6.OptionCode(code), OptionData: data}
				if rng.IntN(2) == 0 {
					rm.Options.Options = append(dhcpv6.Options{og}, rm.Options.Options...)
				} else {
					rm.AddOption(og)
				}
				lv.extra++
			}
			levels[k] = lv
			cur = rm
		}
		check := func(tag string, top dhcpv6.DHCPv6) bool {
			rel, ok := top.(*dhcpv6.RelayMessage)
			if !ok {
				fail("not-a-relay:"+tag, "top of chain is %T", top)
				return false
			}
			// innermost message found whatever the depth
			im, err := rel.GetInnerMessage()
			if err != nil || im == nil || proj.M6(im).String() != innerTree {
				fail("inner-message:"+tag, "GetInnerMessage does not return the innermost message (err %v)", err)
				return false
			}
			if x, err := dhcpv6.GetTransactionID(rel); err != nil || x != msg.TransactionID {
				fail("transaction-id:"+tag, "GetTransactionID=%v err=%v want %v", x, err, msg.TransactionID)
				return false
			}
			last, err := dhcpv6.DecapsulateRelayIndex(rel, -1)
			if err != nil {
				fail("index-last:"+tag, "DecapsulateRelayIndex(-1): %v", err)
				return false
			}
			if lr, ok := last.(*dhcpv6.RelayMessage); !ok || !lr.LinkAddr.Equal(levels[depth-1].link) || !lr.PeerAddr.Equal(levels[depth-1].peer) {
				fail("index-last:"+tag, "DecapsulateRelayIndex(-1) is not the innermost relay")
				return false
			}
			for i := 0; i < depth; i++ {
				d, err := dhcpv6.DecapsulateRelayIndex(rel, i)
				if err != nil {
					fail("index:"+tag, "DecapsulateRelayIndex(%d): %v", i, err)
					return false
				}
				if i == depth-1 {
					if proj.M6(d).String() != innerTree {
						fail("index:"+tag, "DecapsulateRelayIndex(depth-1) is not the inner message")
						return false
					}
				} else if dr, ok := d.(*dhcpv6.RelayMessage); !ok || !dr.LinkAddr.Equal(levels[i+1].link) || !dr.PeerAddr.Equal(levels[i+1].peer) {
					fail("index:"+tag, "DecapsulateRelayIndex(%d) is not level %d", i, i+1)
					return false
				}
			}
			return true
		}
		if !check("built", cur) {
			return
		}
		// "any relay chain": the hop counts a chain carries are whatever the relays on the path wrote (agents that do
		// not count, that start at 0 again, arbitrary values); finding a level or the innermost message follows the
		// nesting, not the counters
		if mode := rng.IntN(4); mode != 0 {
			var node dhcpv6.DHCPv6 = cur
			for node != nil && node.IsRelay() {
				rel := node.(*dhcpv6.RelayMessage)
				switch mode {
				case 1:
					rel.HopCount = 0
				case 2:
					rel.HopCount = uint8(rng.UintN(256))
				case 3:
					rel.HopCount = uint8(rng.UintN(2))
				}
				node = rel.Options.RelayMessage()
			}
			r.Count("chains_with_arbitrary_hop_counts", 1)
			if !check("built-anyhops", cur) {
				return
			}
			// one more level on top of such a chain: its hop count is the wrapped message's hop count plus one (what the
			// wrapped relay's header says, not what can be counted)
			if top, ok := cur.(*dhcpv6.RelayMessage); ok && top.HopCount < 255 {
				w, err := dhcpv6.EncapsulateRelay(cur, dhcpv6.MessageTypeRelayForward, net.ParseIP("2001:db8::1"), net.ParseIP("fe80::1"))
				if err != nil || w.HopCount != top.HopCount+1 {
					fail("hop-count-on-top", "a relay message with hop count %d was wrapped once more: new hop count %d (err %v), want %d", top.HopCount, w.HopCount, err, top.HopCount+1)
					return
				}
			}
		}
		chainTree := proj.M6(cur).String()
		// also after a trip over the wire
		wired, err := dhcpv6.FromBytes(cur.ToBytes())
		if err != nil {
			fail("wire-error", "FromBytes(chain.ToBytes()): %v", err)
			return
		}
		if !check("wire", wired) {
			return
		}
		wiredTree := proj.M6(wired).String()
		// relay-reply from relay-forward
		reply, rdesc := inner(rng, g, 7)
		replyTree := proj.M6(reply).String()
		// a server has usually been handed chains it had to refuse before this one (a level without its Relay Message
		// option, with interface-id and remote-id of its own): whatever the builder returns for those, the next
		// chain's reply is made of that chain alone
		if rng.IntN(3) == 0 {
			var broken dhcpv6.DHCPv6 = &dhcpv6.RelayMessage{MessageType: dhcpv6.MessageTypeRelayForward, HopCount: 0, LinkAddr: net.ParseIP("2001:db8:bad::1"), PeerAddr: net.ParseIP("fe80::bad")}
			broken.AddOption(dhcpv6.OptInterfaceID([]byte("refused-if")))
			for k := rng.IntN(3); k >= 0; k-- {
				w, werr := dhcpv6.EncapsulateRelay(broken, dhcpv6.MessageTypeRelayForward, net.ParseIP("2001:db8:bad::2"), net.ParseIP("fe80::bad:2"))
				if werr != nil {
					break
				}
				w.AddOption(dhcpv6.OptInterfaceID([]byte("refused-outer")))
				w.AddOption(&dhcpv6.OptRemoteID{EnterpriseNumber: 9, RemoteID: []byte("refused")})
				broken = w
			}
			if br, ok := broken.(*dhcpv6.RelayMessage); ok {
				_, _ = dhcpv6.NewRelayReplFromRelayForw(br, reply)
				r.Count("refused_chains_before_a_reply", 1)
			}
		}
		for _, src := range []struct {
			tag string
			fw  dhcpv6.DHCPv6
		}{{"built", cur}, {"wire", wired}} {
			rr, err := dhcpv6.NewRelayReplFromRelayForw(src.fw.(*dhcpv6.RelayMessage), reply)
			if err != nil {
				fail("relayrepl-error:"+src.tag, "NewRelayReplFromRelayForw: %v", err)
				return
			}
			var rels []*dhcpv6.RelayMessage
			walk := func(tag string) bool {
				rels = rels[:0]
				var node dhcpv6.DHCPv6 = rr
				for k := 0; k < depth; k++ {
					rel, ok := node.(*dhcpv6.RelayMessage)
					if !ok {
						fail("relayrepl-depth:"+tag, "reply chain ends at level %d, forward chain has depth %d", k, depth)
						return false
					}
					if rel.MessageType != dhcpv6.MessageTypeRelayReply {
						fail("relayrepl-type:"+tag, "level %d has type %v", k, rel.MessageType)
						return false
					}
					rels = append(rels, rel)
					if !rel.LinkAddr.Equal(levels[k].link) || !rel.PeerAddr.Equal(levels[k].peer) {
						fail("relayrepl-addresses:"+tag, "level %d: link/peer %v/%v, forward chain has %v/%v", k, rel.LinkAddr, rel.PeerAddr, levels[k].link, levels[k].peer)
						return false
					}
					wantI, wantR := "<absent>", "<absent>"
					if levels[k].iid != nil {
						wantI = optWire(dhcpv6.OptInterfaceID(levels[k].iid))
					}
					if levels[k].rid != nil {
						wantR = optWire(levels[k].rid)
					}
					if gi := optWire(rel.GetOneOption(dhcpv6.OptionInterfaceID)); gi != wantI {
						fail("relayrepl-interface-id:"+tag, "level %d: interface-id %s, forward level has %s", k, gi, wantI)
						return false
					}
					if gr := optWire(rel.GetOneOption(dhcpv6.OptionRemoteID)); gr != wantR {
						fail("relayrepl-remote-id:"+tag, "level %d: remote-id %s, forward level has %s", k, gr, wantR)
						return false
					}
					nx, err := dhcpv6.DecapsulateRelay(rel)
					if err != nil {
						fail("relayrepl-decap:"+tag, "level %d: %v", k, err)
						return false
					}
					node = nx
				}
				if node.IsRelay() {
					fail("relayrepl-depth:"+tag, "reply chain is deeper than the forward chain (%d)", depth)
					return false
				}
				if proj.M6(node).String() != replyTree {
					fail("relayrepl-inner:"+tag, "innermost message of the relay-reply is not the given reply (%s)", rdesc)
					return false
				}
				return true
			}
			if !walk(src.tag) {
				return
			}
			// the reply chain is a live value: every relay agent on the way back may add an option to its own level
			// (innermost first, as the levels are built); all the other levels stay what they are
			lv := append([]*dhcpv6.RelayMessage{}, rels...)
			for k := len(lv) - 1; k >= 0; k-- {
				lv[k].AddOption(&dhcpv6.OptionGeneric{OptionCode: dhcpv6.OptionCode(65020 + k%8), OptionData: []byte{byte(k), 0xad}})
				if !walk(src.tag + "-after-adding-an-option-at-level-" + fmt.Sprint(min(k, 3))) {
					return
				}
			}
			r.Count("reply_levels_updated_after_build", len(lv))
		}
		// building a reply consumes nothing: the forward chains (the built one and the decoded one) are what they were
		if proj.M6(cur).String() != chainTree || proj.M6(wired).String() != wiredTree || proj.M6(reply).String() != replyTree {
			fail("relayrepl-changes-input", "NewRelayReplFromRelayForw changed the relay-forward chain or the reply it was given: forward now %.300s", proj.M6(cur).String())
			return
		}
		if !check("built-after-reply", cur) || !check("wire-after-reply", wired) {
			return
		}
		// the chain is a live value: the innermost relay gets another payload (what a relay agent does when it re-uses a
		// chain, what a test does when it builds variants); every lookup from the top now finds the new message
		for _, src := range []struct {
			tag string
			top dhcpv6.DHCPv6
		}{{"built", cur}, {"wire", wired}} {
			last, err := dhcpv6.DecapsulateRelayIndex(src.top, -1)
			lr, ok := last.(*dhcpv6.RelayMessage)
			if err != nil || !ok {
				fail("index-last:"+src.tag, "DecapsulateRelayIndex(-1): %v", err)
				return
			}
			msg2, _ := inner(rng, g, 1+rng.IntN(11))
			lr.UpdateOption(dhcpv6.OptRelayMessage(msg2))
			oldTree, oldMsg := innerTree, msg
			innerTree, msg = proj.M6(msg2).String(), msg2
			ok = check(src.tag+"-after-inner-swap", src.top)
			innerTree, msg = oldTree, oldMsg
			if !ok {
				return
			}
		}
		// wrong inputs are errors, not values or panics
		if _, err := dhcpv6.NewRelayReplFromRelayForw(nil, reply); err == nil {
			fail("relayrepl-accepts-nil", "nil relay accepted")
		}
		if _, err := dhcpv6.NewRelayReplFromRelayForw(cur.(*dhcpv6.RelayMessage), nil); err == nil {
			fail("relayrepl-accepts-nil", "nil message accepted")
		}
		if _, err := dhcpv6.EncapsulateRelay(msg, dhcpv6.MessageType(1+rng.IntN(11)), nil, nil); err == nil {
			fail("encapsulate-accepts-nonrelay-type", "EncapsulateRelay with a non-relay type succeeded")
		}
		iid, rid := 0, 0
		for _, l := range levels {
			if l.iid != nil {
				iid++
			}
			if l.rid != nil {
				rid++
			}
		}
		r.Shape(fmt.Sprintf("relay d=%d iid=%d rid=%d inner=%s", depth, min(iid, 3), min(rid, 3), desc), depth >= 2)
		r.Max("relay_depth", int64(depth))
		if r.NSamples() < 3 && depth <= 3 {
			r.Sample(map[string]any{"stream": "relay", "idx": idx, "depth": depth, "inner": desc, "forward_chain": mon.Hex(cur.ToBytes())})
		}
	})
	if pan {
		r.Violate("C16:panic:"+mon.LibFrame(st), fmt.Sprint(val), rp)
	}
}

func caseBuilder(r *mon.Rec, idx int) {
	rng := r.Rand("builder", idx)
	g := gen6.New(rng, isTyped)
	g.Budget = 1000
	g.NoV4 = true
	rp := replay{"builder", idx}
	r.Current(rp)
	r.Eval(1)
	mt := 1 + rng.IntN(13)
	if rng.IntN(10) == 0 {
		mt = rng.IntN(256)
	}
	if mt == 12 || mt == 13 {
		mt = 14
	}
	m, desc := inner(rng, g, mt)
	viaWire := rng.IntN(3) == 0
	if viaWire {
		d, err := dhcpv6.MessageFromBytes(m.ToBytes())
		if err != nil {
			r.Violate("C16:wire-error", err.Error(), rp)
			return
		}
		m = d
	}
	has := func(c string) bool {
		for i := range desc {
			if desc[i] == c[0] {
				return true
			}
		}
		return false
	}
	first := func(code dhcpv6.OptionCode) string { return optStr(m.GetOneOption(code)) }
	fail := func(key, f string, a ...any) {
		r.Violate("C16:"+key, fmt.Sprintf("type %d options %s: ", mt, desc)+fmt.Sprintf(f, a...), rp)
	}
	mTree := proj.M6(m).String()
	pan, val, st := mon.Guard(func() {
		defer func() {
			if proj.M6(m).String() != mTree {
				fail("builder-changes-input", "the message the builders were given changed: %.200s -> %.200s", mTree, proj.M6(m).String())
			}
		}()
		// ADVERTISE from SOLICIT
		adv, err := dhcpv6.NewAdvertiseFromSolicit(m)
		okIn := mt == 1 && has("C")
		if okIn != (err == nil) {
			fail("advertise-acceptance", "NewAdvertiseFromSolicit err=%v, expected success=%v", err, okIn)
			return
		}
		if err == nil {
			if adv.MessageType != dhcpv6.MessageTypeAdvertise || adv.TransactionID != m.TransactionID || optStr(adv.GetOneOption(dhcpv6.OptionClientID)) != first(dhcpv6.OptionClientID) {
				fail("advertise-fields", "type %v xid %v cid %s", adv.MessageType, adv.TransactionID, optStr(adv.GetOneOption(dhcpv6.OptionClientID)))
				return
			}
		} else if adv != nil {
			fail("advertise-value-with-error", "value returned together with an error")
		}
		// REQUEST from ADVERTISE
		req, err := dhcpv6.NewRequestFromAdvertise(m)
		okIn = mt == 2 && has("C") && has("S") && has("N")
		if okIn != (err == nil) {
			fail("request-acceptance", "NewRequestFromAdvertise err=%v, expected success=%v", err, okIn)
			return
		}
		if err == nil {
			if req.MessageType != dhcpv6.MessageTypeRequest {
				fail("request-type", "type %v", req.MessageType)
				return
			}
			for _, c := range []dhcpv6.OptionCode{dhcpv6.OptionClientID, dhcpv6.OptionServerID, dhcpv6.OptionIANA} {
				if got := optStr(req.GetOneOption(c)); got != first(c) {
					fail("request-echo", "option %v: request has %s, advertise has %s", c, got, first(c))
					return
				}
			}
			if has("P") {
				if got := optStr(req.GetOneOption(dhcpv6.OptionIAPD)); got != first(dhcpv6.OptionIAPD) {
					fail("request-echo", "IA_PD: request has %s, advertise has %s", got, first(dhcpv6.OptionIAPD))
					return
				}
			}
		} else if req != nil {
			fail("request-value-with-error", "value returned together with an error")
		}
		// REPLY from message
		rep, err := dhcpv6.NewReplyFromMessage(m)
		var okType, judged bool
		switch mt {
		case 3, 4, 5, 6, 8, 11:
			okType, judged = true, true
		case 1:
			okType, judged = has("R"), true
		case 9: // DECLINE: RFC 8415 answers it with a Reply, the library refuses it; not what C16 is about
			judged = false
		default:
			okType, judged = false, true
		}
		if judged {
			okIn = okType && has("C")
			if okIn != (err == nil) {
				fail("reply-acceptance", "NewReplyFromMessage err=%v, expected success=%v", err, okIn)
				return
			}
		}
		if err == nil {
			if rep.MessageType != dhcpv6.MessageTypeReply || rep.TransactionID != m.TransactionID || optStr(rep.GetOneOption(dhcpv6.OptionClientID)) != first(dhcpv6.OptionClientID) {
				fail("reply-fields", "type %v xid %v cid %s", rep.MessageType, rep.TransactionID, optStr(rep.GetOneOption(dhcpv6.OptionClientID)))
				return
			}
			if mt == 1 && rep.GetOneOption(dhcpv6.OptionRapidCommit) == nil {
				fail("reply-rapid-commit", "reply to a rapid-commit SOLICIT lacks the rapid-commit option")
				return
			}
		} else if rep != nil {
			fail("reply-value-with-error", "value returned together with an error")
		}
		// nil inputs
		if _, err := dhcpv6.NewAdvertiseFromSolicit(nil); err == nil {
			fail("accepts-nil", "NewAdvertiseFromSolicit(nil)")
		}
		if _, err := dhcpv6.NewRequestFromAdvertise(nil); err == nil {
			fail("accepts-nil", "NewRequestFromAdvertise(nil)")
		}
		if _, err := dhcpv6.NewReplyFromMessage(nil); err == nil {
			fail("accepts-nil", "NewReplyFromMessage(nil)")
		}
		r.Shape(fmt.Sprintf("builder t=%d %s wire=%v", min(mt, 14), desc, viaWire), mt <= 11)
		r.Count(fmt.Sprintf("builder.type%d", min(mt, 14)), 1)
		if r.NSamples() < 6 && mt == 2 && okIn {
			r.Sample(map[string]any{"stream": "builder", "idx": idx, "type": mt, "options": desc, "request": proj.M6(req).String()})
		}
	})
	if pan {
		r.Violate("C16:panic:"+mon.LibFrame(st), fmt.Sprint(val), rp)
	}
}

func TestCheck(t *testing.T) {
	r := mon.New("C16")
	defer r.Flush()
	if os.Getenv("VERIF_REPLAY") == "" {
		r.Watchdog(20 * time.Second)
	}
	typed = v6util.TypedCodes()
	var rp replay
	if mon.ReplayCase(&rp) {
		if rp.Stream == "relay" {
			caseRelay(r, rp.Idx)
		} else {
			caseBuilder(r, rp.Idx)
		}
		return
	}
	n := r.Pick(30000, 2500000)
	for i := 0; i < n; i++ {
		if r.Mine(i) {
			caseRelay(r, i)
		}
	}
	m := r.Pick(60000, 5000000)
	for i := 0; i < m; i++ {
		if r.Mine(i) {
			caseBuilder(r, i)
		}
	}
}
