package c08

import (
	"bytes"
	"fmt"
	"io"
	"log"
	"math/rand/v2"
	"runtime/debug"
	"sort"
	"strings"
	"testing"
	"time"

	"github.com/insomniacslk/dhcp/dhcpv4"
	"github.com/insomniacslk/dhcp/dhcpv6"
	"verif/harness/gen4"
	"verif/harness/gen6"
	"verif/harness/mon"
	"verif/harness/obs"
	"verif/harness/ref6"
	"verif/harness/v6util"
)

type replay struct {
	Fam     string `json:"fam"`
	Wire    string `json:"wire"`
	Pattern string `json:"pattern,omitempty"`
	Next    string `json:"next,omitempty"`
}

type snapItem struct{ path, val string }

// snapshot: ToBytes, Summary/String and every accessor result, rendered deterministically.
func snapshot(v any, helpers []obs.Named) []snapItem {
	var out []snapItem
	calls := obs.Enumerate(v, 4)
	if l, ok := v.(*optList); ok { // every entry of the list, and the list as a whole
		calls = obs.Enumerate(l.L, 1)
		for i, e := range l.L {
			for _, c := range obs.Enumerate(e, 3) {
				c.Path = fmt.Sprintf("list[%d].%s", i, c.Path)
				calls = append(calls, c)
			}
		}
	}
	for _, c := range calls {
		var s string
		pan, val, _ := mon.Guard(func() { s = obs.Render(c.Fn()) })
		if pan {
			s = fmt.Sprintf("PANIC(%v)", val)
		}
		out = append(out, snapItem{c.Path, s})
	}
	for _, h := range helpers {
		var s string
		pan, val, _ := mon.Guard(func() { s = h.Fn() })
		if pan {
			s = fmt.Sprintf("PANIC(%v)", val)
		}
		out = append(out, snapItem{"helper." + h.Name, s})
	}
	return out
}

func diffSnap(a, b []snapItem) (string, string) {
	if len(a) != len(b) {
		// the set of reachable calls changed: find the first path that differs
		n := min(len(a), len(b))
		for i := 0; i < n; i++ {
			if a[i].path != b[i].path {
				return a[i].path, fmt.Sprintf("reachable operations changed: %s vs %s", a[i].path, b[i].path)
			}
		}
		return "reachable-set", fmt.Sprintf("number of reachable operations changed: %d vs %d", len(a), len(b))
	}
	for i := range a {
		if a[i].path != b[i].path {
			return a[i].path, fmt.Sprintf("reachable operations changed: %s vs %s", a[i].path, b[i].path)
		}
		if a[i].val != b[i].val {
			return a[i].path, fmt.Sprintf("%s: before %.160s after %.160s", a[i].path, a[i].val, b[i].val)
		}
	}
	return "", ""
}

func stripIdx(s string) string {
	var sb strings.Builder
	skip := false
	for i := 0; i < len(s); i++ {
		switch {
		case s[i] == '[' || s[i] == '#':
			skip = true
		case skip && s[i] == '.':
			skip = false
			sb.WriteByte('.')
		case skip && s[i] == ']':
			skip = false
		case !skip:
			sb.WriteByte(s[i])
		}
	}
	return sb.String()
}

var patterns = []string{"redecode", "zero", "ff", "05", "3f", "01", "random", "next"}

func fill(b []byte, pat string, rng *rand.Rand, next []byte) {
	switch pat {
	case "zero":
		clear(b)
	case "ff":
		for i := range b {
			b[i] = 0xff
		}
	case "05", "3f", "01":
		v := map[string]byte{"05": 5, "3f": 0x3f, "01": 1}[pat]
		for i := range b {
			b[i] = v
		}
	case "random":
		for i := range b {
			b[i] = byte(rng.UintN(256))
		}
	case "next": // realistic buffer reuse: the next packet of the batch lands in the same buffer
		clear(b)
		copy(b, next)
	}
}

// optList: an options list decoded by Options.FromBytesWithParser with a parser of the caller's (the exported way to
// decode options of one's own); the entries the parser declined (nil) are left out
type optList struct{ L dhcpv6.Options }

// callerParser: typed decoding for most codes, an own copy for some, and some declined
func callerParser(code dhcpv6.OptionCode, data []byte) (dhcpv6.Option, error) {
	switch {
	case code%5 == 3 || code >= 0x100:
		return nil, nil
	case code%5 == 4:
		return &dhcpv6.OptionGeneric{OptionCode: code, OptionData: append([]byte{}, data...)}, nil
	}
	return dhcpv6.ParseOption(code, data)
}

func decode(fam string, b []byte) (any, []byte, error) {
	if fam == "v6opts" { // the options area of a (non-relay) DHCPv6 message
		if len(b) < 4 || b[0] == 12 || b[0] == 13 {
			return nil, nil, fmt.Errorf("not a message")
		}
		var o dhcpv6.Options
		if err := o.FromBytesWithParser(b[4:], callerParser); err != nil {
			return nil, nil, err
		}
		l := &optList{}
		for _, e := range o {
			if e != nil {
				l.L = append(l.L, e)
			}
		}
		return l, nil, nil
	}
	if fam == "v4" {
		p, err := dhcpv4.FromBytes(b)
		if err != nil {
			return nil, nil, err
		}
		return p, nil, nil
	}
	m, err := dhcpv6.FromBytes(b)
	if err != nil {
		return nil, nil, err
	}
	return m, nil, nil
}

func helpersOf(v any) []obs.Named {
	switch x := v.(type) {
	case *dhcpv4.DHCPv4:
		return obs.V4Helpers(x)
	case dhcpv6.DHCPv6:
		return obs.V6Helpers(x)
	}
	return nil
}

func encode(v any) []byte {
	switch x := v.(type) {
	case *dhcpv4.DHCPv4:
		return x.ToBytes()
	case dhcpv6.DHCPv6:
		return x.ToBytes()
	case *optList:
		return x.L.ToBytes()
	}
	return nil
}

var poisonFaults = map[string]int{}

func judge(r *mon.Rec, fam string, wire, next []byte, rng *rand.Rand, onlyPattern string) {
	rp := replay{Fam: fam, Wire: mon.Hex(wire), Next: mon.Hex(next)}
	r.Current(rp)
	src := append([]byte{}, wire...)
	v, _, err := decode(fam, src)
	if err != nil {
		return
	}
	r.Eval(1)
	s0 := snapshot(v, helpersOf(v))
	// (1) poison: decode a second copy from a mapping, make it inaccessible, run all observers
	var faultRange [2]int
	faultRange[0] = -1
	if p, perr := mon.NewPoison(wire); perr == nil {
		pv, _, derr := decode(fam, p.Data)
		if derr == nil && p.Protect() == nil {
			// faults become panics for this goroutine during the whole poison phase (Enumerate itself calls getters)
			oldPF := debug.SetPanicOnFault(true)
			calls := obs.Enumerate(pv, 4)
			debug.SetPanicOnFault(oldPF)
			for _, c := range calls {
				faulted, addr, _, _, stack := mon.GuardFault(func() { _ = obs.Render(c.Fn()) })
				if faulted {
					off := p.Offset(addr)
					poisonFaults[stripIdx(c.Path)+" <- "+mon.LibFrame(stack)]++
					r.Count("poison_faults", 1)
					if off >= 0 {
						if faultRange[0] < 0 || off < faultRange[0] {
							faultRange[0] = off
						}
						if off > faultRange[1] {
							faultRange[1] = off
						}
					}
				}
			}
		}
		p.Free()
	}
	// (2) scribble differential on the source buffer
	for _, pat := range patterns {
		if onlyPattern != "" && pat != onlyPattern {
			continue
		}
		if pat == "redecode" {
			// the mildest re-use of the buffer: it is decoded once more (a caller that peeks, a retry); the first message
			// stays what it was
			decode(fam, src)
		} else {
			fill(src, pat, rng, next)
		}
		s1 := snapshot(v, helpersOf(v))
		if path, msg := diffSnap(s0, s1); path != "" {
			rp.Pattern = pat
			r.Violate("C08:source-alias:"+stripIdx(path), fmt.Sprintf("overwriting the decoded-from buffer (pattern %s) changes the message: %s", pat, msg), rp)
			return
		}
	}
	if faultRange[0] >= 0 { // a stale read was seen: hammer exactly that range with 64 more patterns
		copy(src, wire)
		hi := min(faultRange[1]+64, len(src))
		for k := 0; k < 64; k++ {
			for i := faultRange[0]; i < hi; i++ {
				src[i] = byte(rng.UintN(256))
			}
			s1 := snapshot(v, helpersOf(v))
			if path, msg := diffSnap(s0, s1); path != "" {
				rp.Pattern = fmt.Sprintf("random-in-fault-range[%d:%d]", faultRange[0], hi)
				r.Violate("C08:source-alias:"+stripIdx(path), "overwriting the bytes a stale read touched changes the message: "+msg, rp)
				return
			}
		}
		r.Count("poison_suspects_without_observable_change", 1)
	}
	// (3) output side: the bytes returned by encoding belong to the caller
	out := encode(v)
	keep := append([]byte{}, out...)
	for i := range out {
		out[i] ^= 0xff
	}
	s2 := snapshot(v, helpersOf(v))
	if path, msg := diffSnap(s0, s2); path != "" {
		rp.Pattern = "output-inverted"
		r.Violate("C08:output-alias:"+stripIdx(path), "modifying the slice returned by ToBytes changes the message: "+msg, rp)
		return
	}
	if again := encode(v); !bytes.Equal(again, keep) {
		rp.Pattern = "output-inverted"
		r.Violate("C08:output-alias:ToBytes", "modifying the slice returned by ToBytes changes a later encoding", rp)
		return
	}
	// (3b) every encoding is a buffer of its own: a result the caller still holds stays what it was while the same
	// message, and another message, are encoded again, and no two results share memory
	e1 := encode(v)
	e2 := encode(v)
	var e3 []byte
	if ov, _, oerr := decode(fam, append([]byte{}, next...)); oerr == nil && len(next) > 0 {
		e3 = encode(ov)
	}
	if !bytes.Equal(e1, keep) {
		rp.Pattern = "encode-again"
		r.Violate("C08:output-reused:ToBytes", "the bytes returned by ToBytes changed when ToBytes was called again (on the same and on another message)", rp)
		return
	}
	for i := range e2 {
		e2[i] ^= 0xa5
	}
	for i := range e3 {
		e3[i] ^= 0x5a
	}
	if !bytes.Equal(e1, keep) {
		rp.Pattern = "write-into-later-encoding"
		r.Violate("C08:output-shared:ToBytes", "two results of ToBytes share memory: writing into a later one changes an earlier one", rp)
		return
	}
	if e4 := encode(v); !bytes.Equal(e4, keep) || !bytes.Equal(e1, keep) {
		rp.Pattern = "write-into-later-encoding"
		r.Violate("C08:output-alias:ToBytes", "writing into earlier results of ToBytes changes a later encoding", rp)
		return
	}
	// ... and while the message itself is changed and encoded again (a retransmission with another elapsed time, a
	// template filled in for the next client): a per-message output buffer would show here
	flip := func() {
		switch x := v.(type) {
		case *dhcpv4.DHCPv4:
			x.NumSeconds ^= 0x0101
			x.HopCount ^= 1
		case *dhcpv6.Message:
			x.TransactionID[0] ^= 0x81
		case *dhcpv6.RelayMessage:
			x.HopCount ^= 1
		}
	}
	held := encode(v)
	heldKeep := append([]byte{}, held...)
	flip()
	_ = encode(v)
	flip()
	if !bytes.Equal(held, heldKeep) {
		rp.Pattern = "modify-and-encode-again"
		r.Violate("C08:output-reused:ToBytes", "the bytes returned by ToBytes changed when the message was modified and encoded again", rp)
		return
	}
	r.Count("live_encodings_compared", 1)
	// shape
	shape := fam
	nt := false
	if fam == "v6" || fam == "v6opts" {
		if res := ref6.Decode(wire); res.Tree != nil {
			k := map[string]int{}
			res.Tree.Kinds(k)
			ks := make([]string, 0, len(k))
			for n := range k {
				ks = append(ks, n)
				if n == "domainsearch" || n == "fqdn" || n == "ntp-fqdn" || n == "relaymsg" || n == "iana" || n == "iapd" || n == "vendoropts" || n == "userclass" {
					nt = true
				}
			}
			sort.Strings(ks)
			shape += ":" + strings.Join(ks, ",")
		}
	} else {
		p := v.(*dhcpv4.DHCPv4)
		cs := []int{}
		for c := range p.Options {
			cs = append(cs, int(c))
		}
		sort.Ints(cs)
		shape += fmt.Sprint(cs)
		nt = len(cs) > 0
	}
	r.Shape(shape, nt)
	r.Count("observer_results_compared", len(s0)*(len(patterns)+1))
	if r.NSamples() < 4 && len(wire) < 90 && nt {
		r.Sample(map[string]any{"fam": fam, "wire": mon.Hex(wire), "observers": len(s0), "patterns": patterns})
	}
}

func tlv(code int, v []byte) []byte {
	return append([]byte{byte(code >> 8), byte(code), byte(len(v) >> 8), byte(len(v))}, v...)
}

// named6: messages with name-bearing options in compressed / partial / multi-name forms.
func named6(r *rand.Rand) []byte {
	names := [][]byte{
		{3, 'f', 'o', 'o', 3, 'c', 'o', 'm', 0, 3, 'b', 'a', 'r', 0xC0, 4},
		{7, 'e', 'x', 'a', 'm', 'p', 'l', 'e', 3, 'c', 'o', 'm', 0},
		{3, 'n', 't', 'p', 7, 'e', 'x', 'a', 'm', 'p', 'l', 'e', 3, 'o', 'r', 'g', 0, 1, 'a', 0xC0, 4},
		{4, 'h', 'o', 's', 't'},
	}
	var opts []byte
	for i := 0; i < 1+r.IntN(3); i++ {
		n := names[r.IntN(len(names))]
		switch r.IntN(4) {
		case 0:
			opts = append(opts, tlv(24, n)...)
		case 1:
			opts = append(opts, tlv(39, append([]byte{byte(r.UintN(8))}, n...))...)
		case 2:
			opts = append(opts, tlv(56, append(tlv(3, n), tlv(1, gen4.Bytes(r, 16))...))...)
		case 3:
			opts = append(opts, tlv(3, append(append(gen4.Bytes(r, 4), 0, 0, 0, 1, 0, 0, 0, 2), tlv(24, n)...))...) // nested in an IA
		}
	}
	msg := append([]byte{byte(1 + r.UintN(11)), 9, 8, 7}, opts...)
	for k := r.IntN(3); k > 0; k-- {
		h := make([]byte, 34)
		h[0] = byte(12 + r.UintN(2))
		copy(h[2:], gen4.Bytes(r, 32))
		msg = append(h, tlv(9, msg)...)
	}
	return msg
}

func TestCheck(t *testing.T) {
	log.SetOutput(io.Discard)
	r := mon.New("C08")
	defer r.Flush()
	var rp replay
	if mon.ReplayCase(&rp) {
		judge(r, rp.Fam, mon.UnHex(rp.Wire), mon.UnHex(rp.Next), r.Rand("replay", 0), rp.Pattern)
		return
	}
	r.Watchdog(60 * time.Second)
	typed := v6util.TypedCodes()
	isTyped := func(c int) bool { _, ok := typed[c]; return ok }
	hits := map[int]int{}
	// committed corpus (accepted entries only are judged)
	var prev4, prev6 []byte
	for i, b := range mon.Corpus("v6") {
		if r.Mine(i) && len(b) <= 3000 {
			judge(r, "v6", b, prev6, r.Rand("corpus6", i), "")
			prev6 = b
		}
	}
	for i, b := range mon.Corpus("v4") {
		if r.Mine(i) && len(b) <= 3000 {
			judge(r, "v4", b, prev4, r.Rand("corpus4", i), "")
			prev4 = b
		}
	}
	// typed option codes without a generator (a type added to the library after the harness was written): arbitrary
	// payloads of every small length, the accepted ones are judged
	k0 := 0
	for _, c := range v6util.SortedCodes(typed) {
		if gen6.HasGenerator(c) {
			continue
		}
		for j := 0; j < r.Pick(600, 6000); j++ {
			if r.Mine(k0) {
				rng := r.Rand(fmt.Sprintf("untyped%d", c), j)
				w := gen6.Untyped(rng, c)
				judge(r, "v6", w, prev6, rng, "")
				prev6 = w
			}
			k0++
		}
		r.Count(fmt.Sprintf("typed_without_generator.code%d", c), 1)
	}
	n := r.Pick(6000, 200000)
	for i := 0; i < n; i++ {
		if !r.Mine(i) {
			continue
		}
		rng := r.Rand("c08", i)
		switch rng.IntN(8) {
		case 0, 1: // DHCPv4
			var w []byte
			if rng.IntN(2) == 0 {
				w, _ = gen4.WirePacket(rng, 6)
			} else {
				p, _ := gen4.Packet(rng, 6)
				for c, v := range p.Options {
					if len(v) > 300 {
						p.Options[c] = v[:300]
					}
				}
				w = p.ToBytes()
			}
			judge(r, "v4", w, prev4, rng, "")
			prev4 = w
		case 2: // hand-written non-canonical DHCPv6 messages, bare and relayed (what re-encoding gives differs from what was received)
			w := gen6.NonCanonical(rng)
			judge(r, "v6", w, prev6, rng, "")
			prev6 = w
		case 3: // hand-built name-bearing DHCPv6 messages (compressed, partial, nested)
			w := named6(rng)
			if rng.IntN(4) == 0 { // ... behind a long relay chain (up to 70 levels, 2.7 kB of headers)
				for k := 20 + rng.IntN(50); k > 0; k-- {
					h := make([]byte, 34)
					h[0], h[1] = byte(12+rng.UintN(2)), byte(k)
					copy(h[2:], gen4.Bytes(rng, 32))
					w = append(h, tlv(9, w)...)
				}
			}
			judge(r, "v6", w, prev6, rng, "")
			prev6 = w
		default: // generated DHCPv6 messages over every option type
			g := gen6.New(rng, isTyped)
			g.Budget = 3 + rng.IntN(16)
			m, _ := g.Chain(rng.IntN(3), 0)
			for c, k := range g.Hits {
				hits[c] += k
			}
			w := m.ToBytes()
			if len(w) > 3000 {
				continue
			}
			judge(r, "v6", w, prev6, rng, "")
			if rng.IntN(4) == 0 {
				judge(r, "v6opts", w, prev6, rng, "")
			}
			prev6 = w
		}
	}
	for _, c := range v6util.SortedCodes(typed) {
		r.Count(fmt.Sprintf("hits.code%d", c), hits[c])
	}
	if len(poisonFaults) > 0 {
		r.Set("poison_fault_sites_shard"+fmt.Sprint(r.Shard), poisonFaults)
	}
}
