// Package obs enumerates and runs the read-only operations on decoded values:
// a reflective walk over exported, non-mutating methods (with synthesised
// arguments) plus the builders and helper-package extractors.  Used by the
// crash monitor (C03), the ownership monitors (C08) and the purity monitor (C20).
package obs

import (
	"fmt"
	"net"
	"reflect"
	"sort"
	"strings"
	"time"

	"github.com/insomniacslk/dhcp/dhcpv4"
	"github.com/insomniacslk/dhcp/dhcpv4/ztpv4"
	"github.com/insomniacslk/dhcp/dhcpv6"
	"github.com/insomniacslk/dhcp/dhcpv6/ztpv6"
	"github.com/insomniacslk/dhcp/iana"
	"github.com/insomniacslk/dhcp/netboot"
)

const modPrefix = "github.com/insomniacslk/dhcp"

var mutatorPrefixes = []string{"Set", "Add", "Update", "Del", "Delete", "FromBytes", "Unmarshal", "Marshal"}

func IsMutator(name string) bool {
	for _, p := range mutatorPrefixes {
		if strings.HasPrefix(name, p) {
			return true
		}
	}
	return false
}

var (
	tDuration = reflect.TypeOf(time.Duration(0))
	tOptCode4 = reflect.TypeOf((*dhcpv4.OptionCode)(nil)).Elem()
	tOptCode6 = reflect.TypeOf(dhcpv6.OptionCode(0))
	tDecoder  = reflect.TypeOf((*dhcpv4.OptionDecoder)(nil)).Elem()
	tHumanize = reflect.TypeOf(dhcpv4.OptionHumanizer{})
	tDUID     = reflect.TypeOf((*dhcpv6.DUID)(nil)).Elem()
	tArch     = reflect.TypeOf(iana.Arch(0))
)

// argSets returns the argument lists to try for a method type (nil: cannot be synthesised).
// vendorDec: a caller's decoder for the vendor-specific information option
type vendorDec struct{ b []byte }

func (v *vendorDec) FromBytes(b []byte) error { v.b = append([]byte{}, b...); return nil }
func (v *vendorDec) String() string           { return fmt.Sprintf("VENDOR-DECODED(%x)", v.b) }

func argSets(mt reflect.Type) [][]reflect.Value {
	if mt.NumIn() == 0 {
		return [][]reflect.Value{{}}
	}
	if mt.IsVariadic() || mt.NumIn() > 1 {
		return nil
	}
	in := mt.In(0)
	switch {
	case in == tDuration:
		return [][]reflect.Value{{reflect.ValueOf(12345 * time.Second)}}
	case in == tOptCode4:
		var s [][]reflect.Value
		for _, c := range []uint8{0, 1, 53, 55, 82, 119, 200, 255} {
			s = append(s, []reflect.Value{reflect.ValueOf(dhcpv4.GenericOptionCode(c)).Convert(reflect.TypeOf(dhcpv4.GenericOptionCode(0)))})
		}
		return s
	case in == tOptCode6:
		var s [][]reflect.Value
		for _, c := range []uint16{1, 3, 6, 9, 17, 24, 59, 65535} {
			s = append(s, []reflect.Value{reflect.ValueOf(dhcpv6.OptionCode(c))})
		}
		return s
	case in == tDecoder:
		// no decoder, and a decoder of the caller's (one per enumerated value; it keeps a copy of the octets it was last given)
		var d dhcpv4.OptionDecoder = &vendorDec{}
		return [][]reflect.Value{{reflect.Zero(tDecoder)}, {reflect.ValueOf(&d).Elem()}}
	case in == tDUID:
		ll := dhcpv6.DUID(&dhcpv6.DUIDLL{HWType: 1, LinkLayerAddr: net.HardwareAddr{1, 2, 3, 4, 5, 6}})
		op := dhcpv6.DUID(&dhcpv6.DUIDOpaque{Type: 9, Data: []byte{1}})
		return [][]reflect.Value{{reflect.Zero(tDUID)}, {reflect.ValueOf(&ll).Elem()}, {reflect.ValueOf(&op).Elem()}}
	case in == tArch:
		return [][]reflect.Value{{reflect.ValueOf(iana.Arch(0))}, {reflect.ValueOf(iana.Arch(7))}}
	case in.Kind() == reflect.Int:
		return [][]reflect.Value{{reflect.ValueOf(2).Convert(in)}}
	case in.Kind() == reflect.Uint32:
		return [][]reflect.Value{{reflect.ValueOf(uint32(0)).Convert(in)}, {reflect.ValueOf(uint32(33049)).Convert(in)}, {reflect.ValueOf(uint32(9)).Convert(in)}}
	}
	return nil
}

// Call is one read-only operation on a value.
type Call struct {
	Path string // Type.Method(arg) path from the root
	Fn   func() []reflect.Value
}

func inModule(t reflect.Type) bool {
	for t.Kind() == reflect.Pointer || t.Kind() == reflect.Slice {
		t = t.Elem()
	}
	return strings.HasPrefix(t.PkgPath(), modPrefix)
}

// Enumerate lists the read-only calls reachable from v (depth-bounded), without invoking anything
// except the getters needed to reach deeper values (those are invoked under recover).
func Enumerate(v any, maxDepth int) []Call {
	var out []Call
	seen := map[uintptr]bool{}
	var walk func(rv reflect.Value, path string, depth int)
	walk = func(rv reflect.Value, path string, depth int) {
		if !rv.IsValid() || depth > maxDepth || len(out) > 4000 {
			return
		}
		for rv.Kind() == reflect.Interface {
			if rv.IsNil() {
				return
			}
			rv = rv.Elem()
		}
		if rv.Kind() == reflect.Pointer {
			if rv.IsNil() {
				return
			}
			if seen[rv.Pointer()] && depth > 0 {
				return
			}
			seen[rv.Pointer()] = true
		}
		t := rv.Type()
		if inModule(t) {
			for i := 0; i < t.NumMethod(); i++ {
				m := t.Method(i)
				if IsMutator(m.Name) {
					continue
				}
				bound := rv.Method(i)
				sets := argSets(bound.Type())
				for k, args := range sets {
					p := fmt.Sprintf("%s.%s#%d", path, m.Name, k)
					args := args
					out = append(out, Call{Path: p, Fn: func() []reflect.Value { return bound.Call(args) }})
					// descend into the results of niladic getters
					if len(args) == 0 && depth < maxDepth && m.Name != "ToBytes" && m.Name != "String" && m.Name != "Summary" {
						var res []reflect.Value
						func() {
							defer func() { recover() }()
							res = bound.Call(nil)
						}()
						for _, rr := range res {
							descend(rr, p, depth+1, walk)
						}
					}
				}
			}
		}
		// exported struct fields
		sv := rv
		if sv.Kind() == reflect.Pointer {
			sv = sv.Elem()
		}
		if sv.Kind() == reflect.Struct && inModule(sv.Type()) {
			for i := 0; i < sv.NumField(); i++ {
				f := sv.Type().Field(i)
				if !f.IsExported() {
					continue
				}
				fv := sv.Field(i)
				if fv.CanAddr() && fv.Kind() != reflect.Pointer && fv.Kind() != reflect.Interface && fv.Kind() != reflect.Slice {
					fv = fv.Addr()
				}
				descend(fv, path+"."+f.Name, depth+1, walk)
			}
		}
	}
	rv := reflect.ValueOf(v)
	walk(rv, rv.Type().String(), 0)
	return out
}

func descend(rr reflect.Value, path string, depth int, walk func(reflect.Value, string, int)) {
	switch rr.Kind() {
	case reflect.Pointer, reflect.Interface:
		if !rr.IsNil() {
			walk(rr, path, depth)
		}
	case reflect.Slice:
		if inModule(rr.Type()) {
			walk(rr, path, depth)
		}
		for i := 0; i < rr.Len() && i < 2; i++ {
			e := rr.Index(i)
			if e.Kind() == reflect.Pointer || e.Kind() == reflect.Interface || (e.Kind() == reflect.Struct && inModule(e.Type())) {
				if e.Kind() == reflect.Struct && e.CanAddr() {
					e = e.Addr()
				}
				walk(e, fmt.Sprintf("%s[%d]", path, i), depth)
			}
		}
	case reflect.Struct:
		if inModule(rr.Type()) {
			walk(rr, path, depth)
		}
	}
}

// Render renders call results deterministically (no addresses; pointers are followed).
func Render(vals []reflect.Value) string {
	var sb strings.Builder
	for i, v := range vals {
		if i > 0 {
			sb.WriteString(" | ")
		}
		render(&sb, v, 0)
	}
	return sb.String()
}

func render(sb *strings.Builder, v reflect.Value, d int) {
	if !v.IsValid() {
		sb.WriteString("<invalid>")
		return
	}
	if d > 6 {
		sb.WriteString("…")
		return
	}
	switch v.Kind() {
	case reflect.Pointer, reflect.Interface:
		if v.IsNil() {
			sb.WriteString("nil")
			return
		}
		if v.Kind() == reflect.Interface {
			if e, ok := v.Interface().(error); ok {
				sb.WriteString("error(" + e.Error() + ")")
				return
			}
		}
		sb.WriteString("&")
		render(sb, v.Elem(), d+1)
	case reflect.Struct:
		sb.WriteString(v.Type().Name() + "{")
		for i := 0; i < v.NumField(); i++ {
			if !v.Type().Field(i).IsExported() {
				continue // only what is observable through the public API
			}
			sb.WriteString(v.Type().Field(i).Name + ":")
			render(sb, v.Field(i), d+1)
			sb.WriteString(" ")
		}
		sb.WriteString("}")
	case reflect.Slice, reflect.Array:
		if v.Kind() == reflect.Slice && v.IsNil() {
			sb.WriteString("nil[]")
			return
		}
		if v.Type().Elem().Kind() == reflect.Uint8 {
			fmt.Fprintf(sb, "x%x", bytesOf(v))
			return
		}
		sb.WriteString("[")
		for i := 0; i < v.Len(); i++ {
			render(sb, v.Index(i), d+1)
			sb.WriteString(",")
		}
		sb.WriteString("]")
	case reflect.Map:
		keys := v.MapKeys()
		sort.Slice(keys, func(i, j int) bool { return fmt.Sprint(keys[i]) < fmt.Sprint(keys[j]) })
		sb.WriteString("map{")
		for _, k := range keys {
			render(sb, k, d+1)
			sb.WriteString("=")
			render(sb, v.MapIndex(k), d+1)
			sb.WriteString(" ")
		}
		sb.WriteString("}")
	case reflect.String:
		fmt.Fprintf(sb, "%q", v.String())
	case reflect.Bool:
		fmt.Fprint(sb, v.Bool())
	case reflect.Int, reflect.Int8, reflect.Int16, reflect.Int32, reflect.Int64:
		fmt.Fprint(sb, v.Int())
	case reflect.Uint, reflect.Uint8, reflect.Uint16, reflect.Uint32, reflect.Uint64, reflect.Uintptr:
		fmt.Fprint(sb, v.Uint())
	case reflect.Func, reflect.Chan:
		sb.WriteString("<" + v.Kind().String() + ">")
	default:
		fmt.Fprintf(sb, "<%s>", v.Kind())
	}
}

func bytesOf(v reflect.Value) []byte {
	b := make([]byte, v.Len())
	for i := range b {
		b[i] = byte(v.Index(i).Uint())
	}
	return b
}

// Named is a helper/builder observer with a stable name.
type Named struct {
	Name string
	Fn   func() string // returns a deterministic rendering of the result
}

func r2(a any, err error) string {
	return Render([]reflect.Value{reflect.ValueOf(&a).Elem(), reflect.ValueOf(&err).Elem()})
}

// V4Helpers: builders and helper-package extractors on a decoded DHCPv4 packet.
func V4Helpers(p *dhcpv4.DHCPv4) []Named {
	fixXid := func(q *dhcpv4.DHCPv4, err error) string {
		if q == nil {
			return r2(nil, err)
		}
		return fmt.Sprintf("%x %v", q.ToBytes()[:], err)
	}
	xid := dhcpv4.WithTransactionID(dhcpv4.TransactionID{1, 2, 3, 4})
	return []Named{
		{"NewReplyFromRequest", func() string { return fixXid(dhcpv4.NewReplyFromRequest(p, xid)) }},
		{"NewRequestFromOffer", func() string { return fixXid(dhcpv4.NewRequestFromOffer(p, xid)) }},
		{"NewRenewFromAck", func() string { return fixXid(dhcpv4.NewRenewFromAck(p, xid)) }},
		{"NewReleaseFromACK", func() string { return fixXid(dhcpv4.NewReleaseFromACK(p, xid)) }},
		{"ztpv4.ParseVendorData", func() string { v, e := ztpv4.ParseVendorData(p); return r2(v, e) }},
		{"ztpv4.ParseCircuitID", func() string {
			v, e := ztpv4.ParseCircuitID(p)
			s := r2(v, e)
			if v != nil {
				s += v.FormatCircuitID()
			}
			return s
		}},
		{"netboot.GetNetConfFromPacketv4", func() string { v, e := netboot.GetNetConfFromPacketv4(p); return r2(v, e) }},
		{"netboot.ConversationToNetconfv4", func() string { v, e := netboot.ConversationToNetconfv4([]*dhcpv4.DHCPv4{p}); return r2(v, e) }},
		{"ToBytes+redecode", func() string {
			q, e := dhcpv4.FromBytes(p.ToBytes())
			if e != nil {
				return "error(" + e.Error() + ")"
			}
			return fmt.Sprintf("%x", q.ToBytes())
		}},
	}
}

// V6Helpers: builders, relay operations and helper-package extractors on a decoded DHCPv6 message.
func V6Helpers(m dhcpv6.DHCPv6) []Named {
	var hs []Named
	hs = append(hs,
		Named{"GetInnerMessage", func() string { v, e := m.GetInnerMessage(); return r2(v, e) }},
		Named{"GetTransactionID", func() string { v, e := dhcpv6.GetTransactionID(m); return r2(v, e) }},
		Named{"DecapsulateRelay", func() string { v, e := dhcpv6.DecapsulateRelay(m); return r2(v, e) }},
		Named{"ExtractMAC", func() string { v, e := dhcpv6.ExtractMAC(m); return r2(v, e) }},
		Named{"ztpv6.ParseVendorData", func() string { v, e := ztpv6.ParseVendorData(m); return r2(v, e) }},
		Named{"ztpv6.ParseRemoteID", func() string {
			v, e := ztpv6.ParseRemoteID(m)
			s := r2(v, e)
			if v != nil {
				s += v.FormatCircuitID()
			}
			return s
		}},
		Named{"netboot.ConversationToNetconf", func() string { v, e := netboot.ConversationToNetconf([]dhcpv6.DHCPv6{m}); return r2(v, e) }},
		// ... as the last message of an exchange whose ADVERTISE (a canned one, built afresh for every call) carries the boot
		// file options: what the extractor returns is one thing, what it leaves of the messages it was shown another
		Named{"netboot.ConversationToNetconf(advertise, this)", func() string {
			adv, _ := dhcpv6.NewMessage()
			adv.MessageType = dhcpv6.MessageTypeAdvertise
			adv.AddOption(dhcpv6.OptBootFileURL("http://boot.example/netboot.efi"))
			adv.AddOption(dhcpv6.OptBootFileParam("console=ttyS0", "quiet"))
			adv.AddOption(&dhcpv6.OptIANA{IaId: [4]byte{1, 2, 3, 4}, Options: dhcpv6.IdentityOptions{Options: dhcpv6.Options{&dhcpv6.OptIAAddress{IPv6Addr: net.ParseIP("2001:db8::42"), PreferredLifetime: 100 * time.Second, ValidLifetime: 200 * time.Second}}}})
			v, e := netboot.ConversationToNetconf([]dhcpv6.DHCPv6{adv, m})
			return r2(v, e)
		}},
		Named{"ToBytes+redecode", func() string {
			q, e := dhcpv6.FromBytes(m.ToBytes())
			if e != nil {
				return "error(" + e.Error() + ")"
			}
			return fmt.Sprintf("%x", q.ToBytes())
		}},
	)
	for idx := -2; idx <= 5; idx++ {
		idx := idx
		hs = append(hs, Named{fmt.Sprintf("DecapsulateRelayIndex(%d)", idx), func() string { v, e := dhcpv6.DecapsulateRelayIndex(m, idx); return r2(v, e) }})
	}
	if msg, ok := m.(*dhcpv6.Message); ok {
		noXid := func(q *dhcpv6.Message, err error) string {
			if q == nil {
				return r2(nil, err)
			}
			c := *q
			c.TransactionID = dhcpv6.TransactionID{}
			return fmt.Sprintf("%x %v", c.ToBytes(), err)
		}
		hs = append(hs,
			Named{"NewAdvertiseFromSolicit", func() string { return noXid(dhcpv6.NewAdvertiseFromSolicit(msg)) }},
			Named{"NewRequestFromAdvertise", func() string { return noXid(dhcpv6.NewRequestFromAdvertise(msg)) }},
			Named{"NewReplyFromMessage", func() string { return noXid(dhcpv6.NewReplyFromMessage(msg)) }},
			Named{"netboot.GetNetConfFromPacketv6", func() string { v, e := netboot.GetNetConfFromPacketv6(msg); return r2(v, e) }},
			Named{"IsNetboot", func() string { return fmt.Sprint(msg.IsNetboot()) }},
		)
	}
	if rel, ok := m.(*dhcpv6.RelayMessage); ok {
		reply := &dhcpv6.Message{MessageType: dhcpv6.MessageTypeReply}
		hs = append(hs, Named{"NewRelayReplFromRelayForw", func() string {
			v, e := dhcpv6.NewRelayReplFromRelayForw(rel, reply)
			if v == nil {
				return r2(nil, e)
			}
			return fmt.Sprintf("%x %v", v.ToBytes(), e)
		}})
	}
	return hs
}

var _ = net.IP{}
