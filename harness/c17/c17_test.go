package c17

import (
	"bytes"
	"fmt"
	"math/rand/v2"
	"net"
	"os"
	"reflect"
	"sort"
	"strings"
	"testing"
	"time"

	"github.com/insomniacslk/dhcp/dhcpv4"
	"github.com/insomniacslk/dhcp/iana"
	"github.com/insomniacslk/dhcp/rfc1035label"
	"verif/harness/gen4"
	"verif/harness/mon"
	"verif/harness/reflabel"
)

const unjudged = "\x00UNJUDGED"

type acc struct {
	name string
	code byte
	ref  func(v []byte) string            // reference interpretation of the raw value (v==nil ⇒ absent)
	got  func(p *dhcpv4.DHCPv4) string    // canonical rendering of the accessor's result
	gen  func(r *rand.Rand, n int) []byte // structure-aware raw values of length about n (may be nil)
}

const defDur = 12345 * time.Second

func ipList(v []byte) string {
	if len(v) < 4 || len(v)%4 != 0 {
		return "nil"
	}
	var s []string
	for i := 0; i < len(v); i += 4 {
		s = append(s, fmt.Sprintf("%x", v[i:i+4]))
	}
	return strings.Join(s, ",")
}

func gotIPs(l []net.IP) string {
	if l == nil {
		return "nil"
	}
	var s []string
	for _, ip := range l {
		s = append(s, fmt.Sprintf("%x", []byte(ip.To4())))
	}
	return strings.Join(s, ",")
}

func oneIP(v []byte) string {
	if len(v) != 4 {
		return "nil"
	}
	return fmt.Sprintf("%x", v)
}

func gotIP(ip net.IP) string {
	if ip == nil {
		return "nil"
	}
	return fmt.Sprintf("%x", []byte(ip.To4()))
}

func trimNul(v []byte) string { return fmt.Sprintf("%q", strings.TrimRight(string(v), "\x00")) }

func durRef(v []byte) string {
	if len(v) != 4 {
		return defDur.String()
	}
	s := uint32(v[0])<<24 | uint32(v[1])<<16 | uint32(v[2])<<8 | uint32(v[3])
	return (time.Duration(s) * time.Second).String()
}

func routesRef(v []byte) string {
	if len(v) == 0 {
		return "nil"
	}
	var out []string
	i := 0
	for i < len(v) {
		m := int(v[i])
		i++
		if m > 32 {
			return "nil"
		}
		dl := (m + 7) / 8
		if i+dl+4 > len(v) {
			return "nil"
		}
		var d [4]byte
		copy(d[:], v[i:i+dl])
		i += dl
		mask := net.CIDRMask(m, 32)
		for k := range d {
			d[k] &= mask[k]
		}
		out = append(out, fmt.Sprintf("%x/%d>%x", d, m, v[i:i+4]))
		i += 4
	}
	return strings.Join(out, ";")
}

func routesGot(rs []*dhcpv4.Route) string {
	if rs == nil {
		return "nil"
	}
	var out []string
	for _, r := range rs {
		ones, bits := r.Dest.Mask.Size()
		if bits != 32 {
			return fmt.Sprintf("bad-mask-%d", bits)
		}
		ip := r.Dest.IP.To4()
		if ip == nil {
			return "bad-ip"
		}
		var d [4]byte
		copy(d[:], ip)
		for k := range d {
			d[k] &= r.Dest.Mask[k]
		}
		out = append(out, fmt.Sprintf("%x/%d>%x", d, ones, []byte(r.Router.To4())))
	}
	return strings.Join(out, ";")
}

// relayRef: RFC 3046 sub-options code,len,data tiling the value exactly.
func relayRef(v []byte) string {
	if len(v) == 0 {
		return "nil"
	}
	m := map[byte][]byte{}
	i := 0
	for i < len(v) {
		c := v[i]
		if c == 0 || c == 255 {
			return unjudged // RFC 3046 defines no pad/end inside option 82
		}
		if i+1 >= len(v) {
			return "nil"
		}
		l := int(v[i+1])
		if i+2+l > len(v) {
			return "nil"
		}
		m[c] = append(m[c], v[i+2:i+2+l]...)
		i += 2 + l
	}
	return renderMap(m)
}

func renderMap(m map[byte][]byte) string {
	ks := make([]int, 0, len(m))
	for k := range m {
		ks = append(ks, int(k))
	}
	sort.Ints(ks)
	s := "{"
	for _, k := range ks {
		s += fmt.Sprintf("%d=%x ", k, m[byte(k)])
	}
	return s + "}"
}

func userClassRef(v []byte) string {
	if len(v) == 0 {
		return "nil"
	}
	var items []string
	i := 0
	ok := true
	for i < len(v) {
		l := int(v[i])
		if l == 0 || i+1+l > len(v) {
			ok = false
			break
		}
		items = append(items, string(v[i+1:i+1+l]))
		i += 1 + l
	}
	if !ok {
		return fmt.Sprintf("%q", []string{string(v)})
	}
	return fmt.Sprintf("%q", items)
}

func vivcRef(v []byte) string {
	if len(v) == 0 {
		return "nil"
	}
	var out []string
	i := 0
	for i < len(v) {
		if i+5 > len(v) {
			return "nil"
		}
		ent := uint32(v[i])<<24 | uint32(v[i+1])<<16 | uint32(v[i+2])<<8 | uint32(v[i+3])
		l := int(v[i+4])
		if i+5+l > len(v) {
			return "nil"
		}
		out = append(out, fmt.Sprintf("%d:%x", ent, v[i+5:i+5+l]))
		i += 5 + l
	}
	return strings.Join(out, ",")
}

func domainSearchRef(v []byte) string {
	if len(v) == 0 {
		return "nil"
	}
	res := reflabel.Decode(v)
	switch res.V {
	case reflabel.Names:
		return fmt.Sprintf("%q", res.Names)
	case reflabel.Malformed:
		return "nil"
	}
	return unjudged
}

func strAcc(name string, code byte, f func(*dhcpv4.DHCPv4) string, trim bool) acc {
	return acc{name: name, code: code,
		ref: func(v []byte) string {
			if trim {
				return trimNul(v)
			}
			return fmt.Sprintf("%q", string(v))
		},
		got: func(p *dhcpv4.DHCPv4) string { return fmt.Sprintf("%q", f(p)) }}
}

func ipsAcc(name string, code byte, f func(*dhcpv4.DHCPv4) []net.IP) acc {
	return acc{name: name, code: code, ref: ipList, got: func(p *dhcpv4.DHCPv4) string { return gotIPs(f(p)) }}
}

func ipAcc(name string, code byte, f func(*dhcpv4.DHCPv4) net.IP) acc {
	return acc{name: name, code: code, ref: oneIP, got: func(p *dhcpv4.DHCPv4) string { return gotIP(f(p)) }}
}

func durAcc(name string, code byte, f func(*dhcpv4.DHCPv4, time.Duration) time.Duration) acc {
	return acc{name: name, code: code, ref: durRef, got: func(p *dhcpv4.DHCPv4) string { return f(p, defDur).String() }}
}

var accessors = []acc{
	ipAcc("BroadcastAddress", 28, (*dhcpv4.DHCPv4).BroadcastAddress),
	ipAcc("RequestedIPAddress", 50, (*dhcpv4.DHCPv4).RequestedIPAddress),
	ipAcc("ServerIdentifier", 54, (*dhcpv4.DHCPv4).ServerIdentifier),
	ipsAcc("Router", 3, (*dhcpv4.DHCPv4).Router),
	ipsAcc("DNS", 6, (*dhcpv4.DHCPv4).DNS),
	ipsAcc("NTPServers", 42, (*dhcpv4.DHCPv4).NTPServers),
	ipsAcc("NetBIOSNameServers", 44, (*dhcpv4.DHCPv4).NetBIOSNameServers),
	{name: "SubnetMask", code: 1, ref: oneIP, got: func(p *dhcpv4.DHCPv4) string {
		m := p.SubnetMask()
		if m == nil {
			return "nil"
		}
		return fmt.Sprintf("%x", []byte(m))
	}},
	{name: "ClasslessStaticRoute", code: 121, ref: routesRef, got: func(p *dhcpv4.DHCPv4) string { return routesGot(p.ClasslessStaticRoute()) },
		gen: func(r *rand.Rand, n int) []byte {
			var b []byte
			for len(b) < n {
				m := r.IntN(41)
				if r.IntN(4) != 0 {
					m = r.IntN(33)
				}
				b = append(b, byte(m))
				for i := 0; i < (min(m, 32)+7)/8+4; i++ {
					b = append(b, byte(r.UintN(256)))
				}
			}
			if r.IntN(3) == 0 && len(b) > n {
				b = b[:n]
			}
			return b
		}},
	strAcc("DomainName", 15, (*dhcpv4.DHCPv4).DomainName, false),
	strAcc("RootPath", 17, (*dhcpv4.DHCPv4).RootPath, false),
	strAcc("ClassIdentifier", 60, (*dhcpv4.DHCPv4).ClassIdentifier, false),
	strAcc("Message", 56, (*dhcpv4.DHCPv4).Message, false),
	strAcc("HostName", 12, (*dhcpv4.DHCPv4).HostName, true),
	strAcc("TFTPServerName", 66, (*dhcpv4.DHCPv4).TFTPServerName, true),
	strAcc("BootFileNameOption", 67, (*dhcpv4.DHCPv4).BootFileNameOption, true),
	durAcc("IPAddressLeaseTime", 51, (*dhcpv4.DHCPv4).IPAddressLeaseTime),
	durAcc("IPAddressRenewalTime", 58, (*dhcpv4.DHCPv4).IPAddressRenewalTime),
	durAcc("IPAddressRebindingTime", 59, (*dhcpv4.DHCPv4).IPAddressRebindingTime),
	{name: "IPv6OnlyPreferred", code: 108,
		ref: func(v []byte) string {
			if len(v) != 4 {
				return "0s,false"
			}
			s := uint32(v[0])<<24 | uint32(v[1])<<16 | uint32(v[2])<<8 | uint32(v[3])
			return (time.Duration(s) * time.Second).String() + ",true"
		},
		got: func(p *dhcpv4.DHCPv4) string { d, ok := p.IPv6OnlyPreferred(); return fmt.Sprintf("%s,%v", d, ok) }},
	{name: "MaxMessageSize", code: 57,
		ref: func(v []byte) string {
			if len(v) != 2 {
				return "0,err"
			}
			return fmt.Sprintf("%d,ok", uint16(v[0])<<8|uint16(v[1]))
		},
		got: func(p *dhcpv4.DHCPv4) string {
			u, err := p.MaxMessageSize()
			if err != nil {
				return fmt.Sprintf("%d,err", u)
			}
			return fmt.Sprintf("%d,ok", u)
		}},
	{name: "AutoConfigure", code: 116,
		ref: func(v []byte) string {
			if len(v) != 1 {
				return "0,false"
			}
			return fmt.Sprintf("%d,true", v[0])
		},
		got: func(p *dhcpv4.DHCPv4) string { a, ok := p.AutoConfigure(); return fmt.Sprintf("%d,%v", byte(a), ok) }},
	{name: "MessageType", code: 53,
		ref: func(v []byte) string {
			if len(v) != 1 {
				return "0"
			}
			return fmt.Sprint(v[0])
		},
		got: func(p *dhcpv4.DHCPv4) string { return fmt.Sprint(byte(p.MessageType())) }},
	{name: "ParameterRequestList", code: 55,
		ref: func(v []byte) string {
			if len(v) == 0 {
				return "nil"
			}
			return fmt.Sprintf("%v", v)
		},
		got: func(p *dhcpv4.DHCPv4) string {
			l := p.ParameterRequestList()
			if l == nil {
				return "nil"
			}
			b := []byte{}
			for _, c := range l {
				b = append(b, c.Code())
			}
			return fmt.Sprintf("%v", b)
		}},
	{name: "IsOptionRequested", code: 55,
		ref: func(v []byte) string {
			s := ""
			for _, c := range []byte{1, 3, 6, 55, 200} {
				in := len(v) == 0
				for _, x := range v {
					if x == c {
						in = true
					}
				}
				s += fmt.Sprint(in, ",")
			}
			return s
		},
		got: func(p *dhcpv4.DHCPv4) string {
			s := ""
			for _, c := range []byte{1, 3, 6, 55, 200} {
				s += fmt.Sprint(p.IsOptionRequested(dhcpv4.GenericOptionCode(c)), ",")
			}
			return s
		}},
	{name: "ClientArch", code: 93,
		ref: func(v []byte) string {
			if len(v) == 0 || len(v)%2 != 0 {
				return "nil"
			}
			var a []uint16
			for i := 0; i < len(v); i += 2 {
				a = append(a, uint16(v[i])<<8|uint16(v[i+1]))
			}
			return fmt.Sprint(a)
		},
		got: func(p *dhcpv4.DHCPv4) string {
			l := p.ClientArch()
			if l == nil {
				return "nil"
			}
			var a []uint16
			for _, x := range l {
				a = append(a, uint16(x))
			}
			return fmt.Sprint(a)
		}},
	{name: "DomainSearch", code: 119, ref: domainSearchRef,
		got: func(p *dhcpv4.DHCPv4) string {
			l := p.DomainSearch()
			if l == nil {
				return "nil"
			}
			if l.Labels == nil {
				return fmt.Sprintf("%q", []string{})
			}
			return fmt.Sprintf("%q", l.Labels)
		},
		gen: func(r *rand.Rand, n int) []byte {
			if n > 64 { // long values: names at the length limit, pointers to far offsets (up to 16383), many pointers
				switch r.IntN(3) {
				case 0:
					return reflabel.Boundary(r)
				case 1:
					return reflabel.FarPointer(r)
				}
				return reflabel.ManyPointers(r)
			}
			var names []string
			for k := 0; k < 1+r.IntN(3); k++ {
				var ls []string
				for j := 0; j < 1+r.IntN(3); j++ {
					ls = append(ls, strings.Repeat(string(rune('a'+r.IntN(26))), 1+r.IntN(6)))
				}
				names = append(names, strings.Join(ls, "."))
			}
			b := reflabel.Encode(names)
			switch r.IntN(4) {
			case 0:
				if len(b) > 3 {
					b = append(b, 1, 'x', 0xC0, byte(r.IntN(len(b))))
				}
			case 1:
				if len(b) > n && n > 0 {
					b = b[:n]
				}
			}
			return b
		}},
	{name: "RelayAgentInfo", code: 82, ref: relayRef,
		got: func(p *dhcpv4.DHCPv4) string {
			ro := p.RelayAgentInfo()
			if ro == nil {
				return "nil"
			}
			m := map[byte][]byte{}
			for k, v := range ro.Options {
				m[k] = v
			}
			return renderMap(m)
		},
		gen: func(r *rand.Rand, n int) []byte {
			var b []byte
			for len(b) < n {
				l := r.IntN(6)
				b = append(b, byte(1+r.UintN(12)), byte(l))
				for i := 0; i < l; i++ {
					b = append(b, byte(r.UintN(256)))
				}
			}
			switch r.IntN(4) {
			case 0:
				if len(b) > n {
					b = b[:n]
				}
			case 1:
				b = append(b, byte(1+r.UintN(12))) // code without a length octet
			}
			return b
		}},
	{name: "UserClass", code: 77, ref: userClassRef,
		got: func(p *dhcpv4.DHCPv4) string {
			l := p.UserClass()
			if l == nil {
				return "nil"
			}
			return fmt.Sprintf("%q", l)
		},
		gen: func(r *rand.Rand, n int) []byte {
			var b []byte
			long := n > 64
			zeroOK := !long || r.IntN(4) == 0
			for len(b) < n {
				l := r.IntN(7)
				if long { // long values (several option instances on the wire): classes of ordinary sizes, up to the 255-octet maximum
					l = 1 + r.IntN(70)
					if r.IntN(12) == 0 {
						l = 255
					}
				}
				if l == 0 && !zeroOK {
					l = 1
				}
				b = append(b, byte(l))
				for i := 0; i < l; i++ {
					b = append(b, byte('a'+r.UintN(26)))
				}
			}
			if r.IntN(3) == 0 && len(b) > n {
				b = b[:n]
			}
			return b
		}},
	{name: "VIVC", code: 124, ref: vivcRef,
		got: func(p *dhcpv4.DHCPv4) string {
			l := p.VIVC()
			if l == nil {
				return "nil"
			}
			var out []string
			for _, id := range l {
				out = append(out, fmt.Sprintf("%d:%x", uint32(id.EntID), id.Data))
			}
			return strings.Join(out, ",")
		},
		gen: func(r *rand.Rand, n int) []byte {
			var b []byte
			long := n > 64
			ents := [][2]byte{{byte(r.UintN(256)), byte(r.UintN(256))}, {0, 9}}
			for len(b) < n {
				l := r.IntN(6)
				e := [2]byte{byte(r.UintN(256)), byte(r.UintN(256))}
				if long { // long values: data of ordinary sizes and of the 254/255-octet maximum, few enterprises
					l = 1 + r.IntN(70)
					if r.IntN(4) == 0 {
						l = 254 + r.IntN(2)
					}
					e = ents[r.IntN(2)]
				}
				b = append(b, 0, 0, e[0], e[1], byte(l))
				for i := 0; i < l; i++ {
					b = append(b, byte(r.UintN(256)))
				}
			}
			if r.IntN(3) == 0 && len(b) > n {
				b = b[:n]
			}
			return b
		}},
}

// not accessors of option values (or mutators / printers / encoders)
var notAccessors = map[string]bool{
	"ToBytes": true, "String": true, "Summary": true, "SummaryWithVendor": true, "FlagsToString": true,
	"IsBroadcast": true, "IsUnicast": true, "SetBroadcast": true, "SetUnicast": true, "GetOneOption": true,
	"DeleteOption": true, "UpdateOption": true,
}

type replay struct {
	Accessor string `json:"accessor"`
	Value    string `json:"value"`
	Via      string `json:"via"`
}

func judge(r *mon.Rec, a *acc, v []byte, via string) {
	r.Current(map[string]any{"accessor": a.name, "value": mon.HexBytes(v), "via": via})
	r.Eval(1)
	p := &dhcpv4.DHCPv4{Options: dhcpv4.Options{}}
	fillHeader := func(q *dhcpv4.DHCPv4) {
		// "for any packet": the header fields hold values of their own (a BOOTP server name and boot file, addresses);
		// an option accessor reads the option, whatever the header says
		if (len(v)+int(a.code))%3 != 0 {
			q.OpCode, q.HWType, q.HopCount, q.NumSeconds, q.Flags = dhcpv4.OpcodeBootReply, 1, 2, 77, 0x8000
			q.TransactionID = dhcpv4.TransactionID{9, 8, 7, 6}
			q.ClientIPAddr, q.YourIPAddr, q.ServerIPAddr, q.GatewayIPAddr = net.IP{10, 1, 1, 1}, net.IP{10, 2, 2, 2}, net.IP{10, 3, 3, 3}, net.IP{10, 4, 4, 4}
			q.ClientHWAddr = net.HardwareAddr{2, 0, 0x5e, 1, 2, 3}
			q.ServerHostName, q.BootFileName = "sname-field.example", "file-field/pxelinux.0"
		}
	}
	fillHeader(p)
	// "for any packet": the packet carries other options too (well-formed, malformed, empty), among them the ones whose
	// meaning overlaps with the accessor's (routers and classless routes, host name and domain, ...): an accessor reads
	// its own option
	companions := func(q *dhcpv4.DHCPv4) {
		crng := rand.New(rand.NewPCG(uint64(len(v))*977+uint64(a.code), uint64(len(via))+uint64(func() int {
			if len(v) > 0 {
				return int(v[0])
			}
			return 0
		}())))
		if crng.IntN(3) == 0 {
			return
		}
		for k := 0; k < 1+crng.IntN(4); k++ {
			c := []byte{3, 121, 249, 1, 6, 15, 119, 12, 51, 58, 59, 54, 50, 53, 55, 82, 77, 124, 60, 66, 67, 43, 33, 28, 42, 44, 108, 116, 57, 93}[crng.IntN(30)]
			if c == a.code {
				continue
			}
			switch crng.IntN(4) {
			case 0:
				q.Options[c] = nil
			case 1:
				q.Options[c] = []byte{0, 1, 2, 3, 4, 5, 6, 7}[:1+crng.IntN(8)]
			default:
				q.Options[c] = []byte{10, 0, 0, byte(c), 255, 255, 255, 0, 24, 10, 1, 2, 10, 0, 0, 1}[:4*(1+crng.IntN(4))]
			}
		}
	}
	if via != "absent" || len(v) == 0 {
		companions(p)
	}
	rp := replay{a.name, mon.Hex(v), via}
	want := a.ref(v)
	var got string
	pan, val, st := mon.Guard(func() {
		switch via {
		case "direct":
			if len(v) == 0 {
				p.Options[a.code] = nil // the decoder's form of an empty value
			} else {
				p.Options[a.code] = v
			}
		case "direct-empty-nonnil":
			p.Options[a.code] = []byte{}
		case "wire":
			src := &dhcpv4.DHCPv4{Options: dhcpv4.Options{a.code: v}, ClientHWAddr: make([]byte, 6)}
			fillHeader(src)
			companions(src)
			q, err := dhcpv4.FromBytes(src.ToBytes())
			if err != nil {
				panic("encode/decode failed: " + err.Error())
			}
			p = q
		case "history":
			// the packet has a past: the option held another value of the same length, was read (and the result
			// handed to a caller who wrote into it), and was then edited in place; what counts is the value it holds now
			old := make([]byte, len(v))
			for i := range v {
				old[i] = ^v[i]
			}
			p.Options[a.code] = old
			a.got(p)
			scribbleResult(p, a.name)
			a.got(p)
			copy(p.Options[a.code], v)
			if first := a.got(p); first != want && want != unjudged {
				got = first
				return
			}
			scribbleResult(p, a.name)
			if !bytes.Equal(p.Options[a.code], v) {
				// the result is a view of the option's own bytes: writing into it changed the raw value (not judged)
				aliasViews++
				copy(p.Options[a.code], v)
			}
		case "absent":
		}
		got = a.got(p)
	})
	if pan {
		r.Violate("C17:panic:"+a.name+":"+mon.LibFrame(st), fmt.Sprint(val), rp)
		return
	}
	if via == "direct-empty-nonnil" {
		r.Count("crash_only", 1)
		return
	}
	if want == unjudged {
		r.Count("unjudged."+a.name, 1)
		return
	}
	if got != want {
		kind := "wrong-value"
		if strings.HasPrefix(want, "nil") || want == defDur.String() || strings.HasSuffix(want, "false") || strings.HasSuffix(want, "err") {
			kind = "malformed-not-default"
		} else if strings.HasPrefix(got, "nil") {
			kind = "wellformed-rejected"
		}
		r.Violate("C17:"+a.name+":"+kind, fmt.Sprintf("%s on raw value %x (%s): reference %s, library %s", a.name, v, via, tr(want), tr(got)), rp)
		return
	}
	wf := "wf"
	if strings.HasPrefix(want, "nil") || strings.HasSuffix(want, "false") || strings.HasSuffix(want, "err") {
		wf = "default"
	}
	r.Shape(fmt.Sprintf("%s/%d/%s/%s", a.name, len(v), via, wf), len(v) > 0)
	r.Count("result."+wf, 1)
	if r.NSamples() < 6 && len(v) > 3 && len(v) < 12 && wf == "wf" && (a.code == 121 || a.code == 82 || a.code == 119) {
		r.Sample(map[string]any{"accessor": a.name, "raw": mon.Hex(v), "via": via, "result": want})
	}
}

var aliasViews int

// scribbleResult calls the accessor through reflection and overwrites everything reachable from what it returned
// (the caller owns the result: C17 says what the next read returns, whatever the caller did with the previous one).
func scribbleResult(p *dhcpv4.DHCPv4, name string) {
	m := reflect.ValueOf(p).MethodByName(name)
	if !m.IsValid() {
		return
	}
	var args []reflect.Value
	switch {
	case m.Type().NumIn() == 0:
	case m.Type().NumIn() == 1 && m.Type().In(0) == reflect.TypeOf(time.Duration(0)):
		args = []reflect.Value{reflect.ValueOf(defDur)}
	default:
		return
	}
	for _, out := range m.Call(args) {
		scribble(out, 0)
	}
}

func scribble(v reflect.Value, depth int) {
	if depth > 6 || !v.IsValid() {
		return
	}
	switch v.Kind() {
	case reflect.Slice, reflect.Array:
		for i := 0; i < v.Len(); i++ {
			scribble(v.Index(i), depth+1)
		}
		if v.Kind() == reflect.Slice && v.Len() > 1 { // reorder too (callers sort lists)
			a, b := v.Index(0), v.Index(v.Len()-1)
			if a.CanSet() && b.CanSet() {
				t := reflect.New(a.Type()).Elem()
				t.Set(a)
				a.Set(b)
				b.Set(t)
			}
		}
	case reflect.Pointer, reflect.Interface:
		if !v.IsNil() {
			scribble(v.Elem(), depth+1)
		}
	case reflect.Map:
		it := v.MapRange()
		for it.Next() {
			scribble(it.Value(), depth+1)
		}
	case reflect.Struct:
		for i := 0; i < v.NumField(); i++ {
			if v.Type().Field(i).IsExported() {
				scribble(v.Field(i), depth+1)
			}
		}
	case reflect.Uint8, reflect.Uint16, reflect.Uint32, reflect.Uint64, reflect.Uint:
		if v.CanSet() {
			v.SetUint(^v.Uint())
		}
	case reflect.Int8, reflect.Int16, reflect.Int32, reflect.Int64, reflect.Int:
		if v.CanSet() {
			v.SetInt(v.Int() ^ 0x55)
		}
	case reflect.String:
		if v.CanSet() {
			v.SetString("scribbled")
		}
	}
}

func tr(s string) string {
	if len(s) > 200 {
		return s[:200] + "…"
	}
	return s
}

func fills(r *rand.Rand, n int, k int) []byte {
	b := make([]byte, n)
	switch k {
	case 0:
	case 1:
		for i := range b {
			b[i] = 0xff
		}
	case 2:
		for i := range b {
			b[i] = byte(i + 1)
		}
	case 3: // small values: good for length-prefixed formats
		for i := range b {
			b[i] = byte(r.UintN(5))
		}
	default:
		for i := range b {
			b[i] = byte(r.UintN(256))
		}
	}
	return b
}

func TestCheck(t *testing.T) {
	r := mon.New("C17")
	defer r.Flush()
	if os.Getenv("VERIF_REPLAY") == "" {
		r.Watchdog(20 * time.Second)
	}
	byName := map[string]*acc{}
	for i := range accessors {
		byName[accessors[i].name] = &accessors[i]
	}
	var rp replay
	if mon.ReplayCase(&rp) {
		judge(r, byName[rp.Accessor], mon.UnHex(rp.Value), rp.Via)
		return
	}
	// every exported method of *DHCPv4 must be modelled or known not to be an accessor
	var unmodelled []string
	tp := reflect.TypeOf(&dhcpv4.DHCPv4{})
	for i := 0; i < tp.NumMethod(); i++ {
		n := tp.Method(i).Name
		if byName[n] == nil && !notAccessors[n] {
			unmodelled = append(unmodelled, n)
		}
	}
	r.Set("accessors_modelled", len(accessors))
	r.Set("accessors_unmodelled", unmodelled)
	nrand := r.Pick(200, 20000)
	k := 0
	for ai := range accessors {
		a := &accessors[ai]
		for n := 0; n <= 64; n++ {
			if !r.Mine(k) {
				k++
				continue
			}
			k++
			rng := r.Rand("c17."+a.name, n)
			var vals [][]byte
			for f := 0; f < 4; f++ {
				vals = append(vals, fills(rng, n, f))
			}
			vals = append(vals, gen4.Text(rng, n), gen4.Text(rng, n)) // text as clients write it: bare, NUL-terminated, NUL-padded
			for j := 0; j < nrand; j++ {
				vals = append(vals, fills(rng, n, 4))
				if a.gen != nil {
					vals = append(vals, a.gen(rng, n))
				}
			}
			for vi, v := range vals {
				judge(r, a, v, "direct")
				if vi%8 == 0 {
					judge(r, a, v, "wire")
				}
				if vi%4 == 1 && len(v) > 0 {
					judge(r, a, v, "history")
				}
			}
		}
		// values longer than one option instance (RFC 3396): ordinary values of the option map, as the decoder
		// reassembles them and as constructors store them
		for li, n := range []int{65, 128, 254, 255, 256, 257, 300, 305, 510, 511, 600, 1024} {
			if !r.Mine(k) {
				k++
				continue
			}
			k++
			rng := r.Rand("c17.long."+a.name, li)
			nj := r.Pick(6, 200)
			if a.gen != nil { // structured values: more of them
				nj = r.Pick(60, 1000)
			}
			for j := 0; j < nj; j++ {
				v := fills(rng, n, 3+j%2)
				if a.gen != nil && j%2 == 0 {
					v = a.gen(rng, n)
				}
				judge(r, a, v, "direct")
				if j%3 == 0 {
					judge(r, a, v, "wire")
				}
			}
		}
		if r.Shard == 0 {
			judge(r, a, nil, "absent")
			judge(r, a, nil, "direct-empty-nonnil")
		}
	}
	r.Set("exhaustive", true)
	r.Count("history.results_that_are_views_of_the_raw_value", aliasViews)
	r.Set("exhaustive_scope", "every raw length 0..64 for every accessor")
	// reverse direction: constructor -> UpdateOption -> accessor
	m := r.Pick(20000, 4000000)
	for i := 0; i < m; i++ {
		if r.Mine(i) {
			setGet(r, i)
		}
	}
}

type sgReplay struct {
	Idx int `json:"sg_idx"`
}

func rip(r *rand.Rand) net.IP {
	ip := net.IP{byte(r.UintN(256)), byte(r.UintN(256)), byte(r.UintN(256)), byte(r.UintN(256))}
	if r.IntN(2) == 0 {
		return ip.To16()
	}
	return ip
}

func rstr(r *rand.Rand, max int) string {
	b := make([]byte, r.IntN(max+1))
	for i := range b {
		b[i] = byte('a' + r.UintN(26))
	}
	return string(b)
}

// setGet: set through the typed constructor, read back through the accessor (directly and after a wire trip).
// sgBuild: one packet with one kind of option set through its typed constructor, the expected reading and the reader
func sgBuild(rng *rand.Rand, force int) (p *dhcpv4.DHCPv4, name, want string, get func(p *dhcpv4.DHCPv4) string, kind int) {
	p = &dhcpv4.DHCPv4{Options: dhcpv4.Options{}, ClientHWAddr: make([]byte, 6)}
	ipsEq := func(l []net.IP) string { return gotIPs(l) }
	k := rng.IntN(22)
	if force >= 0 {
		k = force
	}
	kind = k
	switch k {
	case 0, 1, 2:
		ip := rip(rng)
		name = []string{"OptBroadcastAddress", "OptRequestedIPAddress", "OptServerIdentifier"}[k]
		p.UpdateOption([]dhcpv4.Option{dhcpv4.OptBroadcastAddress(ip), dhcpv4.OptRequestedIPAddress(ip), dhcpv4.OptServerIdentifier(ip)}[k])
		want = gotIP(ip)
		get = []func(*dhcpv4.DHCPv4) string{
			func(p *dhcpv4.DHCPv4) string { return gotIP(p.BroadcastAddress()) },
			func(p *dhcpv4.DHCPv4) string { return gotIP(p.RequestedIPAddress()) },
			func(p *dhcpv4.DHCPv4) string { return gotIP(p.ServerIdentifier()) }}[k]
	case 3, 4, 5, 6:
		var l []net.IP
		for i := 0; i < 1+rng.IntN(5); i++ {
			l = append(l, rip(rng))
		}
		i := k - 3
		name = []string{"OptRouter", "OptDNS", "OptNTPServers", "OptNetBIOSNameServers"}[i]
		p.UpdateOption([]dhcpv4.Option{dhcpv4.OptRouter(l...), dhcpv4.OptDNS(l...), dhcpv4.OptNTPServers(l...), dhcpv4.OptNetBIOSNameServers(l...)}[i])
		want = ipsEq(l)
		get = []func(*dhcpv4.DHCPv4) string{
			func(p *dhcpv4.DHCPv4) string { return gotIPs(p.Router()) },
			func(p *dhcpv4.DHCPv4) string { return gotIPs(p.DNS()) },
			func(p *dhcpv4.DHCPv4) string { return gotIPs(p.NTPServers()) },
			func(p *dhcpv4.DHCPv4) string { return gotIPs(p.NetBIOSNameServers()) }}[i]
	case 7:
		ones := rng.IntN(33)
		m := net.CIDRMask(ones, 32)
		name = "OptSubnetMask"
		p.UpdateOption(dhcpv4.OptSubnetMask(m))
		want = fmt.Sprintf("%x", []byte(m))
		get = func(p *dhcpv4.DHCPv4) string { return fmt.Sprintf("%x", []byte(p.SubnetMask())) }
	case 8:
		var rs []*dhcpv4.Route
		var w []string
		for i := 0; i < 1+rng.IntN(4); i++ {
			ones := rng.IntN(33)
			ip := net.IP{byte(rng.UintN(256)), byte(rng.UintN(256)), byte(rng.UintN(256)), byte(rng.UintN(256))}
			m := net.CIDRMask(ones, 32)
			ip = ip.Mask(m)
			gw := rip(rng)
			dip := ip
			if rng.IntN(2) == 0 { // the destination in its 16-octet form (net.ParseIP, net.IPv4 give that one)
				dip = net.IPv4(ip[0], ip[1], ip[2], ip[3])
			}
			rs = append(rs, &dhcpv4.Route{Dest: &net.IPNet{IP: dip, Mask: m}, Router: gw})
			w = append(w, fmt.Sprintf("%x/%d>%x", []byte(ip), ones, []byte(gw.To4())))
		}
		name = "OptClasslessStaticRoute"
		p.UpdateOption(dhcpv4.OptClasslessStaticRoute(rs...))
		want = strings.Join(w, ";")
		get = func(p *dhcpv4.DHCPv4) string { return routesGot(p.ClasslessStaticRoute()) }
	case 9, 10, 11, 12, 13, 14, 15:
		s := rstr(rng, 300)
		if s == "" {
			s = "x"
		}
		i := k - 9
		name = []string{"OptDomainName", "OptHostName", "OptRootPath", "OptBootFileName", "OptTFTPServerName", "OptClassIdentifier", "OptMessage"}[i]
		p.UpdateOption([]dhcpv4.Option{dhcpv4.OptDomainName(s), dhcpv4.OptHostName(s), dhcpv4.OptRootPath(s), dhcpv4.OptBootFileName(s),
			dhcpv4.OptTFTPServerName(s), dhcpv4.OptClassIdentifier(s), dhcpv4.OptMessage(s)}[i])
		want = s
		get = []func(*dhcpv4.DHCPv4) string{(*dhcpv4.DHCPv4).DomainName, (*dhcpv4.DHCPv4).HostName, (*dhcpv4.DHCPv4).RootPath,
			(*dhcpv4.DHCPv4).BootFileNameOption, (*dhcpv4.DHCPv4).TFTPServerName, (*dhcpv4.DHCPv4).ClassIdentifier, (*dhcpv4.DHCPv4).Message}[i]
	case 16:
		d := time.Duration(rng.Uint32()) * time.Second
		i := rng.IntN(4)
		name = []string{"OptIPAddressLeaseTime", "OptRenewTimeValue", "OptRebindingTimeValue", "OptIPv6OnlyPreferred"}[i]
		p.UpdateOption([]dhcpv4.Option{dhcpv4.OptIPAddressLeaseTime(d), dhcpv4.OptRenewTimeValue(d), dhcpv4.OptRebindingTimeValue(d), dhcpv4.OptIPv6OnlyPreferred(d)}[i])
		want = d.String()
		get = []func(*dhcpv4.DHCPv4) string{
			func(p *dhcpv4.DHCPv4) string { return p.IPAddressLeaseTime(defDur).String() },
			func(p *dhcpv4.DHCPv4) string { return p.IPAddressRenewalTime(defDur).String() },
			func(p *dhcpv4.DHCPv4) string { return p.IPAddressRebindingTime(defDur).String() },
			func(p *dhcpv4.DHCPv4) string { d, _ := p.IPv6OnlyPreferred(); return d.String() }}[i]
	case 17:
		v := uint16(rng.UintN(65536))
		name = "OptMaxMessageSize"
		p.UpdateOption(dhcpv4.OptMaxMessageSize(v))
		want = fmt.Sprint(v, " <nil>")
		get = func(p *dhcpv4.DHCPv4) string { u, err := p.MaxMessageSize(); return fmt.Sprint(u, " ", err) }
	case 18:
		mt := dhcpv4.MessageType(rng.UintN(256))
		ac := dhcpv4.AutoConfiguration(rng.UintN(256))
		name = "OptMessageType+OptAutoConfigure"
		p.UpdateOption(dhcpv4.OptMessageType(mt))
		p.UpdateOption(dhcpv4.OptAutoConfigure(ac))
		want = fmt.Sprint(byte(mt), byte(ac), true)
		get = func(p *dhcpv4.DHCPv4) string {
			a, ok := p.AutoConfigure()
			return fmt.Sprint(byte(p.MessageType()), byte(a), ok)
		}
	case 19:
		var cs []dhcpv4.OptionCode
		var w []byte
		for i := 0; i < 1+rng.IntN(8); i++ {
			c := byte(1 + rng.UintN(254))
			cs = append(cs, dhcpv4.GenericOptionCode(c))
			w = append(w, c)
		}
		name = "OptParameterRequestList"
		p.UpdateOption(dhcpv4.OptParameterRequestList(cs...))
		want = fmt.Sprint(w)
		get = func(p *dhcpv4.DHCPv4) string {
			var g []byte
			for _, c := range p.ParameterRequestList() {
				g = append(g, c.Code())
			}
			return fmt.Sprint(g)
		}
	case 20:
		var as []iana.Arch
		for i := 0; i < 1+rng.IntN(4); i++ {
			as = append(as, iana.Arch(rng.UintN(65536)))
		}
		var ids []dhcpv4.VIVCIdentifier
		var w []string
		for i := 0; i < 1+rng.IntN(3); i++ {
			id := dhcpv4.VIVCIdentifier{EntID: iana.EnterpriseID(rng.Uint32()), Data: []byte(rstr(rng, 20))}
			ids = append(ids, id)
			w = append(w, fmt.Sprintf("%d:%x", uint32(id.EntID), id.Data))
		}
		name = "OptClientArch+OptVIVC"
		p.UpdateOption(dhcpv4.OptClientArch(as...))
		p.UpdateOption(dhcpv4.OptVIVC(ids...))
		want = fmt.Sprint(as) + strings.Join(w, ",")
		get = func(p *dhcpv4.DHCPv4) string {
			var out []string
			for _, id := range p.VIVC() {
				out = append(out, fmt.Sprintf("%d:%x", uint32(id.EntID), id.Data))
			}
			return fmt.Sprint(p.ClientArch()) + strings.Join(out, ",")
		}
	case 21:
		var names, uc []string
		for i := 0; i < 1+rng.IntN(3); i++ {
			names = append(names, rstr(rng, 8)+"x."+rstr(rng, 5)+"y")
			uc = append(uc, rstr(rng, 9)+"u")
		}
		if rng.IntN(2) == 0 {
			// the search lists sites really use: domains and their sub-domains, repeated parents, shared suffixes of
			// several levels (where a compressing encoder has its choices)
			base := rstr(rng, 6) + "c." + rstr(rng, 3) + "m"
			names = []string{base, "corp." + base, "eng.corp." + base, base, "eng.corp." + base, "lab.eng.corp." + base, rstr(rng, 4) + "z." + base}[:2+rng.IntN(6)]
			if rng.IntN(2) == 0 {
				rng.Shuffle(len(names), func(i, j int) { names[i], names[j] = names[j], names[i] })
			}
		}
		sub := []byte(rstr(rng, 12))
		name = "OptDomainSearch+OptRFC3004UserClass+OptRelayAgentInfo"
		p.UpdateOption(dhcpv4.OptDomainSearch(&rfc1035label.Labels{Labels: names}))
		p.UpdateOption(dhcpv4.OptRFC3004UserClass(uc))
		p.UpdateOption(dhcpv4.OptRelayAgentInfo(dhcpv4.OptGeneric(dhcpv4.AgentCircuitIDSubOption, sub), dhcpv4.OptGeneric(dhcpv4.AgentRemoteIDSubOption, []byte{1, 2, 3})))
		if rng.IntN(2) == 0 {
			// the list comes from a received packet, is edited in place (same number of entries) and set again
			q, err := dhcpv4.FromBytes(p.ToBytes())
			if err == nil && q.DomainSearch() != nil && len(q.DomainSearch().Labels) == len(names) {
				l := q.DomainSearch()
				i := rng.IntN(len(names))
				names = append([]string{}, names...)
				switch rng.IntN(2) {
				case 0:
					names[i] = rstr(rng, 7) + "q.edited"
					l.Labels[i] = names[i]
				default:
					names[i], names[0] = names[0], names[i]
					l.Labels[i], l.Labels[0] = l.Labels[0], l.Labels[i]
				}
				p.UpdateOption(dhcpv4.OptDomainSearch(l))
				name += "(parsed, edited in place, set again)"
			}
		}
		want = fmt.Sprintf("%q %q %x 010203", names, uc, sub)
		get = func(p *dhcpv4.DHCPv4) string {
			ds := p.DomainSearch()
			ro := p.RelayAgentInfo()
			if ds == nil || ro == nil {
				return "nil"
			}
			return fmt.Sprintf("%q %q %x %x", ds.Labels, p.UserClass(), ro.Get(dhcpv4.AgentCircuitIDSubOption), ro.Get(dhcpv4.AgentRemoteIDSubOption))
		}
	}
	return p, name, want, get, kind
}

func setGet(r *mon.Rec, idx int) {
	rng := r.Rand("setget", idx)
	r.Eval(1)
	p, name, want, get, kind := sgBuild(rng, -1)
	if idx%2 == 1 {
		// before the packet is read, the program builds, reads and encodes other packets with options of the same and of
		// other kinds (a server answering several clients): what was set in THIS packet is what is read from it
		for k := 0; k < 1+idx%3; k++ {
			orng := r.Rand("setget.other", idx*4+k)
			force := -1
			if k == 0 {
				force = kind // the same kind of option, other values
			}
			mon.Guard(func() {
				q, _, _, gq, _ := sgBuild(orng, force)
				_ = gq(q)
				_ = q.ToBytes()
			})
		}
		r.Count("setget.other_packets_built_in_between", 1)
	}
	rp := sgReplay{idx}
	var g1, g2 string
	pan, val, st := mon.Guard(func() {
		g1 = get(p)
		q, err := dhcpv4.FromBytes(p.ToBytes())
		if err != nil {
			panic(err)
		}
		g2 = get(q)
	})
	if pan {
		r.Violate("C17:setget-panic:"+name+":"+mon.LibFrame(st), fmt.Sprint(val), rp)
		return
	}
	if g1 != want || g2 != want {
		r.Violate("C17:setget:"+name, fmt.Sprintf("%s: set %s, read back %s (direct) / %s (after wire trip)", name, tr(want), tr(g1), tr(g2)), rp)
		return
	}
	// a second packet shares the values' storage (a reply made with WithOptionCopied, a struct copy with a copied map);
	// every option is set again in it, to a value of the same size: the first packet reads what was set in IT
	var g3 string
	pan, val, st = mon.Guard(func() {
		sib := &dhcpv4.DHCPv4{Options: dhcpv4.Options{}}
		for c, v := range p.Options {
			sib.Options[c] = v
		}
		for c, v := range p.Options {
			nv := make([]byte, len(v))
			for i := range nv {
				nv[i] = ^v[i]
			}
			sib.UpdateOption(dhcpv4.OptGeneric(dhcpv4.GenericOptionCode(c), nv))
		}
		g3 = get(p)
	})
	if pan {
		r.Violate("C17:setget-panic:"+name+":"+mon.LibFrame(st), fmt.Sprint(val), rp)
		return
	}
	if g3 != want {
		r.Violate("C17:setget-shared:"+name, fmt.Sprintf("%s: set %s; after the same options were set again in ANOTHER packet that shares the values' storage, the first packet reads %s", name, tr(want), tr(g3)), rp)
		return
	}
	// the packet's raw option values are its owner's: every octet of them is overwritten in place; a packet built afterwards
	// with the same constructors and the same arguments reads what was set in IT (constructors hand out fresh storage,
	// not windows of a shared table)
	var g4, want4 string
	pan, val, st = mon.Guard(func() {
		for _, v := range p.Options {
			for i := range v {
				v[i] ^= 0xff
			}
		}
		q, _, w4, gq, _ := sgBuild(r.Rand("setget", idx), -1)
		want4 = w4
		g4 = gq(q)
	})
	if pan {
		r.Violate("C17:setget-panic:"+name+":"+mon.LibFrame(st), fmt.Sprint(val), rp)
		return
	}
	if g4 != want4 {
		r.Violate("C17:setget-after-overwrite:"+name, fmt.Sprintf("%s: after the raw option values of an earlier packet had been overwritten in place, a new packet set to %s reads %s", name, tr(want4), tr(g4)), rp)
		return
	}
	r.Shape("setget/"+name+fmt.Sprint(len(want)/16), true)
	r.Count("setget.ok", 1)
}
