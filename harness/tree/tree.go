// Package tree is the neutral value tree on which "equal" is decided: the
// reference decoders produce it from bytes, the generators produce it while
// choosing field values, and proj produces it from library values.
package tree

import (
	"encoding/hex"
	"strconv"
	"strings"
)

type Attr struct {
	Name string
	Val  string
}

type Node struct {
	Kind  string
	Attrs []Attr
	Kids  []*Node
}

func N(kind string) *Node { return &Node{Kind: kind} }

func (n *Node) U(name string, v uint64) *Node {
	n.Attrs = append(n.Attrs, Attr{name, strconv.FormatUint(v, 10)})
	return n
}

func (n *Node) B(name string, b []byte) *Node {
	n.Attrs = append(n.Attrs, Attr{name, "x" + hex.EncodeToString(b)})
	return n
}

func (n *Node) S(name string, s string) *Node {
	n.Attrs = append(n.Attrs, Attr{name, strconv.Quote(s)})
	return n
}

func (n *Node) L(name string, l []string) *Node {
	q := make([]string, len(l))
	for i, s := range l {
		q[i] = strconv.Quote(s)
	}
	n.Attrs = append(n.Attrs, Attr{name, "[" + strings.Join(q, ",") + "]"})
	return n
}

func (n *Node) K(kids ...*Node) *Node {
	n.Kids = append(n.Kids, kids...)
	return n
}

func (n *Node) write(sb *strings.Builder) {
	sb.WriteString(n.Kind)
	sb.WriteByte('{')
	for i, a := range n.Attrs {
		if i > 0 {
			sb.WriteByte(' ')
		}
		sb.WriteString(a.Name)
		sb.WriteByte('=')
		sb.WriteString(a.Val)
	}
	if len(n.Kids) > 0 {
		sb.WriteString(" [")
		for i, k := range n.Kids {
			if i > 0 {
				sb.WriteByte(' ')
			}
			k.write(sb)
		}
		sb.WriteByte(']')
	}
	sb.WriteByte('}')
}

// String is the canonical form; two trees are equal iff their strings are.
func (n *Node) String() string {
	if n == nil {
		return "<nil>"
	}
	var sb strings.Builder
	n.write(&sb)
	return sb.String()
}

// Paths returns the sorted multiset of kind paths ("relay/relaymsg/msg/iana/iaaddr").
func (n *Node) Paths() []string {
	var out []string
	var walk func(n *Node, pre string)
	walk = func(n *Node, pre string) {
		p := pre + n.Kind
		out = append(out, p)
		for _, k := range n.Kids {
			walk(k, p+"/")
		}
	}
	walk(n, "")
	return out
}

// Depth is the nesting depth of the tree (a leaf has depth 1).
func (n *Node) Depth() int {
	d := 0
	for _, k := range n.Kids {
		if kd := k.Depth(); kd > d {
			d = kd
		}
	}
	return d + 1
}

// Kinds returns the set of kinds occurring in the tree.
func (n *Node) Kinds(into map[string]int) {
	into[n.Kind]++
	for _, k := range n.Kids {
		k.Kinds(into)
	}
}

// Diff returns a short description of the first difference of two canonical strings.
func Diff(a, b string) string {
	i := 0
	for i < len(a) && i < len(b) && a[i] == b[i] {
		i++
	}
	lo := i - 60
	if lo < 0 {
		lo = 0
	}
	ha, hb := i+80, i+80
	if ha > len(a) {
		ha = len(a)
	}
	if hb > len(b) {
		hb = len(b)
	}
	return "at " + strconv.Itoa(i) + ": …" + a[lo:ha] + "… vs …" + b[lo:hb] + "…"
}

var kindNames = map[string]bool{"msg": true, "relay": true, "generic": true, "sub": true, "clientid": true, "serverid": true, "iana": true, "iata": true,
	"iaaddr": true, "oro": true, "elapsed": true, "relaymsg": true, "status": true, "userclass": true, "vendorclass": true, "vendoropts": true,
	"interfaceid": true, "dns": true, "domainsearch": true, "iapd": true, "iaprefix": true, "refresh": true, "remoteid": true, "fqdn": true, "ntp": true,
	"bootfileurl": true, "bootfileparam": true, "archtype": true, "nii": true, "clientlladdr": true, "dhcpv4msg": true, "4o6server": true, "4rd": true,
	"4rdmap": true, "4rdnonmap": true, "relayport": true, "duid-llt": true, "duid-en": true, "duid-ll": true, "duid-uuid": true, "duid-opaque": true,
	"ntp-srv": true, "ntp-mc": true, "ntp-fqdn": true}

// KindAt names the node kind in whose text the first difference of two canonical
// strings lies (last known "kind{" before the difference): a stable violation key.
func KindAt(a, b string) string {
	i := 0
	for i < len(a) && i < len(b) && a[i] == b[i] {
		i++
	}
	if i > len(a) {
		i = len(a)
	}
	for k := i - 1; k >= 0; k-- {
		if a[k] != '{' {
			continue
		}
		s := k
		for s > 0 && (a[s-1] >= 'a' && a[s-1] <= 'z' || a[s-1] >= '0' && a[s-1] <= '9' || a[s-1] == '-') {
			s--
		}
		if kindNames[a[s:k]] {
			return a[s:k]
		}
	}
	return "top"
}
