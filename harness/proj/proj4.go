// Package proj projects library values onto the neutral reference forms.
package proj

import (
	"net"

	"github.com/insomniacslk/dhcp/dhcpv4"
	"verif/harness/ref4"
)

func ip4(ip net.IP) (w [4]byte, ok bool) {
	if ip == nil {
		return w, true // nil == 0.0.0.0
	}
	v := ip.To4()
	if v == nil {
		return w, false
	}
	copy(w[:], v)
	return w, true
}

// P4 projects a library packet through its public fields.  ok=false when an
// address field is not representable as IPv4 (never the case for decoded values).
func P4(p *dhcpv4.DHCPv4) (*ref4.P4, bool) {
	e := &ref4.P4{Opts: map[byte][]byte{}}
	e.Op = byte(p.OpCode)
	e.HType = byte(p.HWType)
	e.Hops = p.HopCount
	e.Xid = p.TransactionID
	e.Secs = p.NumSeconds
	e.Flags = p.Flags
	ok := true
	var k bool
	if e.CI, k = ip4(p.ClientIPAddr); !k {
		ok = false
	}
	if e.YI, k = ip4(p.YourIPAddr); !k {
		ok = false
	}
	if e.SI, k = ip4(p.ServerIPAddr); !k {
		ok = false
	}
	if e.GI, k = ip4(p.GatewayIPAddr); !k {
		ok = false
	}
	e.HLen = byte(len(p.ClientHWAddr))
	e.CHAddr = append([]byte{}, p.ClientHWAddr...)
	e.SName = p.ServerHostName
	e.File = p.BootFileName
	for c, v := range p.Options {
		e.Opts[c] = append([]byte{}, v...)
	}
	return e, ok && uint16(p.HWType) <= 255
}
