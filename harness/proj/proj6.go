package proj

import (
	"fmt"
	"net"
	"reflect"
	"strconv"
	"time"

	"github.com/insomniacslk/dhcp/dhcpv4"
	"github.com/insomniacslk/dhcp/dhcpv6"
	"github.com/insomniacslk/dhcp/rfc1035label"
	"verif/harness/tree"
)

// Unknown collects option type names proj6 has no projection for (reported as reduced_oracle).
var Unknown = map[string]int{}

func ip16(ip net.IP) []byte {
	if v := ip.To16(); v != nil {
		return []byte(v)
	}
	if ip == nil {
		return make([]byte, 16)
	}
	return append([]byte("BAD:"), ip...)
}

func secs(d time.Duration) uint64 { return uint64(d / time.Second) }

func mask(b []byte, bits int) []byte {
	out := make([]byte, len(b))
	for i := range b {
		switch {
		case bits >= 8*(i+1):
			out[i] = b[i]
		case bits > 8*i:
			out[i] = b[i] & (0xff << (8 - (bits - 8*i)))
		}
	}
	return out
}

func hexes(l [][]byte) []string {
	var out []string
	for _, b := range l {
		out = append(out, fmt.Sprintf("%x", b))
	}
	return out
}

func labels(l *rfc1035label.Labels) []string {
	if l == nil {
		return nil
	}
	return l.Labels
}

func duid(d dhcpv6.DUID) *tree.Node {
	switch v := d.(type) {
	case *dhcpv6.DUIDLLT:
		return tree.N("duid-llt").U("hw", uint64(v.HWType)).U("time", uint64(v.Time)).B("ll", v.LinkLayerAddr)
	case *dhcpv6.DUIDEN:
		return tree.N("duid-en").U("en", uint64(v.EnterpriseNumber)).B("id", v.EnterpriseIdentifier)
	case *dhcpv6.DUIDLL:
		return tree.N("duid-ll").U("hw", uint64(v.HWType)).B("ll", v.LinkLayerAddr)
	case *dhcpv6.DUIDUUID:
		return tree.N("duid-uuid").B("uuid", v.UUID[:])
	case *dhcpv6.DUIDOpaque:
		return tree.N("duid-opaque").U("type", uint64(v.Type)).B("data", v.Data)
	case nil:
		return tree.N("duid-nil")
	}
	return tree.N("duid-unknown-" + fmt.Sprintf("%T", d))
}

// M6 projects a message or relay message.
func M6(m dhcpv6.DHCPv6) *tree.Node {
	switch v := m.(type) {
	case *dhcpv6.Message:
		return tree.N("msg").U("type", uint64(v.MessageType)).B("xid", v.TransactionID[:]).K(Opts6(v.Options.Options)...)
	case *dhcpv6.RelayMessage:
		return tree.N("relay").U("type", uint64(v.MessageType)).U("hop", uint64(v.HopCount)).B("link", ip16(v.LinkAddr)).B("peer", ip16(v.PeerAddr)).K(Opts6(v.Options.Options)...)
	case nil:
		return tree.N("nil-message")
	}
	return tree.N("unknown-message")
}

func Opts6(os dhcpv6.Options) []*tree.Node {
	var out []*tree.Node
	for _, o := range os {
		out = append(out, Opt6(o))
	}
	return out
}

func prefixOf(n *net.IPNet, bits int) (int, []byte) {
	if n == nil {
		return 0, make([]byte, bits/8)
	}
	ones, b := n.Mask.Size()
	if b != bits {
		return -1, []byte("BADMASK")
	}
	var ip []byte
	if bits == 32 {
		ip = n.IP.To4()
	} else {
		ip = n.IP.To16()
	}
	if ip == nil {
		if n.IP == nil {
			ip = make([]byte, bits/8)
		} else {
			return ones, []byte("BADIP")
		}
	}
	return ones, mask(ip, ones)
}

// Opt6 projects one option (exported types by type switch, unexported ones by reflection on their name).
func Opt6(o dhcpv6.Option) *tree.Node {
	switch v := o.(type) {
	case *dhcpv6.OptIANA:
		return tree.N("iana").B("iaid", v.IaId[:]).U("t1", secs(v.T1)).U("t2", secs(v.T2)).K(Opts6(v.Options.Options)...)
	case *dhcpv6.OptIAPD:
		return tree.N("iapd").B("iaid", v.IaId[:]).U("t1", secs(v.T1)).U("t2", secs(v.T2)).K(Opts6(v.Options.Options)...)
	case *dhcpv6.OptIATA:
		return tree.N("iata").B("iaid", v.IaId[:]).K(Opts6(v.Options.Options)...)
	case *dhcpv6.OptIAAddress:
		return tree.N("iaaddr").B("addr", ip16(v.IPv6Addr)).U("pref", secs(v.PreferredLifetime)).U("valid", secs(v.ValidLifetime)).K(Opts6(v.Options.Options)...)
	case *dhcpv6.OptIAPrefix:
		pl, p := prefixOf(v.Prefix, 128)
		return tree.N("iaprefix").U("pref", secs(v.PreferredLifetime)).U("valid", secs(v.ValidLifetime)).U("plen", uint64(pl)).B("prefix", p).K(Opts6(v.Options.Options)...)
	case *dhcpv6.OptStatusCode:
		return tree.N("status").U("code", uint64(v.StatusCode)).B("msg", []byte(v.StatusMessage))
	case *dhcpv6.OptUserClass:
		return tree.N("userclass").L("items", hexes(v.UserClasses))
	case *dhcpv6.OptVendorClass:
		return tree.N("vendorclass").U("en", uint64(v.EnterpriseNumber)).L("items", hexes(v.Data))
	case *dhcpv6.OptVendorOpts:
		n := tree.N("vendoropts").U("en", uint64(v.EnterpriseNumber))
		for _, s := range v.VendorOpts {
			n.K(tree.N("sub").U("code", uint64(s.Code())).B("data", s.ToBytes()))
		}
		return n
	case *dhcpv6.OptRemoteID:
		return tree.N("remoteid").U("en", uint64(v.EnterpriseNumber)).B("id", v.RemoteID)
	case *dhcpv6.OptFQDN:
		return tree.N("fqdn").U("flags", uint64(v.Flags)).L("names", labels(v.DomainName))
	case *dhcpv6.OptNTPServer:
		n := tree.N("ntp")
		for _, s := range v.Suboptions {
			switch sv := s.(type) {
			case *dhcpv6.NTPSuboptionSrvAddr:
				n.K(tree.N("ntp-srv").B("addr", ip16(net.IP(*sv))))
			case *dhcpv6.NTPSuboptionMCAddr:
				n.K(tree.N("ntp-mc").B("addr", ip16(net.IP(*sv))))
			case *dhcpv6.NTPSuboptionSrvFQDN:
				n.K(tree.N("ntp-fqdn").L("names", sv.Labels.Labels))
			case *dhcpv6.OptionGeneric:
				n.K(tree.N("generic").U("code", uint64(sv.OptionCode)).B("data", sv.OptionData))
			default:
				n.K(tree.N("unknown-ntp-sub"))
			}
		}
		return n
	case *dhcpv6.OptNetworkInterfaceID:
		return tree.N("nii").U("type", uint64(v.Typ)).U("major", uint64(v.Major)).U("minor", uint64(v.Minor))
	case *dhcpv6.OptDHCPv4Msg:
		if v.Msg == nil {
			return tree.N("dhcpv4msg").S("p4", "nil")
		}
		return tree.N("dhcpv4msg").S("p4", p4canon(v.Msg))
	case *dhcpv6.OptDHCP4oDHCP6Server:
		var l [][]byte
		for _, ip := range v.DHCP4oDHCP6Servers {
			l = append(l, ip16(ip))
		}
		return tree.N("4o6server").L("addrs", hexes(l))
	case *dhcpv6.Opt4RD:
		return tree.N("4rd").K(Opts6(v.Options)...)
	case *dhcpv6.Opt4RDMapRule:
		l4, p4 := prefixOf(&v.Prefix4, 32)
		l6, p6 := prefixOf(&v.Prefix6, 128)
		w := uint64(0)
		if v.WKPAuthorized {
			w = 1
		}
		return tree.N("4rdmap").U("p4len", uint64(l4)).U("p6len", uint64(l6)).U("ea", uint64(v.EABitsLength)).U("wkp", w).B("p4", p4).B("p6", p6)
	case *dhcpv6.Opt4RDNonMapRule:
		hs, tp, tc := uint64(0), uint64(0), uint64(0)
		if v.HubAndSpoke {
			hs = 1
		}
		if v.TrafficClass != nil {
			tp, tc = 1, uint64(*v.TrafficClass)
		}
		return tree.N("4rdnonmap").U("hs", hs).U("tcp", tp).U("tc", tc).U("pmtu", uint64(v.DomainPMTU))
	case *dhcpv6.OptionGeneric:
		return tree.N("generic").U("code", uint64(v.OptionCode)).B("data", v.OptionData)
	}
	// unexported option types: by reflection
	rv := reflect.ValueOf(o)
	if rv.Kind() == reflect.Pointer {
		if rv.IsNil() {
			return tree.N("nil-option")
		}
		rv = rv.Elem()
	}
	name := rv.Type().Name()
	f := func(n string) reflect.Value { return rv.FieldByName(n) }
	switch name {
	case "optClientID":
		d, _ := f("DUID").Interface().(dhcpv6.DUID)
		return tree.N("clientid").K(duid(d))
	case "optServerID":
		d, _ := f("DUID").Interface().(dhcpv6.DUID)
		return tree.N("serverid").K(duid(d))
	case "optRequestedOption":
		var l []string
		oc := f("OptionCodes")
		for i := 0; i < oc.Len(); i++ {
			l = append(l, strconv.FormatUint(oc.Index(i).Uint(), 10))
		}
		return tree.N("oro").L("codes", l)
	case "optElapsedTime":
		return tree.N("elapsed").U("cs", uint64(time.Duration(f("ElapsedTime").Int())/(10*time.Millisecond)))
	case "optRelayMsg":
		m, _ := f("Msg").Interface().(dhcpv6.DHCPv6)
		return tree.N("relaymsg").K(M6(m))
	case "optInterfaceID":
		return tree.N("interfaceid").B("id", f("ID").Bytes())
	case "optDNS":
		ns := f("NameServers")
		var l [][]byte
		for i := 0; i < ns.Len(); i++ {
			l = append(l, ip16(net.IP(ns.Index(i).Bytes())))
		}
		return tree.N("dns").L("addrs", hexes(l))
	case "optDomainSearchList":
		l, _ := f("DomainSearchList").Interface().(*rfc1035label.Labels)
		return tree.N("domainsearch").L("names", labels(l))
	case "optInformationRefreshTime":
		return tree.N("refresh").U("secs", secs(time.Duration(f("InformationRefreshtime").Int())))
	case "optBootFileURL":
		return tree.N("bootfileurl").B("url", []byte(f("url").String()))
	case "optBootFileParam":
		ps := f("params")
		var l [][]byte
		for i := 0; i < ps.Len(); i++ {
			l = append(l, []byte(ps.Index(i).String()))
		}
		return tree.N("bootfileparam").L("params", hexes(l))
	case "optClientArchType":
		as := f("Archs")
		var l []string
		for i := 0; i < as.Len(); i++ {
			l = append(l, strconv.FormatUint(as.Index(i).Uint(), 10))
		}
		return tree.N("archtype").L("archs", l)
	case "optClientLinkLayerAddress":
		return tree.N("clientlladdr").U("hw", f("LinkLayerType").Uint()).B("ll", f("LinkLayerAddress").Bytes())
	case "optRelayPort":
		return tree.N("relayport").U("port", f("DownstreamSourcePort").Uint())
	}
	Unknown[name]++
	return tree.N("unknown-type-" + name).U("code", uint64(o.Code())).B("data", o.ToBytes())
}

// CutV4Names applies the normalisation C06 allows (names cut to their NUL-terminated capacity)
// to embedded DHCPv4 messages.
var CutV4Names bool

func p4canon(p *dhcpv4.DHCPv4) string {
	e, ok := P4(p)
	if !ok {
		return "unrepresentable"
	}
	if CutV4Names {
		if len(e.SName) > 63 {
			e.SName = e.SName[:63]
		}
		if len(e.File) > 127 {
			e.File = e.File[:127]
		}
	}
	return e.Canon()
}
