package c05

import (
	"fmt"
	"os"
	"sort"
	"strings"
	"testing"
	"time"

	"github.com/insomniacslk/dhcp/dhcpv6"
	"verif/harness/gen4"
	"verif/harness/gen6"
	"verif/harness/mon"
	"verif/harness/proj"
	"verif/harness/ref6"
	"verif/harness/reflabel"
	"verif/harness/tree"
	"verif/harness/v6util"
)

type replay struct {
	Wire string `json:"wire"`
	Code int    `json:"code"` // -1: whole message through FromBytes; else ParseOption(code, wire)
	Src  string `json:"src"`
}

var typed map[int]string

func stripNum(s string) string {
	return strings.Map(func(r rune) rune {
		if r >= '0' && r <= '9' {
			return -1
		}
		return r
	}, s)
}

func judge(r *mon.Rec, src string, code int, b []byte) ref6.Result {
	r.Current(map[string]any{"wire": mon.HexBytes(b), "code": code, "src": src})
	r.Eval(1)
	var res ref6.Result
	var got *tree.Node
	var err error
	pan, val, st := mon.Guard(func() {
		if code < 0 {
			res = ref6.Decode(b)
			var m dhcpv6.DHCPv6
			m, err = dhcpv6.FromBytes(b)
			if err == nil {
				got = proj.M6(m)
			}
		} else {
			res = ref6.DecodeOption(code, b)
			var o dhcpv6.Option
			o, err = dhcpv6.ParseOption(dhcpv6.OptionCode(code), b)
			if err == nil {
				got = proj.Opt6(o)
			}
		}
	})
	rp := replay{mon.Hex(b), code, src}
	if pan {
		r.Violate("C05:panic:"+mon.LibFrame(st), fmt.Sprint(val), rp)
		return res
	}
	r.Count("ref."+res.V.String(), 1)
	switch res.V {
	case ref6.Unspecified:
		r.Count("unspecified."+res.Why, 1)
		return res
	case ref6.Reject:
		if err == nil {
			r.Violate("C05:accepts-malformed:"+res.Why, fmt.Sprintf("library accepts input the RFC layout rules reject (%s): decoded as %s", res.Why, trunc(got.String())), rp)
			return res
		}
		inner := res.Why != "msg-empty" && res.Why != "msg-header-short" && res.Why != "relay-header-short" && res.Why != "option-header-short" && res.Why != "option-overrun"
		r.Shape("rej:"+res.Why, inner)
		return res
	}
	if err != nil {
		r.Violate("C05:rejects-wellformed:"+stripNum(firstN(err.Error(), 48)), fmt.Sprintf("library rejects a well-formed input: %v; reference reads %s", err, trunc(res.Tree.String())), rp)
		return res
	}
	ws, gs := res.Tree.String(), got.String()
	if ws != gs {
		r.Violate("C05:value-mismatch:"+tree.KindAt(ws, gs), "library reads different values than the reference: "+tree.Diff(ws, gs), rp)
		return res
	}
	// the result is the caller's: write all over it (see mon.Scribble); no later decode and no process-wide value may change
	var target any
	if code < 0 {
		target, _ = dhcpv6.FromBytes(b)
	} else {
		target, _ = dhcpv6.ParseOption(dhcpv6.OptionCode(code), b)
	}
	mon.Scribble(target)
	if ch := mon.CanariesChanged(); len(ch) > 0 {
		r.Violate("C05:result-aliases-global", fmt.Sprintf("writing into the decoded value changed process-wide values %v: the decoder handed out shared storage", ch), rp)
		return res
	}
	paths := res.Tree.Paths()
	sort.Strings(paths)
	kinds := map[string]int{}
	res.Tree.Kinds(kinds)
	nt := false
	for k := range kinds {
		if k != "msg" && k != "relay" && k != "generic" {
			nt = true
		}
	}
	r.Shape("acc:"+strings.Join(dedup(paths), ","), nt)
	if nt && r.NSamples() < 4 && len(b) < 64 && len(b) > 12 {
		r.Sample(map[string]any{"src": src, "code": code, "input": mon.Hex(b), "tree": ws})
	}
	return res
}

func firstN(s string, n int) string {
	if len(s) > n {
		return s[:n]
	}
	return s
}

func dedup(s []string) []string {
	var out []string
	for i, x := range s {
		if i == 0 || x != s[i-1] {
			out = append(out, x)
		}
	}
	return out
}

func trunc(s string) string {
	if len(s) > 400 {
		return s[:400] + "…"
	}
	return s
}

var alphabet = []byte{0x00, 0x01, 0x02, 0x03, 0x04, 0x08, 0x0c, 0x0e, 0xff}

func TestCheck(t *testing.T) {
	r := mon.New("C05")
	defer r.Flush()
	if os.Getenv("VERIF_REPLAY") == "" {
		r.Watchdog(20 * time.Second)
	}
	typed = v6util.TypedCodes()
	mon.Canary("dhcpv6.AllDHCPRelayAgentsAndServers", (*[]byte)(&dhcpv6.AllDHCPRelayAgentsAndServers))
	mon.Canary("dhcpv6.AllDHCPServers", (*[]byte)(&dhcpv6.AllDHCPServers))
	var rp replay
	if mon.ReplayCase(&rp) {
		judge(r, "replay", rp.Code, mon.UnHex(rp.Wire))
		return
	}
	isTyped := func(c int) bool { _, ok := typed[c]; return ok }

	// (1) exhaustive small scope: every byte string over the alphabet up to length L behind a message header,
	//     and up to L-2 behind a relay header.
	L := r.Pick(6, 8)
	msgHdr := []byte{1, 0xaa, 0xbb, 0xcc}
	relHdr := make([]byte, 34)
	relHdr[0] = 12
	total := 0
	enum := func(hdr []byte, maxLen int) {
		buf := make([]byte, 0, len(hdr)+maxLen)
		var rec func(depth int)
		rec = func(depth int) {
			judge(r, "enum", -1, buf)
			total++
			if depth == maxLen {
				return
			}
			for _, s := range alphabet {
				buf = append(buf, s)
				rec(depth + 1)
				buf = buf[:len(buf)-1]
			}
		}
		k := 0
		if r.Shard == 0 {
			judge(r, "enum", -1, hdr)
			for _, s := range alphabet {
				judge(r, "enum", -1, append(append([]byte{}, hdr...), s))
			}
		}
		for _, s1 := range alphabet {
			for _, s2 := range alphabet {
				if r.Mine(k) {
					buf = append(append(buf[:0], hdr...), s1, s2)
					rec(2)
				}
				k++
			}
		}
	}
	enum(msgHdr, L)
	enum(relHdr, L-2)
	if r.Shard == 0 { // short headers
		for n := 0; n < 34; n++ {
			judge(r, "enum-hdr", -1, relHdr[:n])
			judge(r, "enum-hdr", -1, append([]byte{1}, make([]byte, n)...)[:min(n, 4)])
		}
	}
	r.Set("enum_alphabet", alphabet)
	r.Set("enum_max_len", L)
	r.Set("exhaustive", true)
	r.Count("enum_strings_this_shard", total)

	// (2) every truncation point and every length-field perturbation of generated valid messages
	nv := r.Pick(300, 20000)
	hits := map[int]int{}
	for i := 0; i < nv; i++ {
		if !r.Mine(i) {
			continue
		}
		rng := r.Rand("valid", i)
		g := gen6.New(rng, isTyped)
		g.Budget = 6 + rng.IntN(20)
		m, _ := g.Chain(rng.IntN(3), 0)
		for c, n := range g.Hits {
			hits[c] += n
		}
		w := m.ToBytes()
		if len(w) > 1200 {
			continue
		}
		res := judge(r, "valid", -1, w)
		for cut := 0; cut < len(w); cut++ {
			judge(r, "trunc", -1, w[:cut])
		}
		for _, p := range res.LenFields {
			if p+1 >= len(w) {
				continue
			}
			v := int(w[p])<<8 | int(w[p+1])
			// every option, at whatever depth (IA sub-options, relayed messages, NTP and vendor sub-options), resized to
			// every small length with all enclosing lengths kept consistent: the option's own layout rule decides alone
			if v <= 64 && len(w) <= 700 {
				for nl := 0; nl <= 34; nl++ {
					if nl == v {
						continue
					}
					for variant := 0; variant < 2; variant++ {
						fill := func(n int) []byte { return make([]byte, n) }
						if variant == 1 {
							if nl < v {
								break // cutting does not depend on the fill
							}
							fill = func(n int) []byte { return gen4.Bytes(rng, n) }
						}
						if x := gen6.Resize(w, res.LenFields, p, nl, fill); x != nil {
							judge(r, "resize", -1, x)
						}
					}
				}
			}
			for _, nvl := range []int{v - 1, v + 1, 0, 0xffff, v + 2, v - 2} {
				if nvl < 0 || nvl == v {
					continue
				}
				mm := append([]byte{}, w...)
				mm[p], mm[p+1] = byte(nvl>>8), byte(nvl)
				judge(r, "lenfield", -1, mm)
			}
		}
	}
	// (3) mutants of generated messages (<= 4096 bytes)
	nm := r.Pick(50000, 2000000)
	var prev []byte
	for i := 0; i < nm; i++ {
		if !r.Mine(i) {
			continue
		}
		rng := r.Rand("mut", i)
		g := gen6.New(rng, isTyped)
		g.Budget = 4 + rng.IntN(30)
		m, _ := g.Chain(rng.IntN(4), 0)
		for c, n := range g.Hits {
			hits[c] += n
		}
		w := m.ToBytes()
		if len(w) > 4096 {
			continue
		}
		lf := ref6.Decode(w).LenFields
		x := w
		for k := 0; k < 1+rng.IntN(3); k++ {
			x = gen6.Mutate(rng, x, lf, prev)
		}
		judge(r, "mut", -1, x)
		prev = w
	}
	// (3b) committed corpus (grown at development time with the same oracle as fuzz body): replay + mutants
	corp := mon.Corpus("v6")
	for i, b := range corp {
		if !r.Mine(i) {
			continue
		}
		judge(r, "corpus", -1, b)
		rng := r.Rand("corpus", i)
		lf := ref6.Decode(b).LenFields
		for k := 0; k < r.Pick(3, 40); k++ {
			judge(r, "corpus-mut", -1, gen6.Mutate(rng, b, lf, nil))
		}
	}
	r.Set("corpus_entries", len(corp))
	// (4) ParseOption directly: every typed code x every payload length 0..64
	nr := r.Pick(30, 600)
	k := 0
	for _, c := range v6util.SortedCodes(typed) {
		for n := 0; n <= 64; n++ {
			if !r.Mine(k) {
				k++
				continue
			}
			k++
			rng := r.Rand(fmt.Sprintf("opt%d", c), n)
			for f := 0; f < 4+nr; f++ {
				var v []byte
				switch {
				case f == 0:
					v = make([]byte, n)
				case f == 1:
					v = make([]byte, n)
					for i := range v {
						v[i] = 0xff
					}
				case f == 2:
					v = make([]byte, n)
					for i := range v {
						v[i] = byte(i + 1)
					}
				case f%3 == 0 && gen6Has(c): // a valid payload of that option cut/padded to n bytes
					g := gen6.New(rng, isTyped)
					g.Budget = 5
					g.NoV4 = n < 240
					o, _ := g.Option(c, 3)
					v = o.ToBytes()
					if len(v) > n {
						v = v[:n]
					} else {
						v = append(v, gen4.Bytes(rng, n-len(v))...)
					}
				case f%3 == 1:
					v = make([]byte, n)
					for i := range v {
						v[i] = byte(rng.UintN(4))
					}
				default:
					v = gen4.Bytes(rng, n)
				}
				judge(r, "parseoption", c, v)
			}
		}
	}
	// (5) names within a few octets of the 255-octet limit (ended by a root octet, by the end of the option, by a
	//     pointer) in every option that carries names, as an option payload and inside a message
	nb := r.Pick(4000, 200000)
	for i := 0; i < nb; i++ {
		if !r.Mine(i) {
			continue
		}
		rng := r.Rand("name-boundary", i)
		w := reflabel.Boundary(rng)
		if i%3 == 2 {
			w = reflabel.FarPointer(rng)
		}
		if i%5 == 4 {
			w = reflabel.ManyPointers(rng)
		}
		var code int
		var v []byte
		switch rng.IntN(3) {
		case 0:
			code, v = 24, w
		case 1:
			code, v = 39, append([]byte{byte(rng.UintN(8))}, w...)
		default:
			code, v = 56, append([]byte{0, 3, byte(len(w) >> 8), byte(len(w))}, w...)
		}
		judge(r, "name-boundary", code, v)
		msg := append([]byte{byte(1 + rng.UintN(11)), 9, 8, 7, byte(code >> 8), byte(code), byte(len(v) >> 8), byte(len(v))}, v...)
		judge(r, "name-boundary", -1, msg)
	}
	// (5b) one name list after another of the same length and the same checksum (reflabel.Colliding): each is read for
	//      what it is, whatever was decoded before it
	if r.Shard == 0 {
		pairs := reflabel.Colliding()
		for _, pr := range pairs {
			for _, w := range [][]byte{pr.A, pr.B, pr.A} {
				for _, code := range []int{24, 39, 56} {
					v := w
					switch code {
					case 39:
						v = append([]byte{1}, w...)
					case 56:
						v = append([]byte{0, 3, byte(len(w) >> 8), byte(len(w))}, w...)
					}
					judge(r, "name-collision", code, v)
					msg := append([]byte{3, 9, 8, 7, byte(code >> 8), byte(code), byte(len(v) >> 8), byte(len(v))}, v...)
					judge(r, "name-collision", -1, msg)
				}
			}
		}
		r.Set("checksum_colliding_name_lists", len(pairs))
	}
	// (6) relay chains of every depth 1..200 (the framing rules have no depth limit; 200 levels are 7.7 kB), made of
	//     forward and reply headers, well-formed and with the innermost option cut by one octet
	if r.Shard == 0 {
		for depth := 1; depth <= 200; depth++ {
			for variant := 0; variant < 3; variant++ {
				m := []byte{byte(1 + depth%11), 1, 2, 3, 0, 8, 0, 2, 0, byte(depth)}
				if variant == 2 {
					m = m[:len(m)-1]
					m[7] = 1
				}
				for k := 0; k < depth; k++ {
					h := make([]byte, 34)
					h[0] = byte(12 + (k*variant)%2)
					h[1] = byte(k)
					h[17], h[33] = byte(k), byte(depth)
					m = append(h, append([]byte{0, 9, byte(len(m) >> 8), byte(len(m))}, m...)...)
				}
				judge(r, "relay-depth", -1, m)
			}
		}
		r.Set("relay_depths_swept", "1..200")
	}
	r.Set("parseoption_exhaustive_lengths", "0..64 for every typed code")
	r.Set("typed_codes_discovered", v6util.SortedCodes(typed))
	for _, c := range v6util.SortedCodes(typed) {
		r.Count(fmt.Sprintf("hits.code%d", c), hits[c])
	}
}

func gen6Has(c int) bool {
	for _, x := range gen6.AllCodes {
		if x == c {
			return true
		}
	}
	return false
}
