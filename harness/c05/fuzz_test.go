package c05

import (
	"testing"

	"verif/harness/gen6"
	"verif/harness/mon"
	"verif/harness/v6util"
)

// FuzzC05 is used at development time only (coverage-guided growth of /verif/corpus/v6); registered checks replay the corpus.
func FuzzC05(f *testing.F) {
	typed = v6util.TypedCodes()
	f.Add([]byte{1, 2, 3, 4, 0, 8, 0, 2, 0, 1})
	seedRec := mon.New("C05")
	for i := 0; i < 400; i++ {
		rng := seedRec.Rand("fuzzseed", i)
		g := gen6.New(rng, func(c int) bool { _, ok := typed[c]; return ok })
		g.Budget = 2 + rng.IntN(8)
		m, _ := g.Chain(rng.IntN(3), 0)
		if w := m.ToBytes(); len(w) < 600 {
			f.Add(w)
		}
	}
	f.Add([]byte{12, 0, 1, 2, 3, 4, 5, 6, 7, 8, 9, 10, 11, 12, 13, 14, 15, 16, 17, 18, 19, 20, 21, 22, 23, 24, 25, 26, 27, 28, 29, 30, 31, 32, 0, 9, 0, 4, 1, 2, 3, 4})
	f.Fuzz(func(t *testing.T, b []byte) {
		if len(b) > 4096 {
			return
		}
		r := mon.New("C05")
		judge(r, "fuzz", -1, b)
		if r.NViolations() > 0 {
			t.Fatalf("violation on %x", b)
		}
	})
}
