package c12

import (
	"bytes"
	"context"
	"fmt"
	"net"
	"testing"
	"testing/synctest"
	"time"

	"verif/harness/cli"
	"verif/harness/mon"
	"verif/harness/sconn"
)

// seqT: several calls made one after another on ONE client.  Every call follows the schedule on its own: what an
// earlier call did (ran out of tries, was cancelled in the middle of a try, was answered) leaves no trace in the
// waits, the number of transmissions or the bytes of a later call.
type seqT struct {
	Seq   bool          `json:"seq"`
	Fam   string        `json:"fam"`
	T     time.Duration `json:"T"`
	N     int           `json:"n"`
	Kinds []string      `json:"kinds"` // per call: silence | cancel0 | cancel1 | accept0 | accept1
	Idle  time.Duration `json:"idle"`  // pause between two calls
	Cfg   int           `json:"cfg"`
	Reuse bool          `json:"reuse"`          // the caller re-submits one message object that it edits in place between the calls
	Same  bool          `json:"same,omitempty"` // every call sends the same message (same transaction id) and the server's answer is the same octets every time
}

func respNonceSeq(sc seqT, i int) int {
	if sc.Same {
		return 100
	}
	return 100 + i
}

type callObs struct {
	start, retAt time.Duration
	writes       []sconn.Write
	err          error
	gotMsg       bool
	nonce        int
	returned     bool
}

func runSeq(t *testing.T, sc seqT) (obs []callObs, wants [][]byte) {
	f := fam(sc.Fam)
	synctest.Test(t, func(t *testing.T) {
		conn := sconn.New(0)
		c, err := f.NewCfg(conn, sc.T, sc.N, sc.Cfg)
		if err != nil {
			t.Fatal(err)
		}
		t0 := time.Now()
		shared := f.Request(0x00a1b200, 3) // sc.Reuse: one message object, edited in place between the calls
		for i, kind := range sc.Kinds {
			xid := uint32(0x00a1b200 + i%2) // the same transaction id comes back every other call
			req := f.Request(xid, 7*i)
			if sc.Reuse {
				shared.Edit(xid, byte(i+1))
				req = shared
			}
			if sc.Same {
				xid = 0x00a1b200
				req = f.Request(xid, 3)
			}
			wants = append(wants, req.Bytes())
			var o callObs
			o.start = time.Since(t0)
			w0 := len(conn.Writes())
			ctx, cancel := context.WithCancel(context.Background())
			done := make(chan struct{})
			go func() {
				defer close(done)
				var rp cli.Resp
				rp, o.gotMsg, o.err = c.SendAndRead(ctx, dests[i%len(dests)], req, nil)
				o.nonce = rp.Nonce
				o.retAt = time.Since(t0)
				o.returned = true
			}()
			synctest.Wait()
			switch kind {
			case "cancel0":
				time.Sleep(sc.T / 2)
				synctest.Wait()
				cancel()
			case "cancel1":
				time.Sleep(sc.T + sc.T/2)
				synctest.Wait()
				cancel()
			case "accept0", "accept1":
				at := sc.T / 2
				if kind == "accept1" {
					at = sc.T + sc.T
				}
				time.Sleep(at)
				synctest.Wait()
				conn.Inject(sconn.Datagram{B: f.Datagram("matching", xid, respNonceSeq(sc, i), f.AcceptType()), From: dests[0], Nonce: respNonceSeq(sc, i), Class: "matching"})
			}
			synctest.Wait()
			if !o.returned {
				time.Sleep(sc.T*time.Duration(int64(1)<<uint(sc.N)) + sc.T) // longer than any legal rest of the call
				synctest.Wait()
			}
			if !o.returned {
				cancel()
				synctest.Wait()
			}
			<-done
			cancel()
			o.writes = conn.Writes()[w0:]
			obs = append(obs, o)
			time.Sleep(sc.Idle)
			synctest.Wait()
		}
		c.Close()
	})
	return obs, wants
}

func judgeSeq(r *mon.Rec, t *testing.T, sc seqT) {
	r.Current(sc)
	r.Eval(1)
	f := fam(sc.Fam)
	var obs []callObs
	var wants [][]byte
	pan, val, st := mon.Guard(func() { obs, wants = runSeq(t, sc) })
	if pan {
		r.Violate("C12:seq:panic-or-deadlock:"+mon.LibFrame(st), fmt.Sprintf("%v", val), sc)
		return
	}
	for i, o := range obs {
		kind := sc.Kinds[i]
		bad := func(key, msg string, a ...any) {
			r.Violate("C12:seq:"+key, fmt.Sprintf("%s T=%v n=%d calls=%v idle=%v: call #%d (%s, started at %v): ", sc.Fam, sc.T, sc.N, sc.Kinds, sc.Idle, i, kind, o.start)+fmt.Sprintf(msg, a...), sc)
		}
		budget := sc.T * time.Duration((int64(1)<<uint(sc.N))-1)
		// expected end of the call (relative to its start) and its result
		end, what := budget, "noresp"
		switch kind {
		case "cancel0":
			if sc.T/2 < end {
				end, what = sc.T/2, "ctx"
			}
		case "cancel1":
			if sc.T+sc.T/2 < end {
				end, what = sc.T+sc.T/2, "ctx"
			}
		case "accept0":
			end, what = sc.T/2, "ok"
		case "accept1":
			if 2*sc.T < end {
				end, what = 2*sc.T, "ok"
			}
		}
		expW := 0
		for k := 0; k < sc.N; k++ {
			if sc.T*time.Duration((int64(1)<<uint(k))-1) < end {
				expW++
			}
		}
		for k, w := range o.writes {
			if k >= expW {
				break
			}
			if at := o.start + sc.T*time.Duration((int64(1)<<uint(k))-1); w.T != at {
				bad("schedule", "transmission #%d at %v, want %v (= start + T*(2^%d-1))", k, w.T, at, k)
				return
			}
			if !bytes.Equal(w.B, wants[i]) {
				bad("bytes-differ", "transmission #%d is not the request's encoding", k)
				return
			}
			d := dests[i%len(dests)]
			if ua, ok := w.Dest.(*net.UDPAddr); !ok || !ua.IP.Equal(d.IP) || ua.Port != d.Port || ua.Zone != d.Zone {
				bad("destination", "transmission #%d went to %v, want %v", k, w.Dest, d)
				return
			}
		}
		if len(o.writes) != expW {
			bad("transmission-count", "%d transmissions, want exactly %d (at %v)", len(o.writes), expW, times(o.writes))
			return
		}
		if !o.returned || o.retAt != o.start+end {
			bad("return-instant", "returned=%v at %v, want %v (%s)", o.returned, o.retAt, o.start+end, what)
			return
		}
		switch what {
		case "noresp":
			if !f.IsNoResponse(o.err) || o.gotMsg {
				bad("no-response-error", "want the no-response error, got err=%v msg=%v", o.err, o.gotMsg)
				return
			}
		case "ctx":
			if o.err != context.Canceled || o.gotMsg {
				bad("context-error", "want the context's error, got err=%v msg=%v", o.err, o.gotMsg)
				return
			}
		case "ok":
			if o.err != nil || !o.gotMsg || o.nonce != respNonceSeq(sc, i) {
				bad("response-not-returned", "want the response with nonce %d, got err=%v msg=%v nonce=%d", respNonceSeq(sc, i), o.err, o.gotMsg, o.nonce)
				return
			}
		}
		r.Count("seq.transmissions_checked", len(o.writes))
	}
	r.Shape(fmt.Sprintf("seq/%s/%v/%d/%v/%v/%v", sc.Fam, sc.T, sc.N, sc.Kinds, sc.Idle, sc.Reuse), true)
}

func seqGrid(quick bool) []seqT {
	var out []seqT
	kinds := []string{"silence", "cancel0", "cancel1", "accept0", "accept1"}
	Ts := []time.Duration{10 * time.Millisecond, 5 * time.Second}
	for _, fm := range []string{"nclient4", "nclient6"} {
		for _, T := range Ts {
			for n := 1; n <= 3; n++ {
				for _, a := range kinds {
					for _, b := range kinds {
						out = append(out, seqT{true, fm, T, n, []string{a, b}, 0, len(out) % cli.NCfg, len(out)%2 == 0, false})
						if a[0] == 'a' && b[0] == 'a' { // answered calls: once more with the same message and the same answer every time
							out = append(out, seqT{true, fm, T, n, []string{a, b, a}, []time.Duration{0, T}[len(out)%2], len(out) % cli.NCfg, false, true})
						}
						for _, c := range kinds {
							if quick && (len(a)+len(b)+len(c)+n)%3 != 0 {
								continue
							}
							out = append(out, seqT{true, fm, T, n, []string{a, b, c}, []time.Duration{0, T, 7 * T}[len(out)%3], len(out) % cli.NCfg, len(out)%2 == 0, false})
						}
					}
				}
			}
		}
	}
	return out
}
