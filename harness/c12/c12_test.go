package c12

import (
	"bytes"
	"context"
	"fmt"
	"github.com/insomniacslk/dhcp/dhcpv4/nclient4"
	"github.com/insomniacslk/dhcp/dhcpv6/nclient6"
	"io"
	"net"
	"os"
	"syscall"
	"testing"
	"testing/synctest"
	"time"

	"verif/harness/cli"
	"verif/harness/mon"
	"verif/harness/sconn"
)

type scenario struct {
	Fam    string        `json:"fam"`
	T      time.Duration `json:"T"`
	N      int           `json:"n"`
	Accept int           `json:"accept_try"` // -1: silence; else the response is accepted during try k (0-based)
	Off    string        `json:"offset"`     // start | middle | last
	Extra  int           `json:"extra"`      // request size variation
	Dest   int           `json:"dest"`
	CtxDL  bool          `json:"ctx_deadline"`    // the caller's context carries a far-away deadline
	CtxAt  time.Duration `json:"ctx_deadline_at"` // >0: the caller's context deadline expires at this instant (mid-try)
	Cfg    int           `json:"cfg"`             // client logging configuration (cli.NewCfg)
	// Fault > 0 (silence scenarios): at that instant the pending read on the connection fails with a passing error
	// (ICMP error reported on the socket, expired read deadline, interface down).  The schedule is the same.
	Fault time.Duration `json:"fault,omitempty"`
	// WFail > 0 (silence scenarios): transmission #WFail-1 fails (expired write deadline, no buffer space, ...): the call
	// ends there with that error -- a failed transmission is not an elapsed try -- and nothing further is sent
	WFail int `json:"wfail,omitempty"`
	// Second: the call's matcher has a memory -- it takes the second acceptable response it is shown.  Two responses arrive
	// at the instant of the scenario, one after the other; the call ends with the second (every datagram is shown to the
	// matcher exactly once, whatever the client logs about it)
	Second bool `json:"second,omitempty"`
	// Junk: an undecodable datagram and an empty one reach the client right after its first transmission (whatever it logs
	// about them, the response that follows is read whole)
	Junk bool `json:"junk,omitempty"`
	// Raw (nclient4, silence scenarios): the client runs over the library's own raw broadcast connection
	// (nclient4.NewBroadcastUDPConn) on top of the scripted connection, so what is recorded are IPv4/UDP frames: the
	// destination and the bytes are read back from the frames
	Raw bool `json:"raw,omitempty"`
}

func writeErrOf(k int) error {
	switch k % 7 {
	case 4:
		return &net.OpError{Op: "write", Net: "udp", Err: os.NewSyscallError("sendto", syscall.EADDRNOTAVAIL)}
	case 5:
		return &net.OpError{Op: "write", Net: "udp", Err: os.NewSyscallError("sendto", syscall.ENETUNREACH)}
	case 6:
		return &net.OpError{Op: "write", Net: "udp", Err: os.NewSyscallError("sendto", syscall.EHOSTUNREACH)}
	case 0:
		return &net.OpError{Op: "write", Net: "udp", Err: os.ErrDeadlineExceeded}
	case 1:
		return &net.OpError{Op: "write", Net: "udp", Err: os.NewSyscallError("sendto", syscall.ENOBUFS)}
	case 2:
		return os.ErrDeadlineExceeded
	}
	return &net.OpError{Op: "write", Net: "udp", Err: os.NewSyscallError("sendto", syscall.EPERM)}
}

func faultErr(k int) error {
	switch k % 4 {
	case 0:
		return &net.OpError{Op: "read", Net: "udp", Err: os.NewSyscallError("recvfrom", syscall.ECONNREFUSED)}
	case 1:
		return os.ErrDeadlineExceeded
	case 2:
		return &net.OpError{Op: "read", Net: "packet", Err: syscall.ENETDOWN}
	}
	return io.ErrUnexpectedEOF
}

var dests = []*net.UDPAddr{
	{IP: net.IPv4bcast, Port: 67},
	{IP: net.IPv4(10, 0, 0, 1), Port: 6767},
	{IP: net.ParseIP("ff02::1:2"), Port: 547},
	{IP: net.ParseIP("fe80::1"), Port: 547, Zone: "eth1"}, // a scoped destination: the zone is part of where a datagram goes
	{IP: net.ParseIP("ff02::1:2"), Port: 547, Zone: "7"},
	nclient4.DefaultServers, // the libraries' own address objects, handed in by the caller
	nclient6.AllDHCPRelayAgentsAndServers,
}

// how many transmissions of a call with a negative try count are observed before it is cancelled (more than the 10 of
// RFC 8415's REQ_MAX_RC and the 4/5 of RFC 2131 implementations)
const unboundedObserved = 13

// kindOf: what kind of message the call sends (every kind for every try count)
func kindOf(sc scenario) int { return sc.Dest + sc.Extra%5 + len(sc.Off) }

// respNonce: which datagram answers (the nonce decides its size: 4 and 7 give exactly 1500 and 1499 octets)
func respNonce(sc scenario) int { return []int{1, 4, 1, 7, 2}[(sc.Dest+sc.Accept+sc.Extra)%5] }

func fam(name string) cli.Family {
	if name == "nclient4" {
		return cli.V4{}
	}
	return cli.V6{}
}

type result struct {
	writes   []sconn.Write
	retAt    time.Duration
	err      error
	resp     cli.Resp
	gotMsg   bool
	later    int // writes observed after the call returned
	returned bool
}

// run executes one scenario inside a synctest bubble (virtual time).
func run(t *testing.T, sc scenario, want []byte, xid uint32) (res result) {
	f := fam(sc.Fam)
	synctest.Test(t, func(t *testing.T) {
		conn := sconn.New(0)
		var pc net.PacketConn = conn
		if sc.Raw {
			pc = nclient4.NewBroadcastUDPConn(conn, &net.UDPAddr{Port: 68})
		}
		c, err := f.NewCfg(pc, sc.T, sc.N, sc.Cfg)
		if err != nil {
			t.Fatal(err)
		}
		start := time.Now()
		req := f.Request(xid, sc.Extra).SetKind(kindOf(sc))
		ctx, cancel := context.WithCancel(context.Background())
		if sc.CtxDL {
			var c2 context.CancelFunc
			ctx, c2 = context.WithTimeout(ctx, 1000*time.Hour)
			defer c2()
		}
		if sc.CtxAt > 0 {
			var c3 context.CancelFunc
			ctx, c3 = context.WithDeadline(ctx, start.Add(sc.CtxAt))
			defer c3()
		}
		defer cancel()
		if sc.WFail > 0 {
			conn.WriteErr = func(k int) error {
				if k == sc.WFail-1 {
					return writeErrOf(sc.Cfg + sc.Dest)
				}
				return nil
			}
		}
		if sc.Accept >= 0 && sc.Off == "inwrite" {
			// a server that answers at once: the response to transmission #k is read and routed by the receive loop
			// before the client's WriteTo has returned
			conn.OnWrite = func(w sconn.Write) {
				if len(conn.Writes()) != sc.Accept+1 {
					return
				}
				n := conn.Reads()
				conn.Inject(sconn.Datagram{B: f.Datagram("matching", xid, respNonce(sc), f.AcceptType()), From: dests[sc.Dest], Nonce: respNonce(sc), Class: "matching"})
				conn.WaitReads(n + 1)
			}
		}
		done := make(chan struct{})
		go func() {
			defer close(done)
			var m cli.MatchFn
			if sc.Second {
				shown := 0
				m = func(rp cli.Resp) bool {
					if rp.Nil || rp.Type != f.AcceptType() {
						return false
					}
					shown++
					return shown >= 2
				}
			}
			res.resp, res.gotMsg, res.err = c.SendAndRead(ctx, dests[sc.Dest], req, m)
			res.retAt = time.Since(start)
			res.returned = true
		}()
		tries := sc.N
		if tries < 0 {
			tries = unboundedObserved // unbounded retries: observe the first transmissions, then cancel
		}
		horizon := sc.T * time.Duration((int64(1)<<uint(tries))-1)
		if sc.Accept >= 0 {
			tryStart := sc.T * time.Duration((int64(1)<<uint(sc.Accept))-1)
			tryLen := sc.T * time.Duration(int64(1)<<uint(sc.Accept))
			var off time.Duration
			switch sc.Off {
			case "middle":
				off = tryLen / 2
			case "last":
				off = tryLen - time.Nanosecond
			}
			synctest.Wait()
			if sc.Junk {
				conn.Inject(sconn.Datagram{B: f.Datagram("undecodable", xid, 900, f.AcceptType()), From: dests[sc.Dest], Nonce: 900, Class: "undecodable"})
				conn.Inject(sconn.Datagram{B: []byte{}, From: dests[sc.Dest], Nonce: 901, Class: "empty"})
				synctest.Wait()
			}
			time.Sleep(tryStart + off)
			synctest.Wait() // the try's transmission (if any at this instant) has happened
			if sc.Off != "inwrite" {
				if sc.Second { // the first of the two: shown to the matcher, not taken
					conn.Inject(sconn.Datagram{B: f.Datagram("matching", xid, 100+respNonce(sc), f.AcceptType()), From: dests[sc.Dest], Nonce: 100 + respNonce(sc), Class: "matching"})
					synctest.Wait()
				}
				conn.Inject(sconn.Datagram{B: f.Datagram("matching", xid, respNonce(sc), f.AcceptType()), From: dests[sc.Dest], Nonce: respNonce(sc), Class: "matching"})
			}
			synctest.Wait()
			at := time.Since(start)
			if !res.returned {
				res.retAt = -1
			} else if res.retAt != at {
				// returned earlier than the injection: keep the recorded instant
			}
			nw := len(conn.Writes())
			time.Sleep(4 * sc.T * time.Duration(int64(1)<<uint(tries)))
			synctest.Wait()
			res.later = len(conn.Writes()) - nw
		} else {
			if sc.Fault > 0 {
				synctest.Wait()
				time.Sleep(sc.Fault)
				synctest.Wait()
				conn.Inject(sconn.Datagram{Err: faultErr(sc.Cfg + sc.Dest)})
				synctest.Wait()
			}
			if sc.N < 0 {
				time.Sleep(horizon - time.Nanosecond - time.Since(start))
				synctest.Wait()
				cancel()
				synctest.Wait()
			} else {
				time.Sleep(horizon + 4*sc.T - time.Since(start))
				synctest.Wait()
			}
		}
		res.writes = conn.Writes()
		if !res.returned { // unblock a stuck call so that the bubble can end
			cancel()
			synctest.Wait()
		}
		c.Close()
		<-done
	})
	_ = want
	return res
}

func judge(r *mon.Rec, t *testing.T, sc scenario) {
	r.Current(sc)
	r.Eval(1)
	f := fam(sc.Fam)
	xid := uint32(0x00a1b2c3)
	switch (sc.Dest + sc.N + len(sc.Off)) % 5 { // transaction ids are values like any other, also 00000000 and all ones
	case 0:
		xid = 0
	case 1:
		xid = 0xffffffff
	}
	want := f.Request(xid, sc.Extra).SetKind(kindOf(sc)).Bytes()
	var res result
	pan, val, st := mon.Guard(func() { res = run(t, sc, want, xid) })
	if pan {
		r.Violate("C12:panic-or-deadlock:"+mon.LibFrame(st), fmt.Sprintf("%v", val), sc)
		return
	}
	bad := func(key, f string, a ...any) {
		r.Violate("C12:"+key, fmt.Sprintf("%s T=%v n=%d accept=%d/%s: ", sc.Fam, sc.T, sc.N, sc.Accept, sc.Off)+fmt.Sprintf(f, a...), sc)
	}
	tries := sc.N
	if tries < 0 {
		tries = unboundedObserved
	}
	expWrites := tries
	if sc.Accept >= 0 {
		expWrites = sc.Accept + 1
	}
	if sc.WFail > 0 && sc.WFail <= tries {
		expWrites = sc.WFail
	}
	if sc.CtxAt > 0 { // only the transmissions scheduled before the context's deadline
		expWrites = 0
		for k := 0; k < tries; k++ {
			if sc.T*time.Duration((int64(1)<<uint(k))-1) < sc.CtxAt {
				expWrites++
			}
		}
	}
	// every transmission: on schedule, identical bytes, requested destination
	for k, w := range res.writes {
		if k >= expWrites {
			break
		}
		at := sc.T * time.Duration((int64(1)<<uint(k))-1)
		if w.T != at {
			bad("schedule", "transmission #%d at %v, want %v", k, w.T, at)
			return
		}
		if sc.Raw { // the frame the raw connection wrote: its payload and where it is addressed to
			fr := w.B
			if len(fr) < 28 || fr[0] != 0x45 || fr[9] != 17 {
				bad("raw-frame", "transmission #%d over the raw connection is not an IPv4/UDP frame with a 20-octet header", k)
				return
			}
			w.B = fr[28:]
			w.Dest = &net.UDPAddr{IP: net.IP(append([]byte{}, fr[16:20]...)), Port: int(fr[22])<<8 | int(fr[23])}
		}
		if !bytes.Equal(w.B, want) {
			bad("bytes-differ", "transmission #%d is not the request's encoding", k)
			return
		}
		if ua, ok := w.Dest.(*net.UDPAddr); !ok || !ua.IP.Equal(dests[sc.Dest].IP) || ua.Port != dests[sc.Dest].Port || (!sc.Raw && ua.Zone != dests[sc.Dest].Zone) {
			bad("destination", "transmission #%d went to %v, want %v", k, w.Dest, dests[sc.Dest])
			return
		}
	}
	if len(res.writes) != expWrites {
		bad("transmission-count", "%d transmissions, want exactly %d (at %v)", len(res.writes), expWrites, times(res.writes))
		return
	}
	switch {
	case sc.WFail > 0 && sc.WFail <= tries:
		at := sc.T * time.Duration((int64(1)<<uint(sc.WFail-1))-1)
		if !res.returned || res.err == nil || f.IsNoResponse(res.err) || res.gotMsg || res.retAt != at {
			bad("write-error", "transmission #%d failed at %v: call returned=%v at %v with err=%v (want that error at that instant; a failed transmission is not an elapsed try)", sc.WFail-1, at, res.returned, res.retAt, res.err)
			return
		}
		r.Count("scenarios_with_a_failing_write", 1)
	case sc.CtxAt > 0:
		if !res.returned || res.err != context.DeadlineExceeded || res.retAt != sc.CtxAt {
			bad("context-deadline", "context deadline at %v: call returned=%v at %v with err=%v (want the context's error at that instant and no further transmission)", sc.CtxAt, res.returned, res.retAt, res.err)
			return
		}
	case sc.Accept >= 0:
		tryStart := sc.T * time.Duration((int64(1)<<uint(sc.Accept))-1)
		tryLen := sc.T * time.Duration(int64(1)<<uint(sc.Accept))
		off := map[string]time.Duration{"start": 0, "inwrite": 0, "middle": tryLen / 2, "last": tryLen - 1}[sc.Off]
		if !res.returned || res.err != nil || !res.gotMsg || res.resp.Nonce != respNonce(sc) || res.resp.Damaged {
			bad("response-not-returned", "response accepted in try %d was not returned: returned=%v err=%v nonce=%d", sc.Accept, res.returned, res.err, res.resp.Nonce)
			return
		}
		if res.retAt != tryStart+off {
			bad("return-instant", "call returned at %v, response arrived at %v", res.retAt, tryStart+off)
			return
		}
		if res.later != 0 {
			bad("transmission-after-accept", "%d transmissions after the response was accepted", res.later)
			return
		}
	case sc.N < 0:
		if !res.returned || res.err != context.Canceled {
			bad("unbounded-retry", "negative try count: after cancellation got returned=%v err=%v", res.returned, res.err)
			return
		}
	default:
		horizon := sc.T * time.Duration((int64(1)<<uint(tries))-1)
		if !res.returned || !f.IsNoResponse(res.err) || res.gotMsg {
			bad("no-response-error", "want the no-response error, got returned=%v err=%v msg=%v", res.returned, res.err, res.gotMsg)
			return
		}
		if res.retAt != horizon {
			bad("failure-instant", "call failed at %v, want %v = T*(2^n-1)", res.retAt, horizon)
			return
		}
	}
	r.Shape(fmt.Sprintf("%s/%v/%d/%d/%s/%d/%d/%v/%v", sc.Fam, sc.T, sc.N, sc.Accept, sc.Off, sc.Extra, sc.Dest, sc.CtxDL, sc.CtxAt), sc.N != 1 || sc.Accept >= 0)
	r.Count("transmissions_checked", len(res.writes))
	if sc.Fault > 0 {
		r.Count("scenarios_with_a_read_fault", 1)
	}
	if sc.Second {
		r.Count("scenarios_with_a_matcher_with_memory", 1)
	}
	if sc.Raw {
		r.Count("scenarios_over_the_raw_connection", 1)
	}
	if r.NSamples() < 6 && sc.N >= 2 && sc.N <= 3 {
		r.Sample(map[string]any{"scenario": sc, "transmissions_at": times(res.writes), "returned_at": res.retAt.String(), "err": fmt.Sprint(res.err)})
	}
}

func times(ws []sconn.Write) []string {
	var s []string
	for _, w := range ws {
		s = append(s, w.T.String())
	}
	return s
}

func grid(quick bool) []scenario {
	var out []scenario
	Ts := []time.Duration{time.Millisecond, 10 * time.Millisecond, 250 * time.Millisecond, 5 * time.Second}
	if !quick {
		Ts = append(Ts, 7*time.Millisecond, 100*time.Millisecond, time.Second, 3*time.Nanosecond, 64*time.Second)
	}
	for _, fm := range []string{"nclient4", "nclient6"} {
		for _, T := range Ts {
			for _, n := range []int{-1 << 31, -1000, -2, -1, 0, 1, 2, 3, 4, 5, 6} { // every negative count means "until cancelled"
				extras := []int{0, 57}
				if !quick {
					extras = []int{0, 1, 57, 199}
				}
				for _, ex := range extras {
					for d := 0; d < len(dests); d++ {
						for _, dl := range []bool{false, true} {
							out = append(out, scenario{Fam: fm, T: T, N: n, Accept: -1, Extra: ex, Dest: d, CtxDL: dl, Cfg: len(out) % cli.NCfg})
							if fm == "nclient4" && !dl && (d == 0 || d == 1 || d == 5) && n >= 1 && n <= 3 { // over the library's raw connection
								out = append(out, scenario{Fam: fm, T: T, N: n, Accept: -1, Extra: ex, Dest: d, Cfg: len(out) % cli.NCfg, Raw: true})
							}
							if n != 0 && !dl && d%2 == 0 { // the same with a transmission that fails
								wf := 1 + len(out)%3
								if n > 0 && wf > n {
									wf = n
								}
								out = append(out, scenario{Fam: fm, T: T, N: n, Accept: -1, Extra: ex, Dest: d, Cfg: len(out) % cli.NCfg, WFail: wf})
							}
							if n != 0 && n != 1 && !dl { // the same with a read fault during try 0 / try 1
								tf := []time.Duration{T / 3, T + T/2, 1, T - 1}[len(out)%4]
								out = append(out, scenario{Fam: fm, T: T, N: n, Accept: -1, Extra: ex, Dest: d, Cfg: len(out) % cli.NCfg, Fault: tf})
							}
							if n >= 2 && !dl { // the context's deadline expires in the middle of try 1 / try 2
								out = append(out, scenario{Fam: fm, T: T, N: n, Accept: -1, Extra: ex, Dest: d, CtxAt: T + T/2, Cfg: len(out) % cli.NCfg})
								out = append(out, scenario{Fam: fm, T: T, N: n, Accept: -1, Extra: ex, Dest: d, CtxAt: T / 3, Cfg: len(out) % cli.NCfg})
							}
							kmax := n
							if n < 0 {
								kmax = 4
							}
							for k := 0; k < kmax; k++ {
								for _, off := range []string{"start", "inwrite", "middle", "last"} {
									out = append(out, scenario{Fam: fm, T: T, N: n, Accept: k, Off: off, Extra: ex, Dest: d, CtxDL: dl, Cfg: len(out) % cli.NCfg})
									if off == "middle" && !dl {
										out = append(out, scenario{Fam: fm, T: T, N: n, Accept: k, Off: off, Extra: ex, Dest: d, Cfg: len(out) % cli.NCfg, Second: true})
									}
									if off == "last" && !dl {
										out = append(out, scenario{Fam: fm, T: T, N: n, Accept: k, Off: off, Extra: ex, Dest: d, Cfg: len(out) % cli.NCfg, Junk: true})
									}
								}
							}
						}
					}
				}
			}
		}
	}
	return out
}

func TestCheck(t *testing.T) {
	r := mon.New("C12")
	defer r.Flush()
	if os.Getenv("VERIF_REPLAY") == "" {
		r.Watchdog(60 * time.Second)
	}
	var sc scenario
	var sq seqT
	if mon.ReplayCase(&sq) && sq.Seq {
		judgeSeq(r, t, sq)
		return
	}
	if mon.ReplayCase(&sc) {
		judge(r, t, sc)
		return
	}
	g := grid(r.Quick())
	for i, sc := range g {
		if r.Mine(i) {
			judge(r, t, sc)
		}
	}
	sg := seqGrid(r.Quick())
	for i, sq := range sg {
		if r.Mine(i) {
			judgeSeq(r, t, sq)
		}
	}
	r.Set("sequence_grid_size", len(sg))
	r.Set("grid_size", len(g))
	r.Set("exhaustive", true)
}
