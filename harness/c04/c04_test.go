package c04

import (
	"fmt"
	"os"
	"testing"
	"time"

	"github.com/insomniacslk/dhcp/dhcpv4"
	"verif/harness/gen4"
	"verif/harness/mon"
	"verif/harness/proj"
	"verif/harness/ref4"
)

type replay struct {
	Wire string `json:"wire"`
	Src  string `json:"src"`
}

// header is a fixed valid 240-byte prefix for the exhaustive options-area enumeration.
var header = func() []byte {
	b := make([]byte, 240)
	b[0], b[1], b[2] = 1, 1, 6
	copy(b[4:8], []byte{0xde, 0xad, 0xbe, 0xef})
	copy(b[28:34], []byte{2, 0, 0, 0, 0, 1})
	copy(b[236:], ref4.Cookie)
	return b
}()

func judge(r *mon.Rec, src string, b []byte) {
	r.Current(map[string]any{"wire": mon.HexBytes(b), "src": src})
	r.Eval(1)
	e, ok, why := ref4.Decode(b)
	var q *dhcpv4.DHCPv4
	var err error
	pan, val, st := mon.Guard(func() { q, err = dhcpv4.FromBytes(b) })
	rp := replay{mon.Hex(b), src}
	if pan {
		r.Violate("C04:panic:"+mon.LibFrame(st), fmt.Sprintf("FromBytes panicked: %v", val), rp)
		return
	}
	if !ok {
		r.Count("ref.reject."+why, 1)
		if err == nil {
			r.Violate("C04:accepts-malformed:"+why, fmt.Sprintf("library accepts a packet the RFC rejects (%s), len=%d", why, len(b)), rp)
			return
		}
		r.Shape("rej:"+why+fmt.Sprint(len(b) > 240), why != "short-header")
		return
	}
	r.Count("ref.accept", 1)
	if err != nil {
		r.Violate("C04:rejects-wellformed", fmt.Sprintf("library rejects a well-formed packet: %v (shape %s)", err, e.Shape()), rp)
		return
	}
	g, okp := proj.P4(q)
	if !okp {
		r.Violate("C04:unrepresentable", "decoded packet has a non-IPv4 address / wide hwtype", rp)
		return
	}
	if g.Canon() != e.Canon() {
		r.Violate("C04:value-mismatch", "library reads different values than the RFC: want "+trunc(e.Canon())+" got "+trunc(g.Canon()), rp)
		return
	}
	// the result is the caller's: write all over it.  Nothing a later decode returns may depend on that (if it does,
	// the later case's own comparison with the reference reports it), and no process-wide value may change.
	mon.Scribble(q)
	if ch := mon.CanariesChanged(); len(ch) > 0 {
		r.Violate("C04:result-aliases-global", fmt.Sprintf("writing into the decoded packet changed process-wide values %v: the decoder handed out shared storage", ch), rp)
		return
	}
	nt := len(e.Instances)+min(e.Pads, 1)+b2i(e.Trailing > 0) >= 2
	r.Shape("acc:"+e.Shape(), nt)
	if nt && r.NSamples() < 4 && len(b) < 330 {
		r.Sample(map[string]any{"src": src, "options_area": mon.Hex(b[240:]), "verdict": "accept", "shape": e.Shape()})
	}
}

func b2i(b bool) int {
	if b {
		return 1
	}
	return 0
}

func trunc(s string) string {
	if len(s) > 500 {
		return s[:500] + "…"
	}
	return s
}

var alphabet = []byte{0, 1, 2, 3, 53, 61, 82, 255}

func TestCheck(t *testing.T) {
	r := mon.New("C04")
	defer r.Flush()
	if os.Getenv("VERIF_REPLAY") == "" {
		r.Watchdog(20 * time.Second)
	}
	var rp replay
	if mon.ReplayCase(&rp) {
		judge(r, "replay", mon.UnHex(rp.Wire))
		return
	}
	// (1) exhaustive small scope: every options area over the alphabet up to length L
	L := r.Pick(6, 8)
	buf := append([]byte{}, header...)
	total := 0
	var rec func(depth int, idx int)
	area := make([]byte, 0, L)
	// shard on the first two symbols
	for n := 0; n <= L; n++ {
		cnt := 1
		for i := 0; i < n; i++ {
			cnt *= len(alphabet)
		}
		total += cnt
	}
	rec = func(depth, first int) {
		judge(r, "enum", append(buf[:240:240], area...))
		if depth == L {
			return
		}
		for _, s := range alphabet {
			area = append(area, s)
			rec(depth+1, first)
			area = area[:len(area)-1]
		}
	}
	// top level: distribute first-two-symbol prefixes over shards
	if r.Shard == 0 {
		judge(r, "enum", buf[:240:240])
		for _, s := range alphabet {
			judge(r, "enum", append(buf[:240:240], s))
		}
	}
	k := 0
	for _, s1 := range alphabet {
		for _, s2 := range alphabet {
			if r.Mine(k) {
				area = append(area[:0], s1, s2)
				rec(2, k)
			}
			k++
		}
	}
	r.Set("enum_alphabet", alphabet)
	r.Set("enum_max_len", L)
	r.Set("enum_total_areas", total)
	r.Set("exhaustive", true)

	// (2) every truncation point of valid packets
	nt := r.Pick(50, 2000)
	for i := 0; i < nt; i++ {
		if !r.Mine(i) {
			continue
		}
		w, _ := gen4.WirePacket(r.Rand("trunc", i), 6)
		for cut := 0; cut <= len(w); cut++ {
			judge(r, "trunc", w[:cut])
		}
	}
	// (3) every value of each length byte and each cookie byte
	nl := r.Pick(20, 500)
	for i := 0; i < nl; i++ {
		if !r.Mine(i) {
			continue
		}
		w, e := gen4.WirePacket(r.Rand("lenbyte", i), 5)
		for c := 236; c < 240; c++ {
			for v := 0; v < 256; v++ {
				m := append([]byte{}, w...)
				m[c] = byte(v)
				judge(r, "cookie", m)
			}
		}
		// locate length bytes by walking like the reference
		pos := 240
		for range e.Instances {
			for w[pos] == 0 {
				pos++
			}
			lp := pos + 1
			for v := 0; v < 256; v++ {
				m := append([]byte{}, w...)
				m[lp] = byte(v)
				judge(r, "lenbyte", m)
			}
			pos += 2 + int(w[lp])
		}
		// hlen 0..255
		for v := 0; v < 256; v++ {
			m := append([]byte{}, w...)
			m[2] = byte(v)
			judge(r, "hlen", m)
		}
	}
	// (3a) what is left when the options area is empty or blank: every opcode class x cookie variants x tails (nothing,
	//      pad bytes only, End, End and padding, junk) x lengths, over an all-zero and over a filled header
	if r.Shard == 0 {
		cookies := [][]byte{{99, 130, 83, 99}, {0, 0, 0, 0}, {255, 255, 255, 255}, {99, 83, 130, 99}, {99, 130, 83, 0}, {0, 130, 83, 99}, {99, 130, 83, 100}}
		tails := [][]byte{nil, {0}, make([]byte, 4), make([]byte, 60), make([]byte, 336), {255}, append([]byte{255}, make([]byte, 59)...), append(make([]byte, 59), 255), {255, 255}, {1}, {53}, {53, 1}, {53, 0}}
		nh := 0
		for _, filled := range []bool{false, true} {
			for _, op := range []byte{0, 1, 2, 3, 255} {
				for _, ck := range cookies {
					for _, tl := range tails {
						m := make([]byte, 240, 240+len(tl))
						if filled {
							copy(m, header)
						}
						m[0] = op
						copy(m[236:], ck)
						judge(r, "blank-area", append(m, tl...))
						nh++
					}
				}
			}
		}
		r.Set("blank_area_family", nh)
	}
	// (3b) committed corpus: replay + mutants
	corp := mon.Corpus("v4")
	for i, b := range corp {
		if !r.Mine(i) {
			continue
		}
		judge(r, "corpus", b)
		rng := r.Rand("corpus", i)
		for k := 0; k < r.Pick(3, 40); k++ {
			judge(r, "corpus-mut", gen4.Mutate(rng, b, nil))
		}
	}
	r.Set("corpus_entries", len(corp))
	// (3b) large option areas (60 kB to 1 MB: many options of up to 4096 octets, as the library's encoder writes them),
	//      whole and cut at a few points
	nl2 := r.Pick(48, 2000)
	for i := 0; i < nl2; i++ {
		if !r.Mine(i) {
			continue
		}
		rng := r.Rand("large", i)
		p, e := gen4.Packet(rng, 2)
		gen4.LargeTotal(rng, p, e)
		w := p.ToBytes()
		judge(r, "large", w)
		for k := 0; k < 3; k++ {
			judge(r, "large-cut", w[:240+rng.IntN(len(w)-240)])
		}
	}
	r.Set("large_total_cases", nl2)
	// (4) generated non-canonical packets and structure-aware mutants
	ng := r.Pick(50000, 6000000)
	var prev []byte
	for i := 0; i < ng; i++ {
		if !r.Mine(i) {
			continue
		}
		rng := r.Rand("mut", i)
		w, e := gen4.WirePacket(rng, 8)
		// the generator's own expectation must agree with the reference (self-check of the oracle)
		if g, ok, why := ref4.Decode(w); !ok || g.Canon() != e.Canon() {
			r.Violate("C04:HARNESS-generator-vs-reference", "generator and reference disagree: "+why, replay{mon.Hex(w), "gen"})
		}
		judge(r, "gen", w)
		m := w
		for k := 0; k < 1+rng.IntN(3); k++ {
			m = gen4.Mutate(rng, m, prev)
		}
		judge(r, "mut", m)
		prev = w
	}
}
