package c04

import (
	"testing"

	"verif/harness/gen4"
	"verif/harness/mon"
)

func FuzzC04(f *testing.F) {
	f.Add(append(append([]byte{}, header...), 53, 1, 1, 255))
	seedRec := mon.New("C04")
	for i := 0; i < 200; i++ {
		w, _ := gen4.WirePacket(seedRec.Rand("fuzzseed", i), 6)
		f.Add(w)
	}
	f.Fuzz(func(t *testing.T, b []byte) {
		if len(b) > 1500 {
			return
		}
		r := mon.New("C04")
		judge(r, "fuzz", b)
		if r.NViolations() > 0 {
			t.Fatalf("violation on %x", b)
		}
	})
}
