package c06

import (
	"testing"

	"verif/harness/gen4"
	"verif/harness/mon"
	"verif/harness/proj"
	"verif/harness/ref6"
)

func FuzzC06v6(f *testing.F) {
	proj.CutV4Names, ref6.CutV4Names = true, true
	f.Add([]byte{1, 2, 3, 4, 0, 6, 0, 4, 0, 23, 0, 23})
	seedRec := mon.New("C06")
	for i := 0; i < 300; i++ {
		f.Add(nonCanon6(seedRec.Rand("fuzzseed", i)))
	}
	f.Fuzz(func(t *testing.T, b []byte) {
		if len(b) > 4096 {
			return
		}
		r := mon.New("C06")
		judge6(r, "fuzz", b)
		if r.NViolations() > 0 {
			t.Fatalf("violation on %x", b)
		}
	})
}

func FuzzC06v4(f *testing.F) {
	proj.CutV4Names, ref6.CutV4Names = true, true
	seedRec := mon.New("C06")
	for i := 0; i < 200; i++ {
		w, _ := gen4.WirePacket(seedRec.Rand("fuzzseed4", i), 6)
		f.Add(w)
	}
	f.Fuzz(func(t *testing.T, b []byte) {
		if len(b) > 1500 {
			return
		}
		r := mon.New("C06")
		judge4(r, "fuzz", b)
		if r.NViolations() > 0 {
			t.Fatalf("violation on %x", b)
		}
	})
}
