package c06

import (
	"bytes"
	"fmt"
	"math/rand/v2"
	"os"
	"sort"
	"strings"
	"testing"
	"time"

	"github.com/insomniacslk/dhcp/dhcpv4"
	"github.com/insomniacslk/dhcp/dhcpv6"
	"verif/harness/gen4"
	"verif/harness/gen6"
	"verif/harness/mon"
	"verif/harness/proj"
	"verif/harness/ref4"
	"verif/harness/ref6"
	"verif/harness/reflabel"
	"verif/harness/tree"
	"verif/harness/v6util"
)

type replay struct {
	Fam  string `json:"fam"` // "v4" | "v6"
	Wire string `json:"wire"`
	Src  string `json:"src"`
}

func cutNames(p *ref4.P4) *ref4.P4 {
	c := *p
	if len(c.SName) > 63 {
		c.SName = c.SName[:63]
	}
	if len(c.File) > 127 {
		c.File = c.File[:127]
	}
	return &c
}

func judge4(r *mon.Rec, src string, b []byte) {
	r.Current(map[string]any{"fam": "v4", "wire": mon.HexBytes(b), "src": src})
	r.Eval(1)
	rp := replay{"v4", mon.Hex(b), src}
	var m1, m2 *dhcpv4.DHCPv4
	var b1, b2 []byte
	var e1, e2 error
	pan, val, st := mon.Guard(func() {
		m1, e1 = dhcpv4.FromBytes(b)
		if e1 != nil {
			return
		}
		if len(b)%3 == 0 { // logged before it is passed on
			_, _ = m1.Summary(), m1.String()
		}
		b1 = m1.ToBytes()
		m2, e2 = dhcpv4.FromBytes(b1)
		if e2 != nil {
			return
		}
		b2 = m2.ToBytes()
	})
	if pan {
		r.Violate("C06:v4:panic:"+mon.LibFrame(st), fmt.Sprint(val), rp)
		return
	}
	if e1 != nil {
		r.Count("v4.rejected", 1)
		return
	}
	r.Count("v4.accepted", 1)
	if e2 != nil {
		r.Violate("C06:v4:reencoding-rejected", fmt.Sprintf("re-encoded packet does not decode: %v", e2), rp)
		return
	}
	p1, _ := proj.P4(m1)
	p2, _ := proj.P4(m2)
	if cutNames(p1).Canon() != p2.Canon() {
		r.Violate("C06:v4:message-changed", "decode(encode(decode(b))) differs: "+tree.Diff(cutNames(p1).Canon(), p2.Canon()), rp)
		return
	}
	if !bytes.Equal(b1, b2) {
		r.Violate("C06:v4:second-encoding-differs", "encode(decode(b1)) != b1", rp)
		return
	}
	// meaning preserved according to the independent decoder
	if ea, ok, _ := ref4.Decode(b); ok {
		eb, ok2, why := ref4.Decode(b1)
		if !ok2 {
			r.Violate("C06:v4:reencoding-not-wellformed", "reference decoder rejects the re-encoding: "+why, rp)
			return
		}
		if cutNames(ea).Canon() != eb.Canon() {
			r.Violate("C06:v4:meaning-changed", "re-encoding changes the RFC reading: "+tree.Diff(cutNames(ea).Canon(), eb.Canon()), rp)
			return
		}
		nc := !bytes.Equal(b, b1)
		r.Shape(fmt.Sprintf("v4:%s nc=%v", ea.Shape(), nc), nc)
		if nc {
			r.Count("v4.noncanonical", 1)
			if r.NSamples() < 2 && len(b) < 320 {
				r.Sample(map[string]any{"fam": "v4", "src": src, "options_area_in": mon.Hex(b[240:]), "options_area_reencoded": mon.Hex(b1[240:min(len(b1), 330)])})
			}
		}
	}
}

func judge6(r *mon.Rec, src string, b []byte) {
	r.Current(map[string]any{"fam": "v6", "wire": mon.HexBytes(b), "src": src})
	r.Eval(1)
	rp := replay{"v6", mon.Hex(b), src}
	var m1, m2 dhcpv6.DHCPv6
	var b1, b2 []byte
	var e1, e2 error
	var t1, t2 string
	pan, val, st := mon.Guard(func() {
		m1, e1 = dhcpv6.FromBytes(b)
		if e1 != nil {
			return
		}
		t1 = proj.M6(m1).String()
		if len(b)%3 == 0 { // a relay or server that logs what it received before passing it on (the library's own debug loggers do)
			_, _ = m1.Summary(), m1.String()
		}
		b1 = m1.ToBytes()
		m2, e2 = dhcpv6.FromBytes(b1)
		if e2 != nil {
			return
		}
		t2 = proj.M6(m2).String()
		b2 = m2.ToBytes()
	})
	if pan {
		r.Violate("C06:v6:panic:"+mon.LibFrame(st), fmt.Sprint(val), rp)
		return
	}
	if e1 != nil {
		r.Count("v6.rejected", 1)
		return
	}
	r.Count("v6.accepted", 1)
	if len(b1) > 65535 {
		return
	}
	if e2 != nil {
		r.Violate("C06:v6:reencoding-rejected:"+kindOfErr(e2), fmt.Sprintf("re-encoded message does not decode: %v; m1=%s", e2, trunc(t1)), rp)
		return
	}
	if t1 != t2 {
		r.Violate("C06:v6:message-changed:"+tree.KindAt(t1, t2), "decode(encode(decode(b))) differs: "+tree.Diff(t1, t2), rp)
		return
	}
	if !bytes.Equal(b1, b2) {
		r.Violate("C06:v6:second-encoding-differs", "encode(decode(b1)) != b1 (lengths "+fmt.Sprint(len(b1), len(b2))+")", rp)
		return
	}
	ra := ref6.Decode(b)
	nc := !bytes.Equal(b, b1)
	if ra.V == ref6.Accept {
		rb := ref6.Decode(b1)
		if rb.V == ref6.Reject {
			r.Violate("C06:v6:reencoding-not-wellformed:"+rb.Why, "reference decoder rejects the re-encoding: "+rb.Why, rp)
			return
		}
		if rb.V == ref6.Accept {
			if sa, sb := ra.Tree.String(), rb.Tree.String(); sa != sb {
				r.Violate("C06:v6:meaning-changed:"+tree.KindAt(sa, sb), "re-encoding changes the RFC reading: "+tree.Diff(sa, sb), rp)
				return
			}
		}
		paths := ra.Tree.Paths()
		sort.Strings(paths)
		r.Shape("v6:"+strings.Join(dedup(paths), ",")+fmt.Sprint(nc), nc || ra.Tree.Depth() >= 3)
	} else {
		r.Count("v6.ref-"+ra.V.String(), 1)
		r.Shape("v6:gray:"+ra.Why+fmt.Sprint(nc), nc)
	}
	if nc {
		r.Count("v6.noncanonical", 1)
		if r.NSamples() < 6 && len(b) < 80 {
			r.Sample(map[string]any{"fam": "v6", "src": src, "in": mon.Hex(b), "reencoded": mon.Hex(b1), "tree": t1})
		}
	}
}

func kindOfErr(err error) string {
	s := err.Error()
	if len(s) > 40 {
		s = s[:40]
	}
	return strings.Map(func(r rune) rune {
		if r >= '0' && r <= '9' {
			return -1
		}
		return r
	}, s)
}

func dedup(s []string) []string {
	var out []string
	for i, x := range s {
		if i == 0 || x != s[i-1] {
			out = append(out, x)
		}
	}
	return out
}

func trunc(s string) string {
	if len(s) > 400 {
		return s[:400] + "…"
	}
	return s
}

func tlv(code int, v []byte) []byte {
	return append([]byte{byte(code >> 8), byte(code), byte(len(v) >> 8), byte(len(v))}, v...)
}

func be32(v uint32) []byte { return []byte{byte(v >> 24), byte(v >> 16), byte(v >> 8), byte(v)} }

// nonCanon6 builds accepted-but-non-canonical DHCPv6 encodings by hand.
func nonCanon6(r *rand.Rand) []byte { return gen6.NonCanonical(r) }

// v4With119: a minimal DHCPv4 packet whose domain search option (119) is w
func v4With119(w []byte) []byte {
	b := make([]byte, 240)
	b[0], b[1], b[2] = 1, 1, 6
	copy(b[236:], []byte{99, 130, 83, 99})
	b = append(b, 53, 1, 1, 119, byte(len(w)))
	b = append(b, w...)
	return append(b, 255)
}

func TestCheck(t *testing.T) {
	r := mon.New("C06")
	defer r.Flush()
	if os.Getenv("VERIF_REPLAY") == "" {
		r.Watchdog(20 * time.Second)
	}
	proj.CutV4Names, ref6.CutV4Names = true, true
	var rp replay
	if mon.ReplayCase(&rp) {
		if rp.Fam == "v4" {
			judge4(r, "replay", mon.UnHex(rp.Wire))
		} else {
			judge6(r, "replay", mon.UnHex(rp.Wire))
		}
		return
	}
	typed := v6util.TypedCodes()
	isTyped := func(c int) bool { _, ok := typed[c]; return ok }
	// DHCPv4: non-canonical generated packets and their mutants
	n4 := r.Pick(100000, 5000000)
	var prev []byte
	for i := 0; i < n4; i++ {
		if !r.Mine(i) {
			continue
		}
		rng := r.Rand("v4", i)
		w, _ := gen4.WirePacket(rng, 8)
		judge4(r, "gen", w)
		m := w
		for k := 0; k < 1+rng.IntN(2); k++ {
			m = gen4.Mutate(rng, m, prev)
		}
		judge4(r, "mut", m)
		prev = w
	}
	// committed corpus: replay + mutants
	c4, c6 := mon.Corpus("v4"), mon.Corpus("v6")
	for i, b := range c4 {
		if r.Mine(i) {
			judge4(r, "corpus", b)
			rng := r.Rand("corpus4", i)
			for k := 0; k < r.Pick(2, 30); k++ {
				judge4(r, "corpus-mut", gen4.Mutate(rng, b, nil))
			}
		}
	}
	for i, b := range c6 {
		if r.Mine(i) {
			judge6(r, "corpus", b)
			rng := r.Rand("corpus6", i)
			lf := ref6.Decode(b).LenFields
			for k := 0; k < r.Pick(2, 30); k++ {
				judge6(r, "corpus-mut", gen6.Mutate(rng, b, lf, nil))
			}
		}
	}
	r.Set("corpus_entries", len(c4)+len(c6))
	// DHCPv6: hand-built non-canonical encodings
	n6 := r.Pick(60000, 4000000)
	for i := 0; i < n6; i++ {
		if !r.Mine(i) {
			continue
		}
		rng := r.Rand("v6nc", i)
		judge6(r, "noncanon", nonCanon6(rng))
	}
	// name lists of equal length and equal checksum, one after the other (a table of encodings seen before that is
	// keyed by a checksum gives the second the names of the first)
	if r.Shard == 0 {
		for _, pr := range reflabel.Colliding() {
			for _, w := range [][]byte{pr.A, pr.B, pr.A} {
				judge6(r, "name-collision", append([]byte{3, 9, 8, 7, 0, 24, byte(len(w) >> 8), byte(len(w))}, w...))
				judge6(r, "name-collision", append([]byte{7, 9, 8, 7, 0, 39, 0, byte(len(w) + 1), 1}, w...))
				judge4(r, "name-collision", v4With119(w))
			}
		}
	}
	// typed option codes without a generator: arbitrary payloads, the accepted ones must be fixpoints
	k0 := 0
	for _, c := range v6util.SortedCodes(typed) {
		if gen6.HasGenerator(c) {
			continue
		}
		for j := 0; j < r.Pick(2000, 40000); j++ {
			if r.Mine(k0) {
				judge6(r, "untyped", gen6.Untyped(r.Rand(fmt.Sprintf("untyped%d", c), j), c))
			}
			k0++
		}
	}
	// DHCPv6: generated messages and mutants that stay acceptable
	n6g := r.Pick(40000, 3000000)
	var prev6 []byte
	for i := 0; i < n6g; i++ {
		if !r.Mine(i) {
			continue
		}
		rng := r.Rand("v6gen", i)
		g := gen6.New(rng, isTyped)
		g.Budget = 4 + rng.IntN(30)
		m, _ := g.Chain(rng.IntN(4), 0)
		w := m.ToBytes()
		if len(w) > 4096 {
			continue
		}
		judge6(r, "gen", w)
		lf := ref6.Decode(w).LenFields
		x := w
		for k := 0; k < 1+rng.IntN(2); k++ {
			x = gen6.Mutate(rng, x, lf, prev6)
		}
		judge6(r, "mut", x)
		prev6 = w
	}
}
