package c06

import (
	"os"
	"sync"
	"testing"
	"time"

	"verif/harness/gen4"
	"verif/harness/gen6"
	"verif/harness/mon"
	"verif/harness/proj"
	"verif/harness/ref6"
	"verif/harness/v6util"
)

// TestConc is the same fixpoint monitor driven from 16 goroutines at once, every goroutine on inputs and values of
// its own.  "For every byte string" does not depend on what other goroutines of the program decode and encode at the
// same moment: the codec has no business sharing mutable state between unrelated values (scratch buffers handed back
// to a pool before the caller has copied them, memo tables, counters).  The oracle is unchanged -- a wrong result is
// a violation whatever caused it.
func TestConc(t *testing.T) {
	r := mon.New("C06")
	defer r.Flush()
	if os.Getenv("VERIF_REPLAY") == "" {
		r.Watchdog(30 * time.Second)
	}
	proj.CutV4Names, ref6.CutV4Names = true, true
	var rp replay
	if mon.ReplayCase(&rp) {
		if rp.Fam == "v4" {
			judge4(r, "replay", mon.UnHex(rp.Wire))
		} else {
			judge6(r, "replay", mon.UnHex(rp.Wire))
		}
		return
	}
	typed := v6util.TypedCodes()
	isTyped := func(c int) bool { _, ok := typed[c]; return ok }
	n := r.Pick(60000, 3000000)
	work := make(chan int, 256)
	var wg sync.WaitGroup
	const G = 16
	for g := 0; g < G; g++ {
		wg.Add(1)
		go func() {
			defer wg.Done()
			for i := range work {
				rng := r.Rand("conc", i)
				switch i % 4 {
				case 0:
					w, _ := gen4.WirePacket(rng, 8)
					judge4(r, "conc-gen", w)
				case 1:
					judge6(r, "conc-noncanon", nonCanon6(rng))
				default:
					gg := gen6.New(rng, isTyped)
					gg.Budget = 4 + rng.IntN(30)
					m, _ := gg.Chain(rng.IntN(4), 0)
					w := m.ToBytes()
					if len(w) <= 4096 {
						judge6(r, "conc-gen", w)
					}
				}
			}
		}()
	}
	for i := 0; i < n; i++ {
		if r.Mine(i) {
			work <- i
		}
	}
	close(work)
	wg.Wait()
	r.Set("concurrent_goroutines", G)
}
