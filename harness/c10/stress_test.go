package c10

import (
	"fmt"
	"testing"
	"time"

	"verif/harness/cli"
	"verif/harness/cstress"
	"verif/harness/mon"
)

type sreplay struct {
	Stress int    `json:"stress_idx"`
	Fam    string `json:"fam"`
}

// TestStress: real-time histories under the race detector, checked offline with schedule-independent conditions.
func TestStress(t *testing.T) {
	r := mon.New("C10")
	defer r.Flush()
	// thundering herd: concurrent calls with one transaction id; at most one may be admitted
	for _, fm := range []string{"nclient4", "nclient6"} {
		rounds := r.Pick(1500, 60000)
		bad, maxAdm, detail := cstress.Herd(fam(fm), rounds, 8)
		r.Eval(rounds)
		r.Count("herd.rounds", rounds)
		r.Max("herd.max_admitted", int64(maxAdm))
		if bad > 0 {
			r.Violate("C10:stress:pending-xid-shared", fmt.Sprintf("%s: in %d of %d rounds more than one call was admitted; %s", fm, bad, rounds, detail), sreplay{-1, fm})
		}
	}
	n := r.Pick(2000, 150000)
	var srp sreplay
	only := -2
	if mon.ReplayCase(&srp) { // re-run one recorded history (schedules differ from run to run: it is repeated 50 times)
		only = srp.Stress
		n = 50
	}
	for j := 0; j < n; j++ {
		i := j
		if only >= 0 {
			i = only
		} else if !r.Mine(i) {
			continue
		}
		fm := []string{"nclient4", "nclient6"}[i%2]
		f := fam(fm)
		rng := r.Rand("stress", i)
		o := cstress.Opts{Callers: 8, PerCaller: 3 + rng.IntN(5), XidPool: 2 + rng.IntN(8), CloseMid: i%7 == 6, T: time.Duration(2+rng.IntN(8)) * time.Millisecond, Cfg: rng.IntN(cli.NCfg), Tries: []int{1, 1, 2, 3, 1, 1}[i%6]}
		h := cstress.Run(f, rng, o)
		r.Eval(1)
		accept := func(matcher string, d *cstress.Dgram, _ string) bool {
			switch matcher {
			case "nil":
				return true
			case "typed", "block":
				return d.Type == f.AcceptType()
			}
			return false
		}
		fs := cstress.CheckC10(h, accept)
		for _, fd := range fs {
			r.Violate("C10:stress:"+fd.Key, fd.Msg, sreplay{i, fm})
		}
		if len(h.Stuck) > 0 {
			r.Inconclusive("stress history hit the 20 s watchdog (judged by C11)")
			break // do not pay the watchdog again for every further history of this shard
		}
		if len(fs) > 0 {
			continue
		}
		overlap := 0
		for _, c := range h.Calls {
			r.Count("stress.call."+c.ErrKind, 1)
			if c.ErrKind == "ok" || c.ErrKind == "inuse" {
				overlap++
			}
		}
		classes := map[string]int{}
		for _, d := range h.Dgrams {
			if d.RetSeq > 0 {
				classes[d.Class]++
				r.Count("stress.delivered."+d.Class, 1)
			}
		}
		r.Count("stress.events", h.Events)
		r.Count("stress.hook_hits", h.HookHits)
		r.Count("stress.matcher_invocations", len(h.Matches))
		r.Shape(fmt.Sprintf("%s/%x", fm, h.OrderHash), overlap >= 2)
		if r.NSamples() < 3 {
			r.Sample(map[string]any{"stress_history": i, "fam": fm, "calls": len(h.Calls), "datagrams_delivered": classes, "events": h.Events, "hook_hits": h.HookHits})
		}
	}
}
