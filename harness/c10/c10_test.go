package c10

import (
	"context"
	"fmt"
	"math/rand/v2"
	"net"
	"os"
	"sort"
	"strings"
	"sync/atomic"
	"testing"
	"testing/synctest"
	"time"

	"verif/harness/cli"
	"verif/harness/mon"
	"verif/harness/sconn"
)

func fam(name string) cli.Family {
	if name == "nclient4" {
		return cli.V4{}
	}
	return cli.V6{}
}

var dest = &net.UDPAddr{IP: net.IPv4bcast, Port: 67}

// where a datagram comes from is nobody's business: the server port, other ports, other addresses, no address
var froms = []net.Addr{dest, &net.UDPAddr{IP: net.IP{10, 0, 0, 7}, Port: 4011}, &net.UDPAddr{IP: net.ParseIP("fe80::1"), Port: 547, Zone: "eth0"}, &net.UDPAddr{IP: net.IP{10, 0, 0, 9}, Port: 68}, &net.UDPAddr{Port: 1}}

const T = 100 * time.Millisecond

type step struct {
	Op      string `json:"op"` // start inject advance cancel close gap
	Call    int    `json:"call,omitempty"`
	Xid     uint32 `json:"xid,omitempty"`
	Matcher string `json:"matcher,omitempty"` // nil typed reject
	Tries   int    `json:"tries,omitempty"`
	Class   string `json:"class,omitempty"`
	Type    int    `json:"type,omitempty"`
	Nonce   int    `json:"nonce,omitempty"`
	Dur     int64  `json:"dur,omitempty"` // nanoseconds
	On      bool   `json:"on,omitempty"`
	Copy    bool   `json:"copy,omitempty"` // inject: the very octets of an earlier datagram once more (same nonce)
	Own     int    `json:"own,omitempty"`  // start: what the caller does to the message it is handed (cli.Resp.Own)
}

type scriptT struct {
	Fam   string `json:"fam"`
	Gap   bool   `json:"gap"`
	Cfg   int    `json:"cfg"` // client logging configuration (cli.NewCfg)
	Steps []step `json:"steps"`
}

type result struct {
	again    func() cli.Resp
	Returned bool
	At       time.Duration
	Kind     string // ok noresp ctx inuse other nilnil
	Nonce    int
	Err      string
}

// ---------- script generation ----------

func genScript(rng *rand.Rand, famName string, gap bool) scriptT {
	f := fam(famName)
	sc := scriptT{Fam: famName, Gap: gap, Cfg: rng.IntN(cli.NCfg)}
	nsteps := 5 + rng.IntN(36)
	ncalls := 0
	maxCalls := 1 + rng.IntN(8)
	pool := 1 + rng.IntN(3)
	nonce := 0
	started := []int{}
	classes := f.Classes()
	var earlier []step
	for i := 0; i < nsteps; i++ {
		k := rng.IntN(10)
		switch {
		case (k < 3 || len(started) == 0) && ncalls < maxCalls:
			ncalls++
			st := step{Op: "start", Call: ncalls, Xid: uint32(1 + rng.IntN(pool)), Matcher: []string{"nil", "typed", "typed", "reject", "lib-accept", "lib-other", "second"}[rng.IntN(7)], Tries: 1 + rng.IntN(2)}
			if rng.IntN(3) == 0 {
				st.Own = 1 + rng.IntN(2)
			}
			sc.Steps = append(sc.Steps, st)
			started = append(started, ncalls)
		case k < 7:
			nonce++
			cls := classes[rng.IntN(len(classes))]
			if rng.IntN(2) == 0 {
				cls = "matching"
			}
			st := step{Op: "inject", Class: cls, Xid: uint32(1 + rng.IntN(pool)), Type: f.AcceptType(), Nonce: nonce}
			if cls == "other-type" {
				st.Type = f.OtherType()
			}
			if rng.IntN(8) == 0 && len(earlier) > 0 { // duplicate of an earlier datagram (new nonce, same content otherwise)
				d := earlier[rng.IntN(len(earlier))]
				st.Class, st.Xid, st.Type = d.Class, d.Xid, d.Type
			}
			if rng.IntN(5) == 0 && len(earlier) > 0 { // the same octets once more: mostly the datagram just before
				d := earlier[len(earlier)-1]
				if rng.IntN(3) == 0 {
					d = earlier[rng.IntN(len(earlier))]
				}
				nonce--
				st = d
				st.Copy = true
			}
			earlier = append(earlier, st)
			sc.Steps = append(sc.Steps, st)
		case k < 9:
			// advances are multiples of 10 ms plus 1 ns, so that script events never coincide with a try deadline
			d := time.Duration(1+rng.IntN(12))*10*time.Millisecond + time.Nanosecond
			if rng.IntN(6) == 0 {
				d = time.Duration(1+rng.IntN(40))*10*time.Millisecond + time.Nanosecond
			}
			sc.Steps = append(sc.Steps, step{Op: "advance", Dur: int64(d)})
		default:
			if len(started) > 0 {
				sc.Steps = append(sc.Steps, step{Op: "cancel", Call: started[rng.IntN(len(started))]})
			}
		}
		if gap && rng.IntN(5) == 0 {
			sc.Steps = append(sc.Steps, step{Op: "gap", On: rng.IntN(3) != 0, Dur: int64(time.Duration(1+rng.IntN(3)) * 10 * time.Millisecond)})
		}
		if rng.IntN(40) == 0 {
			sc.Steps = append(sc.Steps, step{Op: "close"})
			break
		}
	}
	return sc
}

// the schedule that exposed the foreign-cancel defect, with variations
func gapCore(rng *rand.Rand, famName string) scriptT {
	f := fam(famName)
	x := uint32(1 + rng.IntN(2))
	g := int64(10 * time.Millisecond)
	s := []step{
		{Op: "start", Call: 1, Xid: x, Matcher: "nil", Tries: 1},
		{Op: "gap", On: true, Dur: g},
		{Op: "inject", Class: "matching", Xid: x, Type: f.AcceptType(), Nonce: 1},
		{Op: "inject", Class: "matching", Xid: x, Type: f.AcceptType(), Nonce: 2},
		{Op: "gap", On: false},
		{Op: "start", Call: 2, Xid: x, Matcher: []string{"nil", "typed"}[rng.IntN(2)], Tries: 1},
		{Op: "advance", Dur: g + 1},
		{Op: "inject", Class: "matching", Xid: x, Type: f.AcceptType(), Nonce: 3},
		{Op: "advance", Dur: int64(2*T) + 1},
	}
	if rng.IntN(2) == 0 { // no duplicate: B must then be refused
		s = append(s[:3], s[4:]...)
	}
	return scriptT{Fam: famName, Gap: true, Steps: s}
}

// ---------- sequential model (deterministic scripts, no gap) ----------

type mcall struct {
	shown          int // "second": how many datagrams of the acceptable type the matcher has been shown
	id, tries, try int
	xid            uint32
	matcher        string
	waiting        bool
	deadline       time.Duration
	res            result
	tx             int
}

type model struct {
	now     time.Duration
	calls   map[int]*mcall
	pending map[uint32]*mcall
	closed  bool
	f       cli.Family
}

func (m *model) finish(c *mcall, kind string, nonce int) {
	c.waiting = false
	if m.pending[c.xid] == c {
		delete(m.pending, c.xid)
	}
	c.res = result{Returned: true, At: m.now, Kind: kind, Nonce: nonce}
}

func (m *model) accepts(c *mcall, typ int) bool {
	switch c.matcher {
	case "nil":
		return true
	case "typed", "lib-accept":
		return typ == m.f.AcceptType()
	case "lib-other":
		return typ == m.f.OtherType()
	case "second": // a matcher with a memory: every datagram is shown to it exactly once; it takes the second acceptable one
		if typ == m.f.AcceptType() {
			c.shown++
			return c.shown >= 2
		}
	}
	return false
}

func (m *model) apply(st step) {
	switch st.Op {
	case "start":
		c := &mcall{id: st.Call, tries: st.Tries, xid: st.Xid, matcher: st.Matcher}
		m.calls[st.Call] = c
		if m.closed {
			c.res = result{Returned: true, At: m.now, Kind: "closed"}
			return
		}
		if m.pending[c.xid] != nil {
			c.res = result{Returned: true, At: m.now, Kind: "inuse"}
			return
		}
		m.pending[c.xid] = c
		c.waiting, c.try, c.deadline, c.tx = true, 0, m.now+T, 1
	case "inject":
		if m.closed || (st.Class != "matching" && st.Class != "other-type") {
			return // undecodable / foreign / wrong id / wrong opcode / wrong hardware address: dropped
		}
		c := m.pending[st.Xid]
		if c == nil {
			return // unsolicited
		}
		if m.accepts(c, st.Type) {
			m.finish(c, "ok", st.Nonce)
		}
	case "advance":
		end := m.now + time.Duration(st.Dur)
		for {
			var next *mcall
			for _, c := range m.calls {
				if c.waiting && c.deadline <= end && (next == nil || c.deadline < next.deadline || (c.deadline == next.deadline && c.id < next.id)) {
					next = c
				}
			}
			if next == nil {
				break
			}
			m.now = next.deadline
			next.try++
			if next.try < next.tries {
				next.deadline = m.now + T*time.Duration(int64(1)<<uint(next.try))
				next.tx++
			} else {
				m.finish(next, "noresp", 0)
			}
		}
		m.now = end
	case "cancel":
		if c := m.calls[st.Call]; c != nil && c.waiting {
			m.finish(c, "ctx", 0)
		}
	case "close":
		m.closed = true
		ids := []int{}
		for id, c := range m.calls {
			if c.waiting {
				ids = append(ids, id)
			}
		}
		sort.Ints(ids)
		for _, id := range ids {
			m.finish(m.calls[id], "noresp", 0)
		}
	}
}

// ---------- execution against the real client in virtual time ----------

var gapSleep atomic.Int64

func execute(t *testing.T, sc scriptT) (res map[int]*result, tx int, matcherNil int, startStep map[int]int, hookHits int) {
	f := fam(sc.Fam)
	res = map[int]*result{}
	startStep = map[int]int{}
	var hits atomic.Int64
	hk := func(p string) {
		hits.Add(1)
		if d := gapSleep.Load(); d > 0 {
			time.Sleep(time.Duration(d))
		}
	}
	installHook(f)
	curHook.Store(&hk)
	defer curHook.Store(nil)
	gapSleep.Store(0)
	var nilCnt atomic.Int64
	synctest.Test(t, func(t *testing.T) {
		conn := sconn.New(0)
		// tries are a client-level setting: one client per distinct try count, sharing... no: one client, tries fixed per script
		tries := 1
		for _, st := range sc.Steps {
			if st.Op == "start" {
				tries = st.Tries
				break
			}
		}
		c, err := f.NewCfg(conn, T, tries, sc.Cfg)
		if err != nil {
			t.Fatal(err)
		}
		start := time.Now()
		shared := cli.NewSharedTypes()
		cancels := map[int]context.CancelFunc{}
		done := make(chan struct{}, 64)
		running := 0
		closed := false
		for si, st := range sc.Steps {
			switch st.Op {
			case "start":
				ctx, cancel := context.WithCancel(context.Background())
				cancels[st.Call] = cancel
				r := &result{}
				res[st.Call] = r
				startStep[st.Call] = si
				var m cli.MatchFn
				accept := f.AcceptType()
				switch st.Matcher {
				case "typed":
					m = func(rp cli.Resp) bool {
						if rp.Nil {
							nilCnt.Add(1)
							return false
						}
						return rp.Type == accept
					}
				case "reject":
					m = func(rp cli.Resp) bool {
						if rp.Nil {
							nilCnt.Add(1)
						}
						return false
					}
				case "second":
					shown := 0
					m = func(rp cli.Resp) bool {
						if rp.Nil {
							nilCnt.Add(1)
							return false
						}
						if rp.Type == accept {
							shown++
							return shown >= 2
						}
						return false
					}
				}
				req := f.Request(st.Xid, 0)
				switch st.Matcher {
				case "lib-accept": // the library's own matcher constructor, its variadic tail spread from one kept list
					req.Lib = &cli.LibMatch{First: accept, Rest: shared}
				case "lib-other":
					req.Lib = &cli.LibMatch{First: f.OtherType(), Rest: shared}
				}
				if req.Lib != nil {
					m = func(rp cli.Resp) bool {
						if rp.Nil {
							nilCnt.Add(1)
						}
						return false
					}
				}
				running++
				go func() {
					rp, got, err := c.SendAndRead(ctx, dest, req, m)
					r.At = time.Since(start)
					switch {
					case err == nil && got && rp.Damaged:
						r.Kind, r.Nonce = "damaged", rp.Nonce // not the bytes of the datagram that arrived
					case err == nil && got:
						r.Kind, r.Nonce = "ok", rp.Nonce
						r.again = rp.Again
						if st.Own != 0 { // the message is the caller's now
							rp.Own(st.Own, st.Xid%3+1)
							r.again = nil
						}
					case err == nil:
						r.Kind = "nilnil"
					case f.IsNoResponse(err):
						r.Kind = "noresp"
					case err == context.Canceled:
						r.Kind = "ctx"
					case f.IsInUse(err):
						r.Kind = "inuse"
					case strings.Contains(err.Error(), "use of closed network connection"):
						r.Kind = "closed"
					default:
						r.Kind, r.Err = "other", err.Error()
					}
					r.Returned = true
					done <- struct{}{}
				}()
			case "inject":
				if !closed {
					cls := st.Class
					if cls == "other-type" {
						cls = "matching"
					}
					conn.Inject(sconn.Datagram{B: f.Datagram(cls, st.Xid, st.Nonce, st.Type), From: froms[st.Nonce%len(froms)], Nonce: st.Nonce, Class: st.Class})
				}
			case "advance":
				time.Sleep(time.Duration(st.Dur))
			case "cancel":
				if cf := cancels[st.Call]; cf != nil {
					cf()
				}
			case "close":
				c.Close()
				closed = true
			case "gap":
				if st.On {
					gapSleep.Store(st.Dur)
				} else {
					gapSleep.Store(0)
				}
			}
			synctest.Wait()
		}
		gapSleep.Store(0)
		tx = len(conn.Writes())
		// end of script: cancel what is still waiting, close, wait for every call
		for _, cf := range cancels {
			cf()
		}
		synctest.Wait()
		time.Sleep(time.Second)
		synctest.Wait()
		if !closed {
			c.Close()
		}
		for i := 0; i < running; i++ {
			<-done
		}
	})
	return res, tx, int(nilCnt.Load()), startStep, int(hits.Load())
}

var curHook atomic.Pointer[func(string)]
var hookInstalled = map[string]bool{}

func installHook(f cli.Family) {
	if hookInstalled[f.Name()] {
		return
	}
	hookInstalled[f.Name()] = true
	f.SetHook(func(p string) {
		if h := curHook.Load(); h != nil {
			(*h)(p)
		}
	})
}

func judge(r *mon.Rec, t *testing.T, sc scriptT, tag string) {
	r.Current(sc)
	r.Eval(1)
	f := fam(sc.Fam)
	// all calls of one script use the same try count (client-level setting)
	tries := 0
	for i := range sc.Steps {
		if sc.Steps[i].Op == "start" {
			if tries == 0 {
				tries = sc.Steps[i].Tries
			}
			sc.Steps[i].Tries = tries
		}
	}
	var res map[int]*result
	var tx, mnil, hits int
	var startStep map[int]int
	pan, val, st := mon.Guard(func() { res, tx, mnil, startStep, hits = execute(t, sc) })
	if pan {
		s := fmt.Sprint(val)
		key := "panic"
		if strings.HasPrefix(s, "deadlock") {
			key = "deadlock"
		}
		r.Violate("C10:"+key+":"+mon.LibFrame(st), s, sc)
		return
	}
	bad := func(key, msg string, a ...any) {
		r.Violate("C10:"+tag+":"+key, sc.Fam+": "+fmt.Sprintf(msg, a...), sc)
	}
	if mnil > 0 {
		bad("matcher-got-nil", "a matcher was invoked with a nil message %d times", mnil)
		return
	}
	inj := map[int]step{}
	injStep := map[int]int{} // the last time these octets were injected
	injCount := map[int]int{}
	for i, s := range sc.Steps {
		if s.Op == "inject" {
			inj[s.Nonce] = s
			injStep[s.Nonce] = i
			injCount[s.Nonce]++
		}
	}
	callOf := map[int]step{}
	for _, s := range sc.Steps {
		if s.Op == "start" {
			callOf[s.Call] = s
		}
	}
	// what a call returned is the caller's: read again after all the later traffic of the script, it is still the
	// datagram it was
	for id, rr := range res {
		if rr.Kind == "ok" && rr.again != nil {
			if a := rr.again(); a.Nonce != rr.Nonce || a.Damaged {
				bad("returned-message-changed", "the message call %d returned (datagram %d) reads as datagram %d (trailer intact: %v) after the later traffic of the script", id, rr.Nonce, a.Nonce, !a.Damaged)
				return
			}
		}
	}
	// invariants that hold for every script (also with the cancel gap opened)
	seen := map[int]int{}
	for id, rr := range res {
		cs := callOf[id]
		switch rr.Kind {
		case "nilnil":
			bad("nil-nil-return", "call %d (xid %d) returned (nil, nil)", id, cs.Xid)
			return
		case "other":
			bad("unexpected-error", "call %d returned %s", id, rr.Err)
			return
		case "damaged":
			bad("damaged-message", "call %d (xid %d) returned a message with the nonce of datagram %d but not its trailer: it is not the datagram that arrived (cut short or overwritten)", id, cs.Xid, rr.Nonce)
			return
		case "ok":
			d, ok := inj[rr.Nonce]
			if !ok {
				bad("unknown-datagram", "call %d returned a message that was never injected", id)
				return
			}
			if d.Xid != cs.Xid || (d.Class != "matching" && d.Class != "other-type") {
				bad("foreign-or-filtered-datagram", "call %d (xid %d) returned datagram %d (xid %d, class %s)", id, cs.Xid, d.Nonce, d.Xid, d.Class)
				return
			}
			if cs.Matcher == "reject" || ((cs.Matcher == "typed" || cs.Matcher == "lib-accept") && d.Type != f.AcceptType()) || (cs.Matcher == "lib-other" && d.Type != f.OtherType()) || (cs.Matcher == "second" && d.Type != f.AcceptType()) {
				bad("matcher-rejects", "call %d (matcher %s) returned datagram %d of type %d", id, cs.Matcher, d.Nonce, d.Type)
				return
			}
			if injStep[d.Nonce] < startStep[id] {
				bad("stale-datagram", "call %d (started at step %d) returned datagram %d injected at step %d, before it was waiting", id, startStep[id], d.Nonce, injStep[d.Nonce])
				return
			}
			if prev := seen[d.Nonce]; prev >= injCount[d.Nonce] {
				bad("shared-response", "datagram %d, injected %d times, returned by %d calls (call %d among them)", d.Nonce, injCount[d.Nonce], prev+1, id)
				return
			}
			seen[d.Nonce]++
		}
		if !rr.Returned {
			bad("never-returned", "call %d never returned", id)
			return
		}
	}
	// exact comparison with the sequential model (deterministic scripts only)
	if !sc.Gap {
		m := &model{calls: map[int]*mcall{}, pending: map[uint32]*mcall{}, f: f}
		for _, s := range sc.Steps {
			m.apply(s)
		}
		wantTx := 0
		for id, mc := range m.calls {
			wantTx += mc.tx
			got := res[id]
			if !mc.res.Returned {
				// still waiting at the end of the script: the real call is cancelled afterwards
				if got.Kind != "ctx" && got.Kind != "noresp" {
					bad("model-mismatch:unfinished", "call %d should still be waiting at the end of the script, but returned %s", id, got.Kind)
					return
				}
				continue
			}
			if mc.res.Kind == "closed" && (got.Kind == "closed" || got.Kind == "noresp") && got.At == mc.res.At {
				continue // a call made on a closed client may fail with the conn's error or with the no-response error
			}
			if got.Kind != mc.res.Kind || got.Nonce != mc.res.Nonce || got.At != mc.res.At {
				bad("model-mismatch:"+mc.res.Kind+"-vs-"+got.Kind, "call %d (xid %d matcher %s tries %d): model says %s nonce=%d at %v, client returned %s nonce=%d at %v", id, mc.xid, mc.matcher, mc.tries, mc.res.Kind, mc.res.Nonce, mc.res.At, got.Kind, got.Nonce, got.At)
				return
			}
		}
		if tx != wantTx {
			bad("model-mismatch:transmissions", "%d transmissions during the script, model says %d", tx, wantTx)
			return
		}
	}
	// shape: skeleton of the script
	var sk strings.Builder
	overl := 0
	xids := map[uint32]int{}
	for _, s := range sc.Steps {
		switch s.Op {
		case "start":
			sk.WriteString("S" + s.Matcher[:1])
			xids[s.Xid]++
			overl++
		case "inject":
			sk.WriteString("i" + s.Class[:2])
		default:
			sk.WriteString(s.Op[:1])
		}
	}
	coll := false
	for _, n := range xids {
		if n > 1 {
			coll = true
		}
	}
	r.Shape(sc.Fam+sk.String(), overl >= 2 || coll)
	r.Count("steps", len(sc.Steps))
	r.Count("hook_hits", hits)
	for _, rr := range res {
		r.Count("outcome."+rr.Kind, 1)
	}
	if r.NSamples() < 4 && len(sc.Steps) <= 9 && overl >= 2 {
		r.Sample(map[string]any{"script": sc, "results": res})
	}
}

func TestCheck(t *testing.T) {
	r := mon.New("C10")
	defer r.Flush()
	if os.Getenv("VERIF_REPLAY") == "" {
		r.Watchdog(60 * time.Second)
	}
	var wf wfailT
	if mon.ReplayCase(&wf) && wf.WFail {
		judgeWFail(r, t, wf)
		return
	}
	var sc scriptT
	var bt burstT
	if mon.ReplayCase(&bt) && bt.Burst {
		judgeBurst(r, t, bt)
		return
	}
	if mon.ReplayCase(&sc) {
		judge(r, t, sc, map[bool]string{true: "gap", false: "model"}[sc.Gap])
		return
	}
	for i, wf := range wfailGrid() {
		if r.Mine(i) {
			judgeWFail(r, t, wf)
		}
	}
	for i, b := range burstGrid() {
		if r.Mine(i) {
			judgeBurst(r, t, b)
		}
	}
	n := r.Pick(30000, 3000000)
	for i := 0; i < n; i++ {
		if !r.Mine(i) {
			continue
		}
		rng := r.Rand("script", i)
		fm := []string{"nclient4", "nclient6"}[i%2]
		switch {
		case i%5 == 3:
			judge(r, t, genScript(rng, fm, true), "gap")
		case i%5 == 4:
			judge(r, t, gapCore(rng, fm), "gap")
		default:
			judge(r, t, genScript(rng, fm, false), "model")
		}
	}
}
