package c18

import (
	"bytes"
	"errors"
	"fmt"
	"math/rand/v2"
	"net"
	"os"
	"reflect"
	"sync"
	"syscall"
	"testing"
	"time"

	"github.com/insomniacslk/dhcp/dhcpv4/client4"
	"github.com/insomniacslk/dhcp/dhcpv4/nclient4"
	"verif/harness/gen4"
	"verif/harness/mon"
	"verif/harness/refframe"
)

// fakeConn is the scripted raw packet socket under the BroadcastRawUDPConn.
type fakeConn struct {
	frames  [][]byte
	i       int
	endErr  error
	faults  map[int]error // before frame #k is handed out, one read fails with this (passing) error
	calls   int
	written [][]byte
	wrAddr  []net.Addr
}

type fakeAddr struct{}

func (fakeAddr) Network() string { return "fake" }
func (fakeAddr) String() string  { return "fake" }

type timeoutErr struct{}

func (timeoutErr) Error() string   { return "scripted i/o timeout" }
func (timeoutErr) Timeout() bool   { return true }
func (timeoutErr) Temporary() bool { return true }

func (c *fakeConn) ReadFrom(b []byte) (int, net.Addr, error) {
	c.calls++
	if e, ok := c.faults[c.i]; ok {
		delete(c.faults, c.i)
		return 0, nil, e
	}
	if c.i >= len(c.frames) {
		return 0, nil, c.endErr
	}
	f := c.frames[c.i]
	c.i++
	return copy(b, f), fakeAddr{}, nil
}
func (c *fakeConn) WriteTo(b []byte, a net.Addr) (int, error) {
	c.written = append(c.written, append([]byte{}, b...))
	c.wrAddr = append(c.wrAddr, a)
	return len(b), nil
}
func (c *fakeConn) Close() error                     { return nil }
func (c *fakeConn) LocalAddr() net.Addr              { return fakeAddr{} }
func (c *fakeConn) SetDeadline(time.Time) error      { return nil }
func (c *fakeConn) SetReadDeadline(time.Time) error  { return nil }
func (c *fakeConn) SetWriteDeadline(time.Time) error { return nil }

type replay struct {
	Stream string `json:"stream"`
	Idx    int    `json:"idx"`
}

func ip4(r *rand.Rand) [4]byte {
	var a [4]byte
	switch r.IntN(5) {
	case 0:
	case 1:
		a = [4]byte{255, 255, 255, 255}
	default:
		for i := range a {
			a[i] = byte(r.UintN(256))
		}
	}
	return a
}

func port(r *rand.Rand) int {
	switch r.IntN(6) {
	case 0:
		return 0
	case 1:
		return 65535
	case 2:
		return 67
	case 3:
		return 68
	}
	return r.IntN(65536)
}

func payloadOf(r *rand.Rand, n, pat int) []byte {
	b := make([]byte, n)
	switch pat {
	case 0:
	case 1:
		for i := range b {
			b[i] = 0xff
		}
	case 2: // carries: ff ff 00 01 ...
		for i := range b {
			b[i] = []byte{0xff, 0xff, 0x00, 0x01}[i%4]
		}
	case 3:
		for i := range b {
			b[i] = byte(0xaa >> (i % 2))
		}
	default:
		for i := range b {
			b[i] = byte(r.UintN(256))
		}
	}
	return b
}

func hwOf(a net.Addr) []byte {
	v := reflect.ValueOf(a)
	if v.Kind() == reflect.Pointer {
		v = v.Elem()
	}
	if v.Kind() != reflect.Struct {
		return nil
	}
	f := v.FieldByName("HardwareAddr")
	if !f.IsValid() {
		return nil
	}
	return f.Bytes()
}

// write side: one payload length, all patterns.
func caseWrite(r *mon.Rec, n int) {
	rng := r.Rand("write", n)
	for pat := 0; pat < 6; pat++ {
		r.Eval(1)
		rp := replay{"write", n}
		src, dst := ip4(rng), ip4(rng)
		sp, dp := port(rng), port(rng)
		payload := payloadOf(rng, n, pat)
		fc := &fakeConn{}
		var bound *net.UDPAddr
		switch rng.IntN(4) {
		case 0:
			bound = &net.UDPAddr{Port: sp} // no bound address: source 0.0.0.0
			src = [4]byte{}
		case 1:
			bound = &net.UDPAddr{IP: net.IPv4(src[0], src[1], src[2], src[3]), Port: sp} // 16-byte form
		default:
			bound = &net.UDPAddr{IP: net.IP(src[:]), Port: sp}
		}
		dip := net.IP(dst[:])
		if rng.IntN(2) == 0 {
			dip = net.IPv4(dst[0], dst[1], dst[2], dst[3])
		}
		var wn int
		var werr error
		pan, val, st := mon.Guard(func() {
			c := nclient4.NewBroadcastUDPConn(fc, bound)
			wn, werr = c.WriteTo(payload, &net.UDPAddr{IP: dip, Port: dp})
		})
		if pan {
			r.Violate("C18:write-panic:"+mon.LibFrame(st), fmt.Sprint(val), rp)
			continue
		}
		if werr != nil || len(fc.written) != 1 {
			r.Violate("C18:write-count", fmt.Sprintf("WriteTo of %d bytes: err=%v, frames emitted=%d (want exactly one)", n, werr, len(fc.written)), rp)
			continue
		}
		_ = wn
		zero, err := refframe.ValidateWritten(fc.written[0], src, dst, sp, dp, payload)
		if err != nil {
			r.Violate("C18:frame-invalid:"+classify(err), fmt.Sprintf("payload %d bytes pattern %d %v:%d -> %v:%d: %v", n, pat, src, sp, dst, dp, err), rp)
			continue
		}
		if zero {
			r.Count("udp_checksum_zero_edge", 1)
		}
		if hw := hwOf(fc.wrAddr[0]); string(hw) != "\xff\xff\xff\xff\xff\xff" {
			r.Violate("C18:link-destination", fmt.Sprintf("link-layer destination %x, want the broadcast MAC", hw), rp)
			continue
		}
		r.Shape(fmt.Sprintf("w len%%2=%d lc=%d pat=%d b=%v", n%2, n/100, pat, bound.IP == nil), n > 0)
		if r.NSamples() < 2 && n > 0 && n < 12 {
			r.Sample(map[string]any{"stream": "write", "payload": mon.Hex(payload), "frame": mon.Hex(fc.written[0])})
		}
		// deprecated client4.MakeRawUDPPacket: lengths, ports, addresses, payload (checksums left to the kernel by design)
		if pat == 4 && dst != ([4]byte{}) && src != ([4]byte{}) {
			var raw []byte
			var rerr error
			pan, val, st := mon.Guard(func() {
				raw, rerr = client4.MakeRawUDPPacket(payload, net.UDPAddr{IP: net.IP(dst[:]), Port: dp}, net.UDPAddr{IP: net.IP(src[:]), Port: sp})
			})
			if pan {
				r.Violate("C18:makeraw-panic:"+mon.LibFrame(st), fmt.Sprint(val), rp)
			} else if rerr == nil {
				if len(raw) != 28+n || int(raw[2])<<8|int(raw[3]) != 28+n || raw[0] != 0x45 || raw[9] != 17 || string(raw[12:16]) != string(src[:]) || string(raw[16:20]) != string(dst[:]) ||
					int(raw[20])<<8|int(raw[21]) != sp || int(raw[22])<<8|int(raw[23]) != dp || int(raw[24])<<8|int(raw[25]) != 8+n || string(raw[28:]) != string(payload) {
					r.Violate("C18:makeraw-fields", fmt.Sprintf("MakeRawUDPPacket(%d bytes) has wrong lengths/ports/addresses/payload: %x", n, raw[:28]), rp)
				}
				r.Count("makeraw_checked", 1)
			}
		}
	}
}

func classify(err error) string {
	s := err.Error()
	out := []byte{}
	for i := 0; i < len(s) && len(out) < 28; i++ {
		if s[i] >= '0' && s[i] <= '9' || s[i] == '#' || s[i] == 'x' {
			continue
		}
		out = append(out, s[i])
	}
	return string(out)
}

// caseWriteSeq: ONE connection, several writes; the caller keeps one *net.UDPAddr and one payload buffer and changes
// them in place between the writes.  Every frame is judged like a single write: what was written before leaves no trace.
func caseWriteSeq(r *mon.Rec, idx int) {
	rng := r.Rand("writeseq", idx)
	r.Eval(1)
	rp := replay{"writeseq", idx}
	r.Current(rp)
	src := ip4(rng)
	sp := port(rng)
	fc := &fakeConn{}
	bound := &net.UDPAddr{IP: net.IP(append([]byte{}, src[:]...)), Port: sp}
	if rng.IntN(4) == 0 {
		bound, src = &net.UDPAddr{Port: sp}, [4]byte{}
	}
	dest := &net.UDPAddr{IP: make(net.IP, 4)}
	buf := make([]byte, 1500)
	nw := 2 + rng.IntN(7)
	type sent struct {
		dst     [4]byte
		dp      int
		payload []byte
	}
	var sents []sent
	pan, val, st := mon.Guard(func() {
		c := nclient4.NewBroadcastUDPConn(fc, bound)
		for k := 0; k < nw; k++ {
			if k == 0 || rng.IntN(3) != 0 { // change the destination in place (same object, same backing array)
				d := ip4(rng)
				if dest.IP == nil {
					dest.IP = make(net.IP, 4)
				}
				copy(dest.IP, d[:])
			}
			if k > 0 && rng.IntN(5) == 0 { // a destination without an IP address goes out to 0.0.0.0
				dest.IP = nil
			}
			if rng.IntN(2) == 0 {
				dest.Port = port(rng)
			}
			n := []int{0, 1, 2, 7, 240, 300, 301, 548, 1399, 1400}[rng.IntN(10)] + rng.IntN(3)
			copy(buf, payloadOf(rng, n, 4))
			var d [4]byte
			copy(d[:], dest.IP)
			sents = append(sents, sent{d, dest.Port, append([]byte{}, buf[:n]...)})
			if _, err := c.WriteTo(buf[:n], dest); err != nil {
				panic(fmt.Sprintf("write #%d: %v", k, err))
			}
		}
	})
	if pan {
		r.Violate("C18:write-panic:"+mon.LibFrame(st), fmt.Sprint(val), rp)
		return
	}
	if len(fc.written) != len(sents) {
		r.Violate("C18:write-count", fmt.Sprintf("%d writes on one connection, %d frames emitted", len(sents), len(fc.written)), rp)
		return
	}
	for k, sn := range sents {
		if _, err := refframe.ValidateWritten(fc.written[k], src, sn.dst, sp, sn.dp, sn.payload); err != nil {
			r.Violate("C18:frame-invalid:"+classify(err), fmt.Sprintf("write #%d of %d on one connection (destination object and payload buffer re-used and changed in place), %d bytes to %v:%d: %v", k, len(sents), len(sn.payload), sn.dst, sn.dp, err), rp)
			return
		}
	}
	r.Shape(fmt.Sprintf("wseq n=%d b=%v", nw, bound.IP == nil), true)
	r.Count("sequence_writes_checked", len(sents))
}

// stallConn: the first WriteTo does not return before the second one has completed (a socket whose send buffer is
// full for a moment); frames are recorded when their WriteTo is entered, as the bytes then handed to the socket, and
// again when it returns.
type stallConn struct {
	fakeConn
	mu       sync.Mutex
	entered  [][]byte
	onReturn [][]byte
	second   chan struct{}
	n        int
}

func (c *stallConn) WriteTo(b []byte, a net.Addr) (int, error) {
	c.mu.Lock()
	k := c.n
	c.n++
	c.entered = append(c.entered, append([]byte{}, b...))
	c.mu.Unlock()
	if k == 0 {
		select {
		case <-c.second:
		case <-time.After(10 * time.Second):
		}
	}
	c.mu.Lock()
	c.onReturn = append(c.onReturn, append([]byte{}, b...)) // what the socket would have sent if it copies late
	c.mu.Unlock()
	if k == 1 {
		close(c.second)
	}
	return len(b), nil
}

// caseWriteOverlap: two goroutines write through one connection (a net.PacketConn may be used by several goroutines
// at once); the first write is still inside the socket call when the second one is made.  Both datagrams leave as
// their own well-formed frames, whenever the socket looks at the bytes it was handed.
func caseWriteOverlap(r *mon.Rec, idx int) {
	rng := r.Rand("writeoverlap", idx)
	r.Eval(1)
	rp := replay{"writeoverlap", idx}
	r.Current(rp)
	src := ip4(rng)
	sp := port(rng)
	fc := &stallConn{second: make(chan struct{})}
	bound := &net.UDPAddr{IP: net.IP(append([]byte{}, src[:]...)), Port: sp}
	type wr struct {
		dst     [4]byte
		dp      int
		payload []byte
	}
	sizes := []int{0, 1, 7, 240, 300, 301, 548, 1400}
	w := [2]wr{}
	for i := range w {
		w[i] = wr{ip4(rng), port(rng), payloadOf(rng, sizes[rng.IntN(len(sizes))]+rng.IntN(3), 4)}
	}
	pan, val, st := mon.Guard(func() {
		c := nclient4.NewBroadcastUDPConn(fc, bound)
		var wg sync.WaitGroup
		wg.Add(1)
		go func() {
			defer wg.Done()
			c.WriteTo(w[0].payload, &net.UDPAddr{IP: net.IP(w[0].dst[:]), Port: w[0].dp})
		}()
		for { // wait until the first write is inside the socket call
			fc.mu.Lock()
			n := fc.n
			fc.mu.Unlock()
			if n >= 1 {
				break
			}
			time.Sleep(20 * time.Microsecond)
		}
		c.WriteTo(w[1].payload, &net.UDPAddr{IP: net.IP(w[1].dst[:]), Port: w[1].dp})
		wg.Wait()
	})
	if pan {
		r.Violate("C18:write-panic:"+mon.LibFrame(st), fmt.Sprint(val), rp)
		return
	}
	if len(fc.entered) != 2 || len(fc.onReturn) != 2 {
		r.Violate("C18:write-count", fmt.Sprintf("2 overlapping writes, %d frames handed to the socket", len(fc.entered)), rp)
		return
	}
	// entered[0] is write 0, entered[1] write 1; onReturn[0] is write 1 (it returns first), onReturn[1] write 0
	for _, c := range []struct {
		what  string
		frame []byte
		w     wr
	}{{"write 0 when handed to the socket", fc.entered[0], w[0]}, {"write 1 when handed to the socket", fc.entered[1], w[1]},
		{"write 1 when the socket call returned", fc.onReturn[0], w[1]}, {"write 0 when the (stalled) socket call returned", fc.onReturn[1], w[0]}} {
		if _, err := refframe.ValidateWritten(c.frame, src, c.w.dst, sp, c.w.dp, c.w.payload); err != nil {
			r.Violate("C18:frame-invalid:overlap:"+classify(err), fmt.Sprintf("two overlapping writes on one connection (%d and %d bytes): %s: %v", len(w[0].payload), len(w[1].payload), c.what, err), rp)
			return
		}
	}
	r.Shape(fmt.Sprintf("woverlap %d %d", len(w[0].payload)/100, len(w[1].payload)/100), true)
	r.Count("overlapping_writes_checked", 2)
}

var errScript = errors.New("scripted read error")

// read side: a sequence of frames.
func caseRead(r *mon.Rec, idx int, gray bool) {
	small := gray && idx%3 == 0
	stream := "read"
	if gray {
		stream = "readgray"
	}
	rng := r.Rand(stream, idx)
	rp := replay{stream, idx}
	r.Current(rp)
	r.Eval(1)
	boundPort := []int{68, 68, 0, 65535, 546}[rng.IntN(5)]
	var boundIP *[4]byte
	if rng.IntN(3) == 0 {
		a := ip4(rng)
		boundIP = &a
	}
	nf := 1 + rng.IntN(30)
	var frames [][]byte
	var want []refframe.Datagram
	kinds := ""
	for i := 0; i < nf; i++ {
		src, dst := ip4(rng), ip4(rng)
		if boundIP != nil && rng.IntN(3) != 0 {
			dst = *boundIP
		}
		dp := boundPort
		if rng.IntN(5) == 0 {
			dp = port(rng)
		}
		f := refframe.Default(src, dst, port(rng), dp, payloadOf(rng, []int{0, 1, 7, 240, 300, 301, 548, 1400, 1497, 1498}[rng.IntN(10)]+rng.IntN(3), 4)) // up to 1500 octets: with a 60-octet IP header the largest frame a 1500-octet read has to take
		if rng.IntN(2) == 0 {                                                                                                                             // header octets a reader has no business with, as any sender may set them
			f.TOS = []byte{0, 20, 0x10, 0xb8, 0xff, byte(rng.UintN(256))}[rng.IntN(6)]
			f.ID = uint16(rng.UintN(65536))
			f.TTL = []byte{1, 64, 255, 128, 2}[rng.IntN(5)]
		}
		k := rng.IntN(14)
		if gray {
			k = 14 + rng.IntN(5)
		}
		if small { // well-formed frames, read into buffers smaller than their payloads (see below)
			k = rng.IntN(5)
		}
		var b []byte
		if !gray && len(f.Payload) >= 2 && rng.IntN(6) == 0 {
			// choose the first payload word so that the checksum computes to zero: RFC 768 has it transmitted as all ones
			f.Payload = append([]byte{}, f.Payload...)
			f.Payload[0], f.Payload[1] = 0, 0
			t := refframe.Build(f)
			u := t[20:]
			ph := []byte{t[12], t[13], t[14], t[15], t[16], t[17], t[18], t[19], 0, 17, u[4], u[5]}
			u[6], u[7] = 0, 0
			x := 0xffff - refframe.Sum16(ph, u)
			f.Payload[0], f.Payload[1] = byte(x>>8), byte(x)
			if t2 := refframe.Build(f); t2[26] == 0xff && t2[27] == 0xff {
				r.Count("frames_with_all_ones_udp_checksum", 1)
			}
		}
		if !gray && rng.IntN(3) == 0 {
			// the flag bits that do not make a frame a fragment: don't-fragment (what most hosts send), the reserved bit
			f.FlagsFrag = []uint16{0x4000, 0x4000, 0x8000, 0xc000}[rng.IntN(4)]
		}
		switch k {
		case 0, 1, 2: // plain valid
		case 3: // IP options: NOPs, or options of the kinds that exist with lengths that fit and lengths that do not
			f.IHL = 6 + rng.IntN(10)
			if rng.IntN(2) == 0 {
				f.Options = refframe.IPOptions(rng.IntN, f.IHL*4-20)
			}
		case 4: // trailing link padding
			f.Pad = 1 + rng.IntN(40)
		case 5: // total length shorter than the frame: payload bounded by total length
			if len(f.Payload) > 4 {
				cut := 1 + rng.IntN(len(f.Payload)-1)
				f.TotalLen = f.IHL*4 + 8 + len(f.Payload) - cut
				f.UDPLen = 8 + len(f.Payload) - cut
			}
		case 6: // total length longer than the frame
			f.TotalLen = f.IHL*4 + 8 + len(f.Payload) + 1 + rng.IntN(30)
		case 7: // IP payload shorter than a UDP header; a total length of 0 (what segmentation offload leaves in captures)
			f.TotalLen = f.IHL*4 + rng.IntN(8)
			if rng.IntN(3) == 0 {
				f.TotalLen = []int{0, 0, 1, 19, 20}[rng.IntN(5)]
			}
			f.Pad = 8
		case 8: // not IPv4
			f.Version = []int{0, 5, 6, 15}[rng.IntN(4)]
		case 9: // not UDP
			f.Proto = []byte{1, 6, 2, 0, 255}[rng.IntN(5)]
		case 10: // truncated at a random offset
			b = refframe.Build(f)
			b = b[:1+rng.IntN(len(b)-1)] // at least one byte: a zero-length read is not a frame (the conn reports it as EOF)
		case 11: // other port
			f.DstPort = (boundPort + 1 + rng.IntN(100)) % 65536
		case 12: // IHL below 5
			b = refframe.Build(f)
			b[0] = 0x40 | byte(rng.UintN(5))
		case 13: // IHL and options with padding and a short total length
			f.IHL = 6 + rng.IntN(10)
			f.Pad = rng.IntN(20)
		// gray zone
		case 14:
			f.UDPLen = 8 + len(f.Payload) + 1 + rng.IntN(9)
			if rng.IntN(2) == 0 { // ... with link-layer padding behind the packet
				f.Pad = 1 + rng.IntN(40)
			}
		case 15:
			f.FlagsFrag = 0x2000 | uint16(rng.UintN(100))
		case 16:
			f.BadIPSum = true
		case 17:
			f.BadUDPSum = true
		case 18:
			f.UDPLen = rng.IntN(8)
		}
		if b == nil {
			b = refframe.Build(f)
		}
		cls, d, why := refframe.Read(b, boundIP, boundPort)
		kinds += why[:2] + ","
		if cls == refframe.Deliver {
			want = append(want, d)
		} else if cls == refframe.Gray && !gray {
			// keep judged sequences free of gray frames
			i--
			continue
		}
		frames = append(frames, b)
		// the very same frame once more (a sender that retransmits an unchanged message with a constant IP
		// identification, a bridge that hands the frame up twice): a frame like any other
		if rng.IntN(10) == 0 && cls != refframe.Gray {
			frames = append(frames, append([]byte{}, b...))
			kinds += why[:2] + "=,"
			if cls == refframe.Deliver {
				want = append(want, d)
			}
			r.Count("frames_repeated_verbatim", 1)
		}
	}
	fc := &fakeConn{frames: frames, endErr: errScript}
	nfaults := 0
	if !gray && rng.IntN(3) == 0 {
		// passing faults between frames (an expired read deadline, the interface going down for a moment): the caller
		// keeps reading; the frames that arrive afterwards are frames like any other
		fc.faults = map[int]error{}
		for k := rng.IntN(3) + 1; k > 0; k-- {
			var e error = &net.OpError{Op: "read", Net: "packet", Err: timeoutErr{}}
			switch rng.IntN(3) {
			case 0:
				e = timeoutErr{}
			case 1:
				e = &net.OpError{Op: "read", Net: "packet", Err: syscall.ENETDOWN}
			}
			fc.faults[rng.IntN(len(frames)+1)] = e
		}
		nfaults = len(fc.faults)
	}
	var bound *net.UDPAddr
	if boundIP != nil {
		bound = &net.UDPAddr{IP: net.IP(boundIP[:]), Port: boundPort}
	} else {
		bound = &net.UDPAddr{Port: boundPort}
	}
	type got struct {
		d   refframe.Datagram
		err error
	}
	var gots []got
	passing := 0
	var addrs []net.Addr // the addresses as returned: read again after all later reads (the caller keeps them)
	pan, val, st := mon.Guard(func() {
		c := nclient4.NewBroadcastUDPConn(fc, bound)
		// the read buffer is the caller's at every call: one of 1500 octets throughout, or buffers of changing sizes
		// (none smaller than the largest payload of the script)
		sizes := []int{1500, 1501, 2048, 1500, 4096, 1500, 65535, 3000}
		so := rng.IntN(len(sizes))
		vary := rng.IntN(3) == 0
		if small {
			// what happens to a datagram that does not fit the caller's buffer is not laid down (cut, or skipped); what is:
			// the count returned fits the buffer, and what is returned is the beginning of a frame's payload, in order
			sizes, vary = []int{1500, 300, 1472, 64, 1500, 548, 1, 0, 1460, 1488}, true
		}
		buf := make([]byte, 1500)
		for k := 0; k < len(frames)+nfaults+2; k++ {
			if vary {
				buf = make([]byte, sizes[(so+k)%len(sizes)])
			}
			n, addr, err := c.ReadFrom(buf)
			if err != nil && nfaults > 0 && !errors.Is(err, errScript) && fc.calls < 4*(len(frames)+nfaults+2) {
				passing++ // how a passing fault is reported (or retried) is not laid down; what arrives afterwards is
				continue
			}
			if err != nil {
				gots = append(gots, got{err: err})
				return
			}
			if n > len(buf) {
				panic(fmt.Sprintf("ReadFrom returned n=%d for a buffer of %d octets", n, len(buf)))
			}
			var d refframe.Datagram
			d.Payload = append([]byte{}, buf[:n]...)
			if ua, ok := addr.(*net.UDPAddr); ok {
				copy(d.Src[:], ua.IP.To4())
				d.SrcPort = ua.Port
			} else {
				d.SrcPort = -1
			}
			gots = append(gots, got{d: d})
			addrs = append(addrs, addr)
		}
	})
	if pan {
		r.Violate("C18:read-panic:"+mon.LibFrame(st), fmt.Sprintf("%v (frame sequence %s)", val, kinds), rp)
		return
	}
	for i, a := range addrs {
		var late [4]byte
		port := -1
		if ua, ok := a.(*net.UDPAddr); ok {
			copy(late[:], ua.IP.To4())
			port = ua.Port
		}
		if late != gots[i].d.Src || port != gots[i].d.SrcPort {
			r.Violate("C18:read-source-overwritten", fmt.Sprintf("the source address returned with datagram #%d read %v:%d when it was returned and %v:%d after the later reads (sequence %s)", i, gots[i].d.Src, gots[i].d.SrcPort, late, port, kinds), rp)
			return
		}
	}
	if gray {
		// whether such frames are delivered is not laid down; what is: a payload that is returned comes from one of the
		// frames, in order, and lies within that frame's IP total length (never link-layer padding)
		next := 0
		for i, g := range gots {
			if g.err != nil {
				break
			}
			found := false
			for j := next; j < len(frames) && !found; j++ {
				f := frames[j]
				if len(f) < 20 {
					continue
				}
				hl, tl := int(f[0]&0xf)*4, int(f[2])<<8|int(f[3])
				if hl < 20 || tl > len(f) || hl+8 > tl {
					continue
				}
				if bytes.HasPrefix(f[hl+8:tl], g.d.Payload) && string(f[12:16]) == string(g.d.Src[:]) {
					found, next = true, j+1
				}
			}
			if !found {
				r.Violate("C18:read-payload-outside-packet", fmt.Sprintf("datagram #%d (%d octets) is not the beginning of the UDP payload of any remaining frame within its IP total length (sequence %s)", i, len(g.d.Payload), kinds), rp)
				return
			}
		}
		r.Count("gray_sequences", 1)
		return
	}
	// expected: the deliverable datagrams in order, then the scripted error
	for i, w := range want {
		if i >= len(gots) || gots[i].err != nil {
			var lastErr error
			if len(gots) > 0 {
				lastErr = gots[len(gots)-1].err
			}
			r.Violate("C18:read-missing", fmt.Sprintf("well-formed frame #%d for the bound port was not returned (sequence %s, %d passing read faults injected, %d reported); reader stopped with %v after %d datagrams", i, kinds, nfaults, passing, lastErr, len(gots)), rp)
			return
		}
		g := gots[i].d
		if string(g.Payload) != string(w.Payload) {
			r.Violate("C18:read-payload", fmt.Sprintf("datagram #%d: payload of %d bytes returned, the IP total length bounds it to %d bytes (sequence %s)", i, len(g.Payload), len(w.Payload), kinds), rp)
			return
		}
		if g.Src != w.Src || g.SrcPort != w.SrcPort {
			r.Violate("C18:read-source", fmt.Sprintf("datagram #%d: source %v:%d, frame says %v:%d", i, g.Src, g.SrcPort, w.Src, w.SrcPort), rp)
			return
		}
	}
	if len(gots) == 0 || len(gots) != len(want)+1 {
		r.Violate("C18:read-extra", fmt.Sprintf("%d datagrams returned, %d frames were deliverable (sequence %s)", len(gots)-1, len(want), kinds), rp)
		return
	}
	if !errors.Is(gots[len(gots)-1].err, errScript) {
		r.Violate("C18:read-error-lost", fmt.Sprintf("terminating read error not surfaced: %v", gots[len(gots)-1].err), rp)
		return
	}
	r.Shape("r "+kinds, len(frames) >= 2)
	r.Count("frames_fed", len(frames))
	r.Count("passing_read_faults_reported", passing)
	r.Count("passing_read_faults_injected", nfaults)
	r.Count("datagrams_delivered", len(want))
	if r.NSamples() < 5 && len(frames) <= 4 && len(frames) >= 2 {
		r.Sample(map[string]any{"stream": "read", "idx": idx, "frame_kinds": kinds, "delivered": len(want), "bound_port": boundPort})
	}
}

func TestCheck(t *testing.T) {
	_ = gen4.Bytes
	r := mon.New("C18")
	defer r.Flush()
	if os.Getenv("VERIF_REPLAY") == "" {
		r.Watchdog(20 * time.Second)
	}
	var rp replay
	if mon.ReplayCase(&rp) {
		switch rp.Stream {
		case "write":
			caseWrite(r, rp.Idx)
		case "writeseq":
			caseWriteSeq(r, rp.Idx)
		case "writeoverlap":
			caseWriteOverlap(r, rp.Idx)
		case "read":
			caseRead(r, rp.Idx, false)
		default:
			caseRead(r, rp.Idx, true)
		}
		return
	}
	for i := 0; i < r.Pick(3000, 200000); i++ {
		if r.Mine(i) {
			caseWriteSeq(r, i)
		}
	}
	for i := 0; i < r.Pick(1500, 100000); i++ {
		if r.Mine(i) {
			caseWriteOverlap(r, i)
		}
	}
	for n := 0; n <= 1500; n++ {
		if r.Mine(n) {
			caseWrite(r, n)
		}
	}
	r.Set("write_exhaustive", "every payload length 0..1500 x 6 patterns")
	m := r.Pick(20000, 4000000)
	for i := 0; i < m; i++ {
		if r.Mine(i) {
			caseRead(r, i, false)
		}
	}
	g := r.Pick(3000, 500000)
	for i := 0; i < g; i++ {
		if r.Mine(i) {
			caseRead(r, i, true)
		}
	}
}
