package c02

import (
	"bytes"
	"fmt"
	"math/rand/v2"
	"os"
	"reflect"
	"sort"
	"strings"
	"testing"
	"time"

	"github.com/insomniacslk/dhcp/dhcpv6"
	"github.com/insomniacslk/dhcp/rfc1035label"
	"verif/harness/gen6"
	"verif/harness/mon"
	"verif/harness/proj"
	"verif/harness/ref6"
	"verif/harness/tree"
	"verif/harness/v6util"
)

type replay struct {
	Idx  int    `json:"idx"`
	Wire string `json:"wire,omitempty"`
}

var typed map[int]string

func runCase(r *mon.Rec, idx int, hits map[int]int) {
	rng := r.Rand("c02", idx)
	g := gen6.New(rng, func(c int) bool { _, ok := typed[c]; return ok })
	g.Budget = 20 + rng.IntN(60)
	r.Current(replay{Idx: idx})
	m, want := g.Chain(rng.IntN(9)%(1+rng.IntN(9)), 0)
	for c, n := range g.Hits {
		hits[c] += n
	}
	r.Eval(1)
	ws := want.String()
	rp := replay{Idx: idx}
	var wire []byte
	var m2 dhcpv6.DHCPv6
	var err error
	pan, val, st := mon.Guard(func() {
		wire = m.ToBytes()
		// a receiver has usually seen damaged datagrams before this one: decode two cut-off copies first (their
		// verdicts are C05's business); what they leave behind must not matter
		if len(wire) > 8 {
			crng := r.Rand("c02.cut", idx)
			for k := 0; k < 2; k++ {
				dhcpv6.FromBytes(append([]byte{}, wire[:1+crng.IntN(len(wire)-1)]...))
			}
		}
		m2, err = dhcpv6.FromBytes(wire)
	})
	if len(wire) <= 1500 {
		rp.Wire = mon.Hex(wire)
	}
	if pan {
		r.Violate("C02:panic:"+mon.LibFrame(st), fmt.Sprint(val), rp)
		return
	}
	if len(wire) > 65535 {
		r.Count("skipped.too-large", 1)
		return
	}
	if err != nil {
		r.Violate("C02:decode-error:"+firstKindDiffErr(err), fmt.Sprintf("FromBytes(ToBytes(m)) failed: %v; m=%s", err, trunc(ws)), rp)
		return
	}
	// Oracle A: library round trip against the generator's tree
	got := proj.M6(m2).String()
	if got != ws {
		r.Violate("C02:roundtrip-mismatch:"+tree.KindAt(ws, got), "decoded value differs from the value encoded: "+tree.Diff(ws, got), rp)
		return
	}
	defer func() { // after everything else has been judged: the decoded message is the caller's (see mon.Scribble)
		mon.Scribble(m2)
		if ch := mon.CanariesChanged(); len(ch) > 0 {
			r.Violate("C02:result-aliases-global", fmt.Sprintf("writing into the decoded message changed process-wide values %v", ch), rp)
		}
	}()
	// Oracle B: independent decoder on the emitted bytes
	res := ref6.Decode(wire)
	switch res.V {
	case ref6.Reject:
		r.Violate("C02:wire-rejected:"+res.Why, "independent RFC decoder rejects the emitted bytes: "+res.Why+"; m="+trunc(ws), rp)
		return
	case ref6.Unspecified:
		r.Violate("C02:HARNESS-wire-unspecified:"+res.Why, "generated value falls into a gray zone of the reference: "+res.Why, rp)
		return
	}
	if rs := res.Tree.String(); rs != ws {
		r.Violate("C02:wire-mismatch:"+tree.KindAt(ws, rs), "emitted bytes are not the RFC layout of the field values: "+tree.Diff(ws, rs), rp)
		return
	}
	// A message that is printed between being decoded and being sent on (the library's debug loggers print every
	// message they handle) encodes as it did before it was printed
	{
		var e1, e2 []byte
		pan, val, st := mon.Guard(func() {
			e1 = m2.ToBytes()
			_, _ = m2.Summary(), m2.String()
			e2 = m2.ToBytes()
		})
		if pan {
			r.Violate("C02:panic:"+mon.LibFrame(st), fmt.Sprint(val), rp)
			return
		}
		if !bytes.Equal(e1, e2) {
			r.Violate("C02:printed-then-encoded-differently", "the decoded message encodes to other bytes after Summary()/String() than before", rp)
			return
		}
	}
	// Values with a history: the decoded message is edited in place (names of label sets element by element, octets of
	// opaque values) and is then itself "a DHCPv6 message value": what it encodes to must decode to what it now holds.
	if !editedRoundTrip(r, rng, g, m2, rp) {
		return
	}
	paths := want.Paths()
	sort.Strings(paths)
	kinds := map[string]int{}
	want.Kinds(kinds)
	nTyped := 0
	for k := range kinds {
		if k != "msg" && k != "relay" && k != "generic" && k != "sub" && !strings.HasPrefix(k, "duid") {
			nTyped++
		}
	}
	r.Shape(strings.Join(dedup(paths), ","), nTyped >= 2 || want.Depth() >= 3)
	r.Max("depth", int64(want.Depth()))
	r.Max("wire_len", int64(len(wire)))
	if r.NSamples() < 4 && len(wire) < 120 && nTyped >= 2 {
		r.Sample(map[string]any{"idx": idx, "wire": mon.Hex(wire), "tree": ws})
	}
}

var labelsType = reflect.TypeOf(rfc1035label.Labels{})
var bytesType = reflect.TypeOf([]byte(nil))

// editInPlace walks the exported fields of a decoded value and edits leaves through the memory the value already
// owns: elements of a label set's name list are overwritten, single bits of opaque []byte values are flipped.
// Nothing is appended, re-sliced or replaced, so every cache the library keeps beside a public field stays in place.
func editInPlace(v reflect.Value, rng *rand.Rand, g *gen6.G, n *int) {
	switch v.Kind() {
	case reflect.Pointer, reflect.Interface:
		if !v.IsNil() {
			editInPlace(v.Elem(), rng, g, n)
		}
	case reflect.Struct:
		if v.Type() == labelsType {
			f := v.FieldByName("Labels")
			for i := 0; i < f.Len(); i++ {
				if e := f.Index(i); e.CanSet() && rng.IntN(2) == 0 {
					e.SetString(g.Name())
					*n++
				}
			}
			return
		}
		for i := 0; i < v.NumField(); i++ {
			if v.Type().Field(i).IsExported() {
				editInPlace(v.Field(i), rng, g, n)
			}
		}
	case reflect.Slice:
		if v.Type() == bytesType {
			if v.Len() > 0 && rng.IntN(3) == 0 {
				v.Bytes()[rng.IntN(v.Len())] ^= 1 << rng.UintN(8)
				*n++
			}
			return
		}
		if v.Type().Elem().Kind() == reflect.Uint8 {
			return // addresses: their admissible values depend on sibling fields (prefix lengths)
		}
		for i := 0; i < v.Len(); i++ {
			editInPlace(v.Index(i), rng, g, n)
		}
	}
}

func editedRoundTrip(r *mon.Rec, rng *rand.Rand, g *gen6.G, m dhcpv6.DHCPv6, rp replay) bool {
	edits := 0
	var before, after, got string
	var wire []byte
	var err error
	pan, val, st := mon.Guard(func() {
		before = proj.M6(m).String()
		editInPlace(reflect.ValueOf(m), rng, g, &edits)
		if edits == 0 {
			return
		}
		after = proj.M6(m).String()
		wire = m.ToBytes()
		var m3 dhcpv6.DHCPv6
		if m3, err = dhcpv6.FromBytes(wire); err == nil {
			got = proj.M6(m3).String()
		}
	})
	if pan {
		r.Violate("C02:edited:panic:"+mon.LibFrame(st), fmt.Sprint(val), rp)
		return false
	}
	if edits == 0 || after == before {
		return true
	}
	r.Count("edited_values", 1)
	r.Count("in_place_edits", edits)
	if len(wire) > 65535 {
		return true
	}
	if err != nil {
		r.Violate("C02:edited:decode-error:"+firstKindDiffErr(err), fmt.Sprintf("a decoded message edited in place encodes to bytes that do not decode: %v; value=%s", err, trunc(after)), rp)
		return false
	}
	if got != after {
		r.Violate("C02:edited:roundtrip-mismatch:"+tree.KindAt(after, got), "a decoded message was edited in place; its encoding decodes to something else than the value it holds: "+tree.Diff(after, got), rp)
		return false
	}
	if res := ref6.Decode(wire); res.V == ref6.Accept {
		if rs := res.Tree.String(); rs != after {
			r.Violate("C02:edited:wire-mismatch:"+tree.KindAt(after, rs), "bytes emitted for a message edited in place are not the RFC layout of its field values: "+tree.Diff(after, rs), rp)
			return false
		}
	} else if res.V == ref6.Reject {
		r.Violate("C02:edited:wire-rejected:"+res.Why, "independent RFC decoder rejects the bytes emitted for a message edited in place: "+res.Why, rp)
		return false
	}
	return true
}

func dedup(s []string) []string {
	var out []string
	for i, x := range s {
		if i == 0 || x != s[i-1] {
			out = append(out, x)
		}
	}
	return out
}

func firstKindDiffErr(err error) string {
	s := err.Error()
	if len(s) > 40 {
		s = s[:40]
	}
	return strings.Map(func(r rune) rune {
		if r >= '0' && r <= '9' {
			return -1
		}
		return r
	}, s)
}

func trunc(s string) string {
	if len(s) > 500 {
		return s[:500] + "…"
	}
	return s
}

func TestCheck(t *testing.T) {
	r := mon.New("C02")
	defer r.Flush()
	if os.Getenv("VERIF_REPLAY") == "" {
		r.Watchdog(20 * time.Second)
	}
	typed = v6util.TypedCodes()
	var rp replay
	hits := map[int]int{}
	if mon.ReplayCase(&rp) {
		runCase(r, rp.Idx, hits)
		return
	}
	n := r.Pick(60000, 6000000)
	for i := 0; i < n; i++ {
		if r.Mine(i) {
			runCase(r, i, hits)
		}
	}
	// coverage of the typed option codes discovered in the library at run time
	var noGen []int
	have := map[int]bool{}
	for _, c := range gen6.AllCodes {
		have[c] = true
	}
	hm := map[string]int{}
	for _, c := range v6util.SortedCodes(typed) {
		if !have[c] {
			noGen = append(noGen, c)
		}
		hm[fmt.Sprint(c)] = hits[c]
		r.Count(fmt.Sprintf("hits.code%d", c), hits[c])
	}
	r.Set("typed_codes_discovered", v6util.SortedCodes(typed))
	r.Set("typed_codes_without_generator_reduced_oracle", noGen)
	if len(proj.Unknown) > 0 {
		r.Set("types_without_projection", fmt.Sprint(proj.Unknown))
	}
}
