package c02

import (
	"fmt"
	"os"
	"sort"
	"strings"
	"testing"
	"time"

	"github.com/insomniacslk/dhcp/dhcpv6"
	"verif/harness/gen6"
	"verif/harness/mon"
	"verif/harness/proj"
	"verif/harness/ref6"
	"verif/harness/tree"
	"verif/harness/v6util"
)

type replay struct {
	Idx  int    `json:"idx"`
	Wire string `json:"wire,omitempty"`
}

var typed map[int]string

func runCase(r *mon.Rec, idx int, hits map[int]int) {
	rng := r.Rand("c02", idx)
	g := gen6.New(rng, func(c int) bool { _, ok := typed[c]; return ok })
	g.Budget = 20 + rng.IntN(60)
	r.Current(replay{Idx: idx})
	m, want := g.Chain(rng.IntN(9)%(1+rng.IntN(9)), 0)
	for c, n := range g.Hits {
		hits[c] += n
	}
	r.Eval(1)
	ws := want.String()
	rp := replay{Idx: idx}
	var wire []byte
	var m2 dhcpv6.DHCPv6
	var err error
	pan, val, st := mon.Guard(func() {
		wire = m.ToBytes()
		m2, err = dhcpv6.FromBytes(wire)
	})
	if len(wire) <= 1500 {
		rp.Wire = mon.Hex(wire)
	}
	if pan {
		r.Violate("C02:panic:"+mon.LibFrame(st), fmt.Sprint(val), rp)
		return
	}
	if len(wire) > 65535 {
		r.Count("skipped.too-large", 1)
		return
	}
	if err != nil {
		r.Violate("C02:decode-error:"+firstKindDiffErr(err), fmt.Sprintf("FromBytes(ToBytes(m)) failed: %v; m=%s", err, trunc(ws)), rp)
		return
	}
	// Oracle A: library round trip against the generator's tree
	got := proj.M6(m2).String()
	if got != ws {
		r.Violate("C02:roundtrip-mismatch:"+tree.KindAt(ws, got), "decoded value differs from the value encoded: "+tree.Diff(ws, got), rp)
		return
	}
	// Oracle B: independent decoder on the emitted bytes
	res := ref6.Decode(wire)
	switch res.V {
	case ref6.Reject:
		r.Violate("C02:wire-rejected:"+res.Why, "independent RFC decoder rejects the emitted bytes: "+res.Why+"; m="+trunc(ws), rp)
		return
	case ref6.Unspecified:
		r.Violate("C02:HARNESS-wire-unspecified:"+res.Why, "generated value falls into a gray zone of the reference: "+res.Why, rp)
		return
	}
	if rs := res.Tree.String(); rs != ws {
		r.Violate("C02:wire-mismatch:"+tree.KindAt(ws, rs), "emitted bytes are not the RFC layout of the field values: "+tree.Diff(ws, rs), rp)
		return
	}
	paths := want.Paths()
	sort.Strings(paths)
	kinds := map[string]int{}
	want.Kinds(kinds)
	nTyped := 0
	for k := range kinds {
		if k != "msg" && k != "relay" && k != "generic" && k != "sub" && !strings.HasPrefix(k, "duid") {
			nTyped++
		}
	}
	r.Shape(strings.Join(dedup(paths), ","), nTyped >= 2 || want.Depth() >= 3)
	r.Max("depth", int64(want.Depth()))
	r.Max("wire_len", int64(len(wire)))
	if r.NSamples() < 4 && len(wire) < 120 && nTyped >= 2 {
		r.Sample(map[string]any{"idx": idx, "wire": mon.Hex(wire), "tree": ws})
	}
}

func dedup(s []string) []string {
	var out []string
	for i, x := range s {
		if i == 0 || x != s[i-1] {
			out = append(out, x)
		}
	}
	return out
}

func firstKindDiffErr(err error) string {
	s := err.Error()
	if len(s) > 40 {
		s = s[:40]
	}
	return strings.Map(func(r rune) rune {
		if r >= '0' && r <= '9' {
			return -1
		}
		return r
	}, s)
}

func trunc(s string) string {
	if len(s) > 500 {
		return s[:500] + "…"
	}
	return s
}

func TestCheck(t *testing.T) {
	r := mon.New("C02")
	defer r.Flush()
	if os.Getenv("VERIF_REPLAY") == "" {
		r.Watchdog(20 * time.Second)
	}
	typed = v6util.TypedCodes()
	var rp replay
	hits := map[int]int{}
	if mon.ReplayCase(&rp) {
		runCase(r, rp.Idx, hits)
		return
	}
	n := r.Pick(60000, 6000000)
	for i := 0; i < n; i++ {
		if r.Mine(i) {
			runCase(r, i, hits)
		}
	}
	// coverage of the typed option codes discovered in the library at run time
	var noGen []int
	have := map[int]bool{}
	for _, c := range gen6.AllCodes {
		have[c] = true
	}
	hm := map[string]int{}
	for _, c := range v6util.SortedCodes(typed) {
		if !have[c] {
			noGen = append(noGen, c)
		}
		hm[fmt.Sprint(c)] = hits[c]
		r.Count(fmt.Sprintf("hits.code%d", c), hits[c])
	}
	r.Set("typed_codes_discovered", v6util.SortedCodes(typed))
	r.Set("typed_codes_without_generator_reduced_oracle", noGen)
	if len(proj.Unknown) > 0 {
		r.Set("types_without_projection", fmt.Sprint(proj.Unknown))
	}
}
