// Package sconn is a scripted in-memory net.PacketConn.  All blocking is
// channel based, so it works in real time and inside testing/synctest bubbles
// (a goroutine blocked in ReadFrom is durably blocked).  Every ReadFrom
// invocation/return and every WriteTo is recorded with a sequence number and
// the (virtual or monotonic) time since the conn was created.
package sconn

import (
	"net"
	"os"
	"sync"
	"sync/atomic"
	"time"
)

type Datagram struct {
	B     []byte
	From  net.Addr
	Nonce int    // unique id of the injected datagram
	Class string // harness classification (matching, wrong-xid, ...)
	Err   error  // if set: not a datagram but a read fault; the ReadFrom that takes it fails with this error
}

type Event struct {
	Seq   int64
	T     time.Duration
	Kind  string // rx.invoke rx.return tx close
	K     int    // index of the ReadFrom call / write
	Nonce int
	Class string
	Len   int
}

type Write struct {
	T    time.Duration
	Dest net.Addr
	B    []byte
	Seq  int64
}

var seq atomic.Int64

// NextSeq hands out globally ordered sequence numbers (shared with the harness' own events).
func NextSeq() int64 { return seq.Add(1) }

type Conn struct {
	rx       chan Datagram
	closed   chan struct{}
	once     sync.Once
	start    time.Time
	mu       sync.Mutex
	events   []Event
	writes   []Write
	reads    int
	readCond *sync.Cond
	OnWrite  func(w Write)      // called synchronously inside WriteTo (after recording)
	ReadErr  func(k int) error  // if non-nil and returns an error for read #k, ReadFrom fails with it
	Delay    func(point string) // optional delay injection ("rx.before", "rx.after", "tx.before", "tx.after")
	WriteErr func(k int) error
	OnTake   func(k int) // called inside ReadFrom call #k after it has taken a datagram, before it returns it
	OnClose  func()      // called at the start of every Close call (before the conn is closed)
	wdl      time.Time   // write deadline (zero: none)
	CloseErr error       // what Close returns (the conn is closed all the same, like a socket whose owner closed it first)
}

func New(buffer int) *Conn {
	return &Conn{rx: make(chan Datagram, buffer), closed: make(chan struct{}), start: time.Now()}
}

func (c *Conn) since() time.Duration { return time.Since(c.start) }

func (c *Conn) log(e Event) {
	e.Seq = NextSeq()
	e.T = c.since()
	c.mu.Lock()
	c.events = append(c.events, e)
	c.mu.Unlock()
}

// Inject hands a datagram to the next ReadFrom; it blocks until a reader takes it (or the conn is closed).
func (c *Conn) Inject(d Datagram) bool {
	select {
	case c.rx <- d:
		return true
	case <-c.closed:
		return false
	}
}

// InjectOr is Inject that gives up when abort is closed.
func (c *Conn) InjectOr(d Datagram, abort <-chan struct{}) bool {
	select {
	case c.rx <- d:
		return true
	case <-c.closed:
		return false
	case <-abort:
		return false
	}
}

// TryInject is Inject without blocking.
func (c *Conn) TryInject(d Datagram) bool {
	select {
	case c.rx <- d:
		return true
	default:
		return false
	}
}

func (c *Conn) ReadFrom(b []byte) (int, net.Addr, error) {
	c.mu.Lock()
	k := c.reads
	c.reads++
	if c.readCond != nil {
		c.readCond.Broadcast()
	}
	c.mu.Unlock()
	c.log(Event{Kind: "rx.invoke", K: k})
	if c.ReadErr != nil {
		if err := c.ReadErr(k); err != nil {
			c.log(Event{Kind: "rx.error", K: k})
			return 0, nil, err
		}
	}
	if c.Delay != nil {
		c.Delay("rx.before")
	}
	select {
	case d := <-c.rx:
		if d.Err != nil {
			c.log(Event{Kind: "rx.error", K: k})
			return 0, nil, d.Err
		}
		n := copy(b, d.B) // writes only into the buffer of THIS call, like a real socket
		if c.OnTake != nil {
			c.OnTake(k)
		}
		if c.Delay != nil {
			c.Delay("rx.after")
		}
		c.log(Event{Kind: "rx.return", K: k, Nonce: d.Nonce, Class: d.Class, Len: n})
		return n, d.From, nil
	case <-c.closed:
		c.log(Event{Kind: "rx.closed", K: k})
		return 0, nil, net.ErrClosed
	}
}

func (c *Conn) WriteTo(b []byte, addr net.Addr) (int, error) {
	if c.Delay != nil {
		c.Delay("tx.before")
	}
	select {
	case <-c.closed:
		return 0, net.ErrClosed
	default:
	}
	c.mu.Lock()
	dl := c.wdl
	c.mu.Unlock()
	if !dl.IsZero() && !time.Now().Before(dl) {
		c.log(Event{Kind: "tx.deadline"})
		return 0, &net.OpError{Op: "write", Net: "udp", Err: os.ErrDeadlineExceeded}
	}
	w := Write{T: c.since(), Dest: addr, B: append([]byte{}, b...), Seq: NextSeq()}
	c.mu.Lock()
	k := len(c.writes)
	c.writes = append(c.writes, w)
	c.events = append(c.events, Event{Seq: w.Seq, T: w.T, Kind: "tx", K: k, Len: len(b)})
	c.mu.Unlock()
	if c.OnWrite != nil {
		c.OnWrite(w)
	}
	if c.WriteErr != nil { // after OnWrite: a write that blocks for a while (things happen meanwhile) and then fails
		if err := c.WriteErr(k); err != nil {
			return 0, err
		}
	}
	if c.Delay != nil {
		c.Delay("tx.after")
	}
	return len(b), nil
}

// Reads returns how many times ReadFrom has been invoked.
func (c *Conn) Reads() int {
	c.mu.Lock()
	defer c.mu.Unlock()
	return c.reads
}

// WaitReads blocks until ReadFrom has been invoked at least n times (or the conn is closed).
func (c *Conn) WaitReads(n int) {
	c.mu.Lock()
	if c.readCond == nil {
		c.readCond = sync.NewCond(&c.mu)
	}
	for c.reads < n && !c.isClosedLocked() {
		c.readCond.Wait()
	}
	c.mu.Unlock()
}

// WaitReadsTimeout is WaitReads with a wall-clock limit; false means the limit expired.
func (c *Conn) WaitReadsTimeout(n int, d time.Duration) bool {
	done := make(chan struct{})
	go func() { c.WaitReads(n); close(done) }()
	select {
	case <-done:
		return true
	case <-time.After(d):
		return false
	}
}

func (c *Conn) isClosedLocked() bool {
	select {
	case <-c.closed:
		return true
	default:
		return false
	}
}

func (c *Conn) Close() error {
	if c.OnClose != nil {
		c.OnClose()
	}
	c.once.Do(func() {
		c.log(Event{Kind: "close"})
		close(c.closed)
		c.mu.Lock()
		if c.readCond != nil {
			c.readCond.Broadcast()
		}
		c.mu.Unlock()
	})
	return c.CloseErr
}

// Done is closed when the connection is closed (a blocked socket operation ends then).
func (c *Conn) Done() <-chan struct{} { return c.closed }

func (c *Conn) Closed() bool {
	select {
	case <-c.closed:
		return true
	default:
		return false
	}
}

type addr struct{}

func (addr) Network() string { return "sconn" }
func (addr) String() string  { return "sconn" }

func (c *Conn) LocalAddr() net.Addr { return &net.UDPAddr{IP: net.IPv4zero, Port: 68} }

// Write deadlines are honoured like a socket honours them: once one is set it stays until it is changed, and a write
// at or after that instant fails with a timeout.  (Read deadlines are accepted and ignored: nothing here sets them.)
func (c *Conn) SetDeadline(t time.Time) error     { return c.SetWriteDeadline(t) }
func (c *Conn) SetReadDeadline(t time.Time) error { return nil }
func (c *Conn) SetWriteDeadline(t time.Time) error {
	c.mu.Lock()
	c.wdl = t
	c.mu.Unlock()
	return nil
}

func (c *Conn) Writes() []Write {
	c.mu.Lock()
	defer c.mu.Unlock()
	return append([]Write{}, c.writes...)
}

func (c *Conn) Events() []Event {
	c.mu.Lock()
	defer c.mu.Unlock()
	return append([]Event{}, c.events...)
}
