package mon

import (
	"os"
	"path/filepath"
	"sort"
)

// Corpus loads the committed development-time corpus /verif/corpus/<sub>/*.bin (sorted by name; may be empty).
// Registered checks only replay and mutate it deterministically; it is grown with tools/fuzz_grow.sh.
func Corpus(sub string) [][]byte {
	root := os.Getenv("VERIF_CORPUS")
	if root == "" {
		root = "/verif/corpus"
	}
	files, _ := filepath.Glob(filepath.Join(root, sub, "*.bin"))
	sort.Strings(files)
	var out [][]byte
	for _, f := range files {
		if b, err := os.ReadFile(f); err == nil {
			out = append(out, b)
		}
	}
	return out
}
