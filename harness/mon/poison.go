package mon

import (
	"runtime"
	"runtime/debug"
	"syscall"
)

// Poison holds a copy of an input at the END of an anonymous mapping that can
// later be made inaccessible: any read through a retained alias then faults.
type Poison struct {
	region []byte
	Data   []byte // the input copy; decode from this slice
}

func NewPoison(input []byte) (*Poison, error) {
	ps := syscall.Getpagesize()
	n := (len(input) + ps - 1) / ps * ps
	if n == 0 {
		n = ps
	}
	m, err := syscall.Mmap(-1, 0, n, syscall.PROT_READ|syscall.PROT_WRITE, syscall.MAP_ANON|syscall.MAP_PRIVATE)
	if err != nil {
		return nil, err
	}
	p := &Poison{region: m}
	p.Data = m[n-len(input) : n : n]
	copy(p.Data, input)
	return p, nil
}

// Protect makes the whole region inaccessible.
func (p *Poison) Protect() error { return syscall.Mprotect(p.region, syscall.PROT_NONE) }

func (p *Poison) Free() {
	syscall.Mprotect(p.region, syscall.PROT_READ|syscall.PROT_WRITE)
	syscall.Munmap(p.region)
}

// Offset converts a faulting address into an offset of the input (-1 if outside).
func (p *Poison) Offset(addr uintptr) int {
	base := uintptr(0)
	if len(p.Data) > 0 {
		base = uintptrOf(p.Data)
	} else {
		return -1
	}
	if addr >= base && addr < base+uintptr(len(p.Data)) {
		return int(addr - base)
	}
	return -1
}

// GuardFault runs fn with faults turned into panics; returns the faulting address if one occurred.
func GuardFault(fn func()) (faulted bool, addr uintptr, panicked bool, val any, stack string) {
	old := debug.SetPanicOnFault(true)
	defer debug.SetPanicOnFault(old)
	defer func() {
		if v := recover(); v != nil {
			stack = string(debug.Stack())
			if re, ok := v.(runtime.Error); ok {
				if ae, ok := re.(interface{ Addr() uintptr }); ok {
					faulted, addr = true, ae.Addr()
					return
				}
			}
			panicked, val = true, v
		}
	}()
	fn()
	return
}
