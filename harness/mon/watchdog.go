package mon

import (
	"os"
	"sync/atomic"
	"time"
)

type curBox struct{ v any }

// Current records the case that is about to be executed (cheap: an atomic pointer store).
func (r *Rec) Current(v any) { r.cur.Store(&curBox{v}) }

// Watchdog starts the termination watchdog of a shard: if no evaluation completes for `limit`, the case recorded by
// Current is handed to the driver as a suspect (extra key "suspect_slow"), the results so far are flushed and the
// process exits.  The driver re-runs the suspect alone with a larger limit; only that second expiry is a violation.
func (r *Rec) Watchdog(limit time.Duration) {
	go func() {
		last := atomic.LoadInt64(&r.evalsAtomic)
		lastChange := time.Now()
		for {
			time.Sleep(500 * time.Millisecond)
			now := atomic.LoadInt64(&r.evalsAtomic)
			if now != last {
				last, lastChange = now, time.Now()
				continue
			}
			if time.Since(lastChange) > limit {
				var c any
				if b := r.cur.Load(); b != nil {
					c = b.v
				}
				r.Set("suspect_slow", []any{c})
				r.Inconclusive("no case completed within the in-process time limit; shard aborted, current case re-run alone by the driver")
				r.Flush()
				os.Exit(0)
			}
		}
	}()
}

// HexBytes marshals lazily as a hex string (so that recording the current case costs nothing until it is needed).
type HexBytes []byte

func (h HexBytes) MarshalJSON() ([]byte, error) {
	return []byte(`"` + Hex(h) + `"`), nil
}
