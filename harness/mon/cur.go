package mon

import (
	"encoding/binary"
	"os"
	"syscall"
)

// Cur is a crash-surviving record of "the input being processed right now":
// a MAP_SHARED file mapping, so that writing costs no syscall and the content
// survives a fatal error of the process (stack exhaustion, checkptr, OOM kill).
// Layout: "VCUR" | uint32 header length | uint32 input length | header JSON | raw input.
type Cur struct {
	mem []byte
}

const curSize = 1 << 18

func NewCur(path string) *Cur {
	f, err := os.OpenFile(path, os.O_RDWR|os.O_CREATE|os.O_TRUNC, 0o644)
	if err != nil {
		return &Cur{}
	}
	defer f.Close()
	if err := f.Truncate(curSize); err != nil {
		return &Cur{}
	}
	m, err := syscall.Mmap(int(f.Fd()), 0, curSize, syscall.PROT_READ|syscall.PROT_WRITE, syscall.MAP_SHARED)
	if err != nil {
		return &Cur{}
	}
	copy(m, "VCUR")
	return &Cur{mem: m}
}

// Set records the header (JSON object text without the input) and the raw input.
func (c *Cur) Set(headerJSON string, input []byte) {
	if c == nil || c.mem == nil {
		return
	}
	if len(input) > curSize-4096 {
		input = input[:curSize-4096]
	}
	binary.BigEndian.PutUint32(c.mem[4:], 0) // invalidate while writing
	n := copy(c.mem[12:], headerJSON)
	copy(c.mem[12+n:], input)
	binary.BigEndian.PutUint32(c.mem[8:], uint32(len(input)))
	binary.BigEndian.PutUint32(c.mem[4:], uint32(n))
}
