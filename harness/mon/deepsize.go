package mon

import (
	"reflect"
	"sort"
	"unsafe"
)

// DeepSize is the number of bytes reachable from v.  Every allocation is counted once: pointers by identity,
// slice and string backing stores as the UNION of the address ranges they cover (sub-slices of one buffer
// with large capacities are not counted repeatedly).
func DeepSize(v any) int64 {
	seen := map[uintptr]bool{}
	type span struct{ lo, hi uintptr }
	var spans []span
	var walk func(rv reflect.Value, counted bool) int64
	walk = func(rv reflect.Value, counted bool) int64 {
		if !rv.IsValid() {
			return 0
		}
		var sz int64
		if !counted {
			sz = int64(rv.Type().Size())
		}
		switch rv.Kind() {
		case reflect.Pointer:
			if rv.IsNil() {
				return sz
			}
			p := rv.Pointer()
			if seen[p] {
				return sz
			}
			seen[p] = true
			return sz + walk(rv.Elem(), false)
		case reflect.Interface:
			if rv.IsNil() {
				return sz
			}
			e := rv.Elem()
			if e.Kind() == reflect.Pointer {
				return sz + walk(e, true)
			}
			return sz + walk(e, false)
		case reflect.Slice:
			if rv.IsNil() {
				return sz
			}
			p := rv.Pointer()
			es := uintptr(rv.Type().Elem().Size())
			if rv.Cap() > 0 && es > 0 {
				spans = append(spans, span{p, p + uintptr(rv.Cap())*es})
			}
			k := rv.Type().Elem().Kind()
			if k == reflect.Pointer || k == reflect.Interface || k == reflect.Slice || k == reflect.String || k == reflect.Struct || k == reflect.Map || k == reflect.Array {
				key := p ^ uintptr(rv.Len())<<48
				if !seen[key] {
					seen[key] = true
					for i := 0; i < rv.Len(); i++ {
						sz += walk(rv.Index(i), true)
					}
				}
			}
			return sz
		case reflect.String:
			if rv.Len() > 0 {
				p := uintptr(unsafe.Pointer(unsafe.StringData(rv.String())))
				spans = append(spans, span{p, p + uintptr(rv.Len())})
			}
			return sz
		case reflect.Struct:
			for i := 0; i < rv.NumField(); i++ {
				sz += walk(rv.Field(i), true)
			}
			return sz
		case reflect.Array:
			for i := 0; i < rv.Len(); i++ {
				sz += walk(rv.Index(i), true)
			}
			return sz
		case reflect.Map:
			if rv.IsNil() {
				return sz
			}
			sz += 48
			it := rv.MapRange()
			for it.Next() {
				sz += 16 + walk(it.Key(), false) + walk(it.Value(), false)
			}
			return sz
		}
		return sz
	}
	total := walk(reflect.ValueOf(v), false)
	sort.Slice(spans, func(i, j int) bool { return spans[i].lo < spans[j].lo })
	var curLo, curHi uintptr
	for i, s := range spans {
		if i == 0 || s.lo > curHi {
			total += int64(curHi - curLo)
			curLo, curHi = s.lo, s.hi
		} else if s.hi > curHi {
			curHi = s.hi
		}
	}
	total += int64(curHi - curLo)
	return total
}
