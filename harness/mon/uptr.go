package mon

import "unsafe"

func uintptrOf(b []byte) uintptr { return uintptr(unsafe.Pointer(unsafe.SliceData(b))) }
