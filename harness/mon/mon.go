// Package mon holds the monitors' shared plumbing: per-process recorder of
// evaluations, shapes, counters, samples, violations; crash guard; seeded RNG.
package mon

import (
	"encoding/hex"
	"encoding/json"
	"fmt"
	"hash/fnv"
	"math/rand/v2"
	"os"
	"runtime/debug"
	"sort"
	"strconv"
	"strings"
	"sync"
	"sync/atomic"
)

// Violation is one observed refutation of the property.
type Violation struct {
	Key    string `json:"key"`    // stable identity: oracle id + minimal failing shape / crash site
	Msg    string `json:"msg"`    // what the oracle saw
	Replay any    `json:"replay"` // the case (input bytes, script, ...) that replays it
}

// Rec is the per-process recorder. All methods are safe for concurrent use.
type Rec struct {
	Prop    string
	Seed    uint64
	Tier    string
	Shard   int
	NShards int
	out     string

	cur         atomic.Pointer[curBox]
	evalsAtomic int64 // progress counter read by the watchdog

	mu        sync.Mutex
	evals     int64
	shapesNT  map[uint64]struct{}
	shapesAll map[uint64]struct{}
	counters  map[string]int64
	samples   []any
	viol      []Violation
	violKeys  map[string]int
	incon     map[string]int64
	extra     map[string]any
	capped    bool
}

const maxShapes = 400000

func envInt(k string, def int) int {
	if v := os.Getenv(k); v != "" {
		if n, err := strconv.Atoi(v); err == nil {
			return n
		}
	}
	return def
}

// New reads VERIF_SEED, VERIF_TIER, VERIF_SHARD, VERIF_NSHARDS, VERIF_OUT.
func New(prop string) *Rec {
	r := &Rec{Prop: prop, Tier: os.Getenv("VERIF_TIER"), out: os.Getenv("VERIF_OUT")}
	if r.Tier == "" {
		r.Tier = "quick"
	}
	r.Seed = uint64(envInt("VERIF_SEED", 1))
	r.Shard = envInt("VERIF_SHARD", 0)
	r.NShards = envInt("VERIF_NSHARDS", 1)
	r.shapesNT = map[uint64]struct{}{}
	r.shapesAll = map[uint64]struct{}{}
	r.counters = map[string]int64{}
	r.violKeys = map[string]int{}
	r.incon = map[string]int64{}
	r.extra = map[string]any{}
	return r
}

func (r *Rec) Quick() bool { return r.Tier != "thorough" }

// Pick returns q for the quick tier and t for the thorough tier.
func (r *Rec) Pick(q, t int) int {
	if r.Quick() {
		return q
	}
	return t
}

// Mine reports whether case index i belongs to this shard.
func (r *Rec) Mine(i int) bool { return r.NShards <= 1 || i%r.NShards == r.Shard }

func h64(s string) uint64 {
	h := fnv.New64a()
	h.Write([]byte(s))
	return h.Sum64()
}

// Rand gives the deterministic generator of case idx in the named stream.
// It depends only on (seed, stream, idx), never on the shard or on time.
func (r *Rec) Rand(stream string, idx int) *rand.Rand {
	return rand.New(rand.NewPCG(r.Seed*0x9E3779B97F4A7C15+h64(stream), uint64(idx)*0xD1342543DE82EF95+1))
}

func (r *Rec) Eval(n int) {
	atomic.AddInt64(&r.evalsAtomic, int64(n))
	r.mu.Lock()
	r.evals += int64(n)
	r.mu.Unlock()
}

// Shape records the shape of a case; distinct non-trivial shapes are counted.
func (r *Rec) Shape(shape string, nontrivial bool) {
	h := h64(shape)
	r.mu.Lock()
	if len(r.shapesAll) < maxShapes {
		r.shapesAll[h] = struct{}{}
	} else {
		r.capped = true
	}
	if nontrivial {
		if len(r.shapesNT) < maxShapes {
			r.shapesNT[h] = struct{}{}
		} else {
			r.capped = true
		}
	}
	r.mu.Unlock()
}

func (r *Rec) Count(key string, n int) {
	r.mu.Lock()
	r.counters[key] += int64(n)
	r.mu.Unlock()
}

// Max keeps the maximum of a measured quantity.
func (r *Rec) Max(key string, v int64) {
	r.mu.Lock()
	if v > r.counters["max."+key] {
		r.counters["max."+key] = v
	}
	r.mu.Unlock()
}

func (r *Rec) Set(key string, v any) {
	r.mu.Lock()
	r.extra[key] = v
	r.mu.Unlock()
}

// Sample keeps the first few cases so that evidence shows real ones.
func (r *Rec) Sample(v any) {
	r.mu.Lock()
	if len(r.samples) < 6 {
		r.samples = append(r.samples, v)
	}
	r.mu.Unlock()
}

func (r *Rec) NSamples() int {
	r.mu.Lock()
	defer r.mu.Unlock()
	return len(r.samples)
}

// Violate records a violation; at most 3 replays are kept per key.
func (r *Rec) Violate(key, msg string, replay any) {
	r.mu.Lock()
	r.violKeys[key]++
	if r.violKeys[key] <= 3 && len(r.viol) < 200 {
		r.viol = append(r.viol, Violation{key, msg, replay})
	}
	r.mu.Unlock()
}

func (r *Rec) NViolations() int {
	r.mu.Lock()
	defer r.mu.Unlock()
	n := 0
	for _, c := range r.violKeys {
		n += c
	}
	return n
}

func (r *Rec) Inconclusive(reason string) {
	r.mu.Lock()
	r.incon[reason]++
	r.mu.Unlock()
}

func keys(m map[uint64]struct{}) []string {
	out := make([]string, 0, len(m))
	for k := range m {
		out = append(out, strconv.FormatUint(k, 36))
	}
	sort.Strings(out)
	return out
}

// Flush writes the shard result for the driver.
func (r *Rec) Flush() error {
	r.mu.Lock()
	defer r.mu.Unlock()
	res := map[string]any{
		"property": r.Prop, "seed": r.Seed, "tier": r.Tier, "shard": r.Shard, "nshards": r.NShards,
		"evaluations": r.evals, "shapes_nontrivial": keys(r.shapesNT), "shapes_all": len(r.shapesAll),
		"counters": r.counters, "samples": r.samples, "violations": r.viol, "violation_counts": r.violKeys,
		"inconclusive": r.incon, "extra": r.extra, "shapes_capped": r.capped, "complete": true,
	}
	b, err := json.Marshal(res)
	if err != nil {
		return err
	}
	if r.out == "" {
		fmt.Fprintf(os.Stderr, "mon: VERIF_OUT unset; evaluations=%d violations=%d\n", r.evals, len(r.viol))
		for _, v := range r.viol {
			fmt.Fprintf(os.Stderr, "  VIOL %s: %s\n", v.Key, v.Msg)
		}
		return nil
	}
	tmp := r.out + ".tmp"
	if err := os.WriteFile(tmp, b, 0o644); err != nil {
		return err
	}
	return os.Rename(tmp, r.out)
}

// Guard runs fn and converts a panic into (true, value, stack).
func Guard(fn func()) (panicked bool, val any, stack string) {
	defer func() {
		if v := recover(); v != nil {
			panicked, val, stack = true, v, string(debug.Stack())
		}
	}()
	fn()
	return
}

// LibFrame returns the first function of the module under test in a stack
// (function name without line numbers): the identity of a crash site.
func LibFrame(stack string) string {
	for _, ln := range strings.Split(stack, "\n") {
		ln = strings.TrimSpace(ln)
		if strings.HasPrefix(ln, "github.com/insomniacslk/dhcp/") {
			if i := strings.LastIndex(ln, "("); i > 0 {
				ln = ln[:i]
			}
			return strings.TrimPrefix(ln, "github.com/insomniacslk/dhcp/")
		}
	}
	return "unknown"
}

func Hex(b []byte) string { return hex.EncodeToString(b) }

func UnHex(s string) []byte {
	b, _ := hex.DecodeString(s)
	return b
}

// ReplayCase loads the "case" member of a replay file named by VERIF_REPLAY.
func ReplayCase(into any) bool {
	p := os.Getenv("VERIF_REPLAY")
	if p == "" {
		return false
	}
	b, err := os.ReadFile(p)
	if err != nil {
		panic(err)
	}
	var w struct {
		Replay json.RawMessage `json:"replay"`
	}
	if err := json.Unmarshal(b, &w); err != nil {
		panic(err)
	}
	if err := json.Unmarshal(w.Replay, into); err != nil {
		panic(err)
	}
	return true
}
