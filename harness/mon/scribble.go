package mon

import (
	"bytes"
	"net"
	"reflect"
)

// Scribble overwrites everything reachable from v through exported fields, slices, maps, pointers and interfaces:
// bytes are inverted, integers changed, slices reordered.  A decoder's result belongs to the caller; a caller that
// writes all over it must not thereby change what any later, unrelated operation returns.  (Used after a result has
// been judged, so that state shared between results -- interned values, pooled buffers, memo tables -- shows up as a
// wrong result of a LATER case, which the case's own oracle then reports.)
func Scribble(v any) {
	scribble(reflect.ValueOf(v), 0, map[uintptr]bool{})
}

func scribble(v reflect.Value, depth int, seen map[uintptr]bool) {
	if depth > 12 || !v.IsValid() {
		return
	}
	switch v.Kind() {
	case reflect.Slice:
		if v.Len() > 0 {
			p := v.Pointer()
			if seen[p] {
				return
			}
			seen[p] = true
		}
		for i := 0; i < v.Len(); i++ {
			scribble(v.Index(i), depth+1, seen)
		}
	case reflect.Array:
		for i := 0; i < v.Len(); i++ {
			scribble(v.Index(i), depth+1, seen)
		}
	case reflect.Pointer:
		if !v.IsNil() {
			if seen[v.Pointer()] {
				return
			}
			seen[v.Pointer()] = true
			scribble(v.Elem(), depth+1, seen)
		}
	case reflect.Interface:
		if !v.IsNil() {
			scribble(v.Elem(), depth+1, seen)
		}
	case reflect.Map:
		it := v.MapRange()
		for it.Next() {
			scribble(it.Value(), depth+1, seen)
		}
	case reflect.Struct:
		for i := 0; i < v.NumField(); i++ {
			if v.Type().Field(i).IsExported() {
				scribble(v.Field(i), depth+1, seen)
			}
		}
	case reflect.Uint8, reflect.Uint16, reflect.Uint32, reflect.Uint64, reflect.Uint:
		if v.CanSet() {
			v.SetUint(^v.Uint())
		}
	case reflect.Int8, reflect.Int16, reflect.Int32, reflect.Int64, reflect.Int:
		if v.CanSet() {
			v.SetInt(v.Int() ^ 0x55)
		}
	case reflect.String:
		if v.CanSet() {
			v.SetString("scribbled")
		}
	}
}

type canary struct {
	name string
	p    *[]byte
	orig []byte
}

var canaries []canary

// Canary registers a process-wide byte-slice value (e.g. net.IPv4zero) that no operation under test may ever change.
func Canary(name string, p *[]byte) {
	canaries = append(canaries, canary{name, p, append([]byte{}, (*p)...)})
}

func init() {
	for _, c := range []struct {
		n string
		p *net.IP
	}{{"net.IPv4zero", &net.IPv4zero}, {"net.IPv4bcast", &net.IPv4bcast}, {"net.IPv4allsys", &net.IPv4allsys}, {"net.IPv4allrouter", &net.IPv4allrouter},
		{"net.IPv6zero", &net.IPv6zero}, {"net.IPv6unspecified", &net.IPv6unspecified}, {"net.IPv6loopback", &net.IPv6loopback},
		{"net.IPv6linklocalallnodes", &net.IPv6linklocalallnodes}, {"net.IPv6linklocalallrouters", &net.IPv6linklocalallrouters}} {
		Canary(c.n, (*[]byte)(c.p))
	}
}

// CanariesChanged returns the names of the registered process-wide values that no longer hold their original bytes,
// and restores them.
func CanariesChanged() []string {
	var out []string
	for _, c := range canaries {
		if !bytes.Equal(*c.p, c.orig) || len(*c.p) != len(c.orig) {
			out = append(out, c.name)
			*c.p = append([]byte{}, c.orig...)
		}
	}
	return out
}
