package c13

import (
	"context"
	"encoding/binary"
	"errors"
	"fmt"
	"math/rand/v2"
	"net"
	"os"
	"strings"
	"sync"
	"testing"
	"testing/synctest"
	"time"

	"github.com/insomniacslk/dhcp/dhcpv4"
	"github.com/insomniacslk/dhcp/dhcpv4/nclient4"
	"verif/harness/cli"
	"verif/harness/mon"
	"verif/harness/proj"
	"verif/harness/ref4"
	"verif/harness/sconn"
)

var mac = net.HardwareAddr{0x02, 0x00, 0x5e, 0x10, 0x00, 0x01}

// the hardware addresses a client may have: Ethernet, EUI-64, the longest chaddr can hold, a one-octet address
var hwAddrs = []net.HardwareAddr{
	mac,
	{0x02, 0x00, 0x5e, 0xff, 0xfe, 0x10, 0x00, 0x01},
	{0x80, 0, 0, 0, 0xfe, 0x80, 0, 0, 0, 0, 0, 0, 0x02, 0x11, 0x22, 0x33},
	{0x2a},
}

func macOf(sc scenario) net.HardwareAddr { return hwAddrs[sc.HW%len(hwAddrs)] }

const T = 100 * time.Millisecond

type reaction struct {
	Kind  string `json:"kind"`
	Delay int    `json:"delay_ms"`
}

type server struct {
	ID        [4]byte    `json:"id"`
	Addr      [4]byte    `json:"addr"`
	AckAddr   [4]byte    `json:"ack_addr"` // yiaddr carried by this server's ACKs (may differ from the offer)
	OnDisc    []reaction `json:"on_discover"`
	OnRequest []reaction `json:"on_request"`
	OnRenew   []reaction `json:"on_renew"`
}

type scenario struct {
	Servers []server `json:"servers"`
	Bcast   bool     `json:"broadcast_flag"`
	Cfg     int      `json:"cfg"`                 // client logging configuration (cli.LogOpts4)
	HW      int      `json:"hw,omitempty"`        // which hardware address the client has (hwAddrs): 6, 8 (EUI-64), 16 octets, 1 octet
	Unicast bool     `json:"unicast_server_addr"` // the client is configured with WithServerAddr(<unicast>): it changes where the client sends, nothing else
	Extra   int      `json:"extra_options,omitempty"` // further options the caller puts into its messages (extraMods); the scripted servers echo none of them
}

// extraMods: what callers commonly add to their DISCOVER and REQUEST -- a client identifier (type 1 + hardware address, or
// type 255 + IAID + DUID), a maximum message size, a parameter request list, a user class, a client FQDN.  Which reply
// completes an exchange depends on none of them.
func extraMods(kind int, mac net.HardwareAddr) []dhcpv4.Modifier {
	switch kind {
	case 1:
		return []dhcpv4.Modifier{dhcpv4.WithOption(dhcpv4.OptClientIdentifier(append([]byte{1}, mac...)))}
	case 2:
		return []dhcpv4.Modifier{
			dhcpv4.WithOption(dhcpv4.OptClientIdentifier(append([]byte{255, 0, 0, 0, 1, 0, 3, 0, 1}, mac...))),
			dhcpv4.WithOption(dhcpv4.OptMaxMessageSize(576)),
			dhcpv4.WithRequestedOptions(dhcpv4.OptionSubnetMask, dhcpv4.OptionRouter, dhcpv4.OptionDomainNameServer, dhcpv4.OptionClasslessStaticRoute),
			dhcpv4.WithOption(dhcpv4.OptGeneric(dhcpv4.OptionUserClassInformation, []byte{4, 'v', 'r', 'f', 'y'})),
			dhcpv4.WithOption(dhcpv4.OptGeneric(dhcpv4.OptionFQDN, append([]byte{1, 0, 0}, "verif-host.example."...))),
		}
	}
	return nil
}

// notype: a plain BOOTP reply (no option 53); badtype: option 53 with two octets; inform: a message type no exchange
// waits for.  All three carry the right transaction id, hardware address and the server's identifier: "everything else is ignored".
// ack-rapid: an ACK with the Rapid Commit option (80) in answer to a DISCOVER that did not ask for it; ack-longsid /
// nak-longsid: option 54 holds the right server's address followed by four more octets (sent as one 8-octet option or as
// two instances, which is the same value): not that server's identifier.
var discKinds = []string{"notype", "badtype", "inform", "offer", "offer", "offer-dup", "offer-wrongxid", "ack-instead", "nak-instead", "ack-rapid", "undecodable", "empty", "one-octet", "offer-wronghw", "offer-emptyhw", "offer-request-opcode", "inform-x40", "silence"}
var reqKinds = []string{"notype", "badtype", "inform", "ack", "ack", "nak", "ack-othersid", "ack-nosid", "ack-longsid", "nak-longsid", "offer-again", "ack-wrongxid", "nak-othersid", "undecodable", "empty", "one-octet", "offer-again-x40", "silence"}

func genScenario(rng *rand.Rand, maxServers, maxReact int) scenario {
	sc := scenario{Bcast: rng.IntN(2) == 0, Cfg: rng.IntN(cli.NCfg), Unicast: rng.IntN(3) == 0}
	if rng.IntN(3) == 0 {
		sc.HW = 1 + rng.IntN(3)
	}
	if rng.IntN(2) == 0 {
		sc.Extra = 1 + rng.IntN(2)
	}
	ns := rng.IntN(maxServers + 1)
	for s := 0; s < ns; s++ {
		sv := server{ID: [4]byte{10, 0, byte(s + 1), 1}, Addr: [4]byte{192, 168, byte(s + 1), byte(10 + rng.IntN(200))}}
		sv.AckAddr = sv.Addr
		if rng.IntN(4) == 0 {
			sv.AckAddr = [4]byte{192, 168, byte(s + 1), byte(10 + rng.IntN(200))}
		}
		pick := func(kinds []string) []reaction {
			var out []reaction
			for i := 0; i < rng.IntN(maxReact+1); i++ {
				out = append(out, reaction{kinds[rng.IntN(len(kinds))], []int{0, 0, 1, 30, 99, 101, 150, 250}[rng.IntN(8)]})
			}
			return out
		}
		sv.OnDisc, sv.OnRequest, sv.OnRenew = pick(discKinds), pick(reqKinds), pick(reqKinds)
		if s == 0 && rng.IntN(12) == 0 {
			// a chatty server: forty replies of a kind the exchange ignores, then, a little later in the same try, the one
			// that counts
			sv.OnDisc = []reaction{{"inform-x40", 0}, {"offer", 1 + rng.IntN(30)}}
			sv.OnRequest = []reaction{{"offer-again-x40", 0}, {[]string{"ack", "nak"}[rng.IntN(2)], 1 + rng.IntN(30)}}
			sv.OnRenew = []reaction{{"offer-again-x40", 0}, {"ack", 1 + rng.IntN(30)}}
		} else if s == 0 && rng.IntN(10) < 7 { // most scenarios reach the REQUEST phase
			sv.OnDisc = append([]reaction{{"offer", []int{0, 1, 50, 150}[rng.IntN(4)]}}, sv.OnDisc...)
		}
		sc.Servers = append(sc.Servers, sv)
	}
	return sc
}

type injected struct {
	nonce  int
	kind   string
	server int
	mtype  int // 2 offer 5 ack 6 nak
	xid    [4]byte
	sid    []byte
	yi     [4]byte
	class  string // valid | dropped (wrong xid/hw/opcode/undecodable)
	retSeq int64
	canon  string // the datagram as an independent decoder reads it ("" if it does not decode)
	taken  bool   // a read of the client's took it off the wire (false: still unread when the client was closed)
}

type txrec struct {
	seq  int64
	p    *ref4.P4
	dest net.Addr
	raw  []byte
}

type world struct {
	mac  net.HardwareAddr
	mu   sync.Mutex
	inj  map[int]*injected
	tx   []txrec
	next int
}

func bytesOf(n int, seed byte) []byte {
	b := make([]byte, n)
	for i := range b {
		b[i] = seed + byte(i)*3 | 1
	}
	return b
}

func nonceOf(p *dhcpv4.DHCPv4) int {
	if p == nil {
		return -1
	}
	if v := p.Options.Get(dhcpv4.GenericOptionCode(224)); len(v) == 4 {
		return int(binary.BigEndian.Uint32(v))
	}
	return -1
}

// build a server datagram by hand-written rules (library only used as an encoder of field values chosen here)
func (w *world) datagram(sv *server, si int, kind string, req *ref4.P4) (*injected, []byte) {
	w.mu.Lock()
	w.next++
	n := w.next
	w.mu.Unlock()
	in := &injected{nonce: n, kind: kind, server: si, class: "valid"}
	p := &dhcpv4.DHCPv4{OpCode: dhcpv4.OpcodeBootReply, HWType: 1, ClientHWAddr: append(net.HardwareAddr{}, w.mac...), Options: dhcpv4.Options{}}
	copy(p.TransactionID[:], req.Xid[:])
	p.YourIPAddr = net.IP(sv.Addr[:])
	sid := sv.ID[:]
	mt := dhcpv4.MessageTypeOffer
	switch kind {
	case "offer", "offer-dup", "offer-again":
	case "offer-wrongxid":
		p.TransactionID[0] ^= 0x80
		in.class = "dropped"
	case "offer-wronghw":
		p.ClientHWAddr[len(p.ClientHWAddr)-1] ^= 1
		in.class = "dropped"
	case "offer-emptyhw":
		p.ClientHWAddr = nil
		in.class = "dropped"
	case "offer-request-opcode":
		p.OpCode = dhcpv4.OpcodeBootRequest
		in.class = "dropped"
	case "ack-instead", "ack":
		mt = dhcpv4.MessageTypeAck
		p.YourIPAddr = net.IP(sv.AckAddr[:])
	case "nak-instead", "nak":
		mt = dhcpv4.MessageTypeNak
		p.YourIPAddr = nil
	case "ack-othersid":
		mt = dhcpv4.MessageTypeAck
		sid = []byte{172, 16, 99, byte(si + 1)}
	case "nak-othersid":
		mt = dhcpv4.MessageTypeNak
		sid = []byte{172, 16, 98, byte(si + 1)}
	case "ack-nosid":
		mt = dhcpv4.MessageTypeAck
		sid = nil
	case "ack-longsid":
		mt = dhcpv4.MessageTypeAck
		sid = append(append([]byte{}, sv.ID[:]...), 172, 16, 97, byte(si+1))
	case "nak-longsid":
		mt = dhcpv4.MessageTypeNak
		sid = append(append([]byte{}, sv.ID[:]...), sv.ID[:]...)
	case "ack-rapid":
		mt = dhcpv4.MessageTypeAck
		p.YourIPAddr = net.IP(sv.AckAddr[:])
		p.UpdateOption(dhcpv4.OptGeneric(dhcpv4.GenericOptionCode(80), nil))
	case "ack-wrongxid":
		mt = dhcpv4.MessageTypeAck
		p.TransactionID[3] ^= 1
		in.class = "dropped"
	case "notype", "badtype":
		mt = dhcpv4.MessageTypeNone
		p.YourIPAddr = net.IP{192, 168, byte(si + 1), 251}
	case "inform":
		mt = dhcpv4.MessageTypeInform
		p.YourIPAddr = net.IP{192, 168, byte(si + 1), 252}
	}
	switch kind {
	case "notype":
	case "badtype":
		p.UpdateOption(dhcpv4.OptGeneric(dhcpv4.OptionDHCPMessageType, []byte{5, 2}))
	default:
		p.UpdateOption(dhcpv4.OptMessageType(mt))
	}
	if sid != nil {
		p.UpdateOption(dhcpv4.OptGeneric(dhcpv4.OptionServerIdentifier, sid))
	}
	// the lease time is the server's choice: an hour, a second (the lease has run out by the time the client renews, 1.5 s
	// later: renewal is what the caller asked for all the same), infinity, none given
	switch n % 6 {
	case 1:
		p.UpdateOption(dhcpv4.OptIPAddressLeaseTime(time.Second))
	case 3:
	case 5:
		p.UpdateOption(dhcpv4.OptIPAddressLeaseTime(0xffffffff * time.Second))
	default:
		p.UpdateOption(dhcpv4.OptIPAddressLeaseTime(3600 * time.Second))
	}
	// fields and options the exchange rules do not look at, varied per datagram: a next-server address that is not the
	// server identifier (a boot server), a relay address, a boot file, the usual lease options
	if n%2 == 0 {
		p.ServerIPAddr = net.IP{10, 200, byte(si + 1), byte(1 + n%250)}
		p.BootFileName = "pxelinux.0"
	}
	if n%3 == 0 {
		p.GatewayIPAddr = net.IP{10, 201, byte(si + 1), 1}
	}
	switch n % 4 { // a server that fills in the client-address field of its replies (with the address it hands out, or another)
	case 1:
		if p.YourIPAddr != nil {
			p.ClientIPAddr = append(net.IP{}, p.YourIPAddr.To4()...)
		}
	case 3:
		if n%8 == 3 {
			p.ClientIPAddr = net.IP{10, 203, byte(si + 1), byte(n)}
		}
	}
	if n%5 == 3 { // relayed replies: hop count, seconds and the broadcast bit as some relay or server left them
		p.HopCount, p.NumSeconds = 3, 7
		p.SetBroadcast()
	}
	if n%5 < 2 {
		p.ServerHostName = "boot-server"
	}
	if n%3 != 1 {
		p.UpdateOption(dhcpv4.OptSubnetMask(net.IPMask{255, 255, 255, 0}))
		p.UpdateOption(dhcpv4.OptRouter(net.IP{192, 168, byte(si + 1), 1}))
		p.UpdateOption(dhcpv4.OptDNS(net.IP{10, 202, 0, 53}, net.IP{10, 202, 1, 53}))
		p.UpdateOption(dhcpv4.OptRenewTimeValue(1800 * time.Second))
	}
	var nb [4]byte
	binary.BigEndian.PutUint32(nb[:], uint32(n))
	p.UpdateOption(dhcpv4.OptGeneric(dhcpv4.GenericOptionCode(224), nb[:]))
	in.mtype, in.xid, in.sid = int(mt), p.TransactionID, sid
	copy(in.yi[:], p.YourIPAddr.To4())
	if n%7 == 3 || n%7 == 5 { // exactly the maximum message size the client announces (1500 octets), and one octet less
		target := 1500 - (n%7-3)/2
		for v := 1150; v < 1270; v++ {
			p.UpdateOption(dhcpv4.OptGeneric(dhcpv4.GenericOptionCode(250), bytesOf(v, byte(n))))
			if len(p.ToBytes()) == target {
				break
			}
			p.Options.Del(dhcpv4.GenericOptionCode(250))
		}
	}
	b := p.ToBytes()
	if n%6 == 2 && len(b) >= 236 {
		// header names that fill their fields to the last octet (64 and 128 octets, no NUL): no encoder of this library
		// writes them, servers that copy names into fixed fields do
		for i := 44; i < 108; i++ {
			b[i] = 'a' + byte((i+n)%26)
		}
		if n%12 == 2 {
			for i := 108; i < 236; i++ {
				b[i] = 'A' + byte((i+n)%26)
			}
		}
	}
	if q, ok, _ := ref4.Decode(b); ok {
		in.canon = q.Canon()
	}
	switch kind {
	case "undecodable":
		b = b[:100]
		in.class = "dropped"
	case "empty": // a datagram without payload is a datagram like any other undecodable one
		b = []byte{}
		in.class = "dropped"
	case "one-octet":
		b = b[:1]
		in.class = "dropped"
	}
	w.mu.Lock()
	w.inj[n] = in
	w.mu.Unlock()
	return in, b
}

type outcome struct {
	reqTook                                       time.Duration // virtual time Request() took
	lease                                         *nclient4.Lease
	reqErr                                        error
	renewed                                       *nclient4.Lease
	renewErr                                      error
	relErr                                        error
	tx                                            []txrec
	inj                                           map[int]*injected
	events                                        []sconn.Event
	reqRetSeq, renewStartSeq, renewRetSeq, relSeq int64
}

func run(t *testing.T, sc scenario) (o outcome) {
	w := &world{inj: map[int]*injected{}, mac: macOf(sc)}
	synctest.Test(t, func(t *testing.T) {
		conn := sconn.New(0)
		txCh := make(chan txrec, 64)
		conn.OnWrite = func(wr sconn.Write) {
			p, ok, _ := ref4.Decode(wr.B)
			if !ok {
				p = nil
			}
			rec := txrec{seq: wr.Seq, p: p, dest: wr.Dest, raw: wr.B}
			w.mu.Lock()
			w.tx = append(w.tx, rec)
			w.mu.Unlock()
			select {
			case txCh <- rec:
			default:
			}
		}
		stop := make(chan struct{})
		var swg sync.WaitGroup
		swg.Add(1)
		go func() { // the scripted servers
			defer swg.Done()
			for {
				select {
				case <-stop:
					return
				case rec := <-txCh:
					if rec.p == nil || len(rec.p.Opts[53]) != 1 {
						continue
					}
					for si := range sc.Servers {
						sv := &sc.Servers[si]
						var table []reaction
						switch {
						case rec.p.Opts[53][0] == 1:
							table = sv.OnDisc
						case rec.p.Opts[53][0] == 3 && rec.p.Opts[50] != nil:
							table = sv.OnRequest
						case rec.p.Opts[53][0] == 3:
							table = sv.OnRenew
						}
						for _, re := range table {
							if re.Kind == "silence" {
								continue
							}
							re := re
							swg.Add(1)
							go func() {
								defer swg.Done()
								select {
								case <-time.After(time.Duration(re.Delay) * time.Millisecond):
								case <-stop:
									return
								}
								// "-x40": forty replies of that kind in a row (a chatty or looping server): everything else is ignored
								// "in any multiplicity"
								kind, reps := re.Kind, 1
								if strings.HasSuffix(kind, "-x40") {
									kind, reps = strings.TrimSuffix(kind, "-x40"), 40
								}
								for ; reps > 1; reps-- {
									in, b := w.datagram(sv, si, kind, rec.p)
									ok := conn.Inject(sconn.Datagram{B: b, Nonce: in.nonce, Class: in.class, From: &net.UDPAddr{IP: net.IP(sv.ID[:]), Port: 67}})
									w.mu.Lock()
									in.taken = ok
									w.mu.Unlock()
								}
								in, b := w.datagram(sv, si, kind, rec.p)
								// where a reply comes from is not part of the exchange rules: the server's address and port 67,
								// another port (a server behind a translator, PXE's 4011), a relay's address
								from := &net.UDPAddr{IP: net.IP(sv.ID[:]), Port: 67}
								switch in.nonce % 5 {
								case 2:
									from.Port = []int{4011, 68, 1067, 65535}[in.nonce%4]
								case 4:
									from.IP = net.IP{10, 201, byte(si + 1), 1}
								}
								ok := conn.Inject(sconn.Datagram{B: b, Nonce: in.nonce, Class: in.class, From: from})
								w.mu.Lock()
								in.taken = ok
								w.mu.Unlock()
							}()
						}
					}
				}
			}
		}()
		restore := cli.QuietStderr()
		copts := append([]nclient4.ClientOpt{nclient4.WithTimeout(T), nclient4.WithRetry(2)}, cli.LogOpts4(sc.Cfg)...)
		if sc.Unicast {
			copts = append(copts, nclient4.WithServerAddr(&net.UDPAddr{IP: net.IP{10, 0, 1, 1}, Port: 67}))
		}
		c, err := nclient4.NewWithConn(conn, w.mac, copts...)
		restore()
		if err != nil {
			t.Fatal(err)
		}
		ctx := context.Background()
		// the caller's modifiers live in a list of its own with spare capacity (Request hands the same list to the
		// DISCOVER and to the REQUEST builder)
		mods := make([]dhcpv4.Modifier, 0, 12)
		if sc.Bcast {
			mods = append(mods, dhcpv4.WithBroadcast(true))
		}
		mods = append(mods, dhcpv4.WithOption(dhcpv4.OptHostName("verif-host")), dhcpv4.WithOption(dhcpv4.OptClassIdentifier("verif-class")), dhcpv4.WithOption(dhcpv4.OptGeneric(dhcpv4.GenericOptionCode(230), []byte{1, 2, 3})))
		mods = append(mods, extraMods(sc.Extra, w.mac)...)
		reqStart := time.Now()
		o.lease, o.reqErr = c.Request(ctx, mods...)
		o.reqTook = time.Since(reqStart)
		o.reqRetSeq = sconn.NextSeq()
		if o.lease != nil {
			time.Sleep(1500 * time.Millisecond) // stale replies of the first exchange have drained
			o.renewStartSeq = sconn.NextSeq()
			o.renewed, o.renewErr = c.Renew(ctx, o.lease)
			o.renewRetSeq = sconn.NextSeq()
			time.Sleep(time.Second)
			o.relSeq = sconn.NextSeq()
			l := o.lease
			if o.renewed != nil {
				l = o.renewed
			}
			o.relErr = c.Release(l)
		}
		time.Sleep(time.Second)
		close(stop)
		c.Close()
		swg.Wait()
		o.events = conn.Events()
	})
	o.tx, o.inj = w.tx, w.inj
	for _, e := range o.events {
		if e.Kind == "rx.return" {
			if in := o.inj[e.Nonce]; in != nil {
				in.retSeq = e.Seq
			}
		}
	}
	return o
}

func judge(r *mon.Rec, t *testing.T, sc scenario) {
	r.Current(sc)
	r.Eval(1)
	var o outcome
	pan, val, st := mon.Guard(func() { o = run(t, sc) })
	if pan {
		s := fmt.Sprint(val)
		key := "panic"
		if strings.HasPrefix(s, "deadlock") {
			key = "deadlock"
		}
		r.Violate("C13:"+key+":"+mon.LibFrame(st), s, sc)
		return
	}
	bad := func(key, msg string, a ...any) { r.Violate("C13:"+key, fmt.Sprintf(msg, a...), sc) }
	typeOf := func(p *ref4.P4) int {
		if p != nil && len(p.Opts[53]) == 1 {
			return int(p.Opts[53][0])
		}
		return -1
	}
	// the client keeps reading as long as it is open: whatever arrived (valid, foreign, undecodable, empty) was taken
	// off the wire before the client was closed
	for _, in := range o.inj {
		if !in.taken {
			bad("datagram-never-read", "datagram %d (kind %s) was still unread when the client was closed: the client had stopped reading", in.nonce, in.kind)
			return
		}
	}
	// an exchange that fails for want of an answer has waited for one through all its tries (T + 2T with two tries), however
	// many replies it had to ignore meanwhile
	if errors.Is(o.reqErr, nclient4.ErrNoResponse) && o.reqTook < 3*T {
		bad("gave-up-early", "Request failed with the no-response error after %v; two tries of %v and %v take %v", o.reqTook, T, 2*T, 3*T)
		return
	}
	// classify transmissions
	var discovers, requests, renews, releases []txrec
	for _, x := range o.tx {
		if x.p == nil {
			bad("undecodable-transmission", "the client transmitted bytes an independent decoder rejects")
			return
		}
		if string(x.p.CHAddr) != string(macOf(sc)) || x.p.Op != 1 {
			bad("tx-chaddr", "client transmission type %d carries chaddr %x op %d (client's hardware address %x)", typeOf(x.p), x.p.CHAddr, x.p.Op, []byte(macOf(sc)))
			return
		}
		switch {
		case typeOf(x.p) == 1:
			discovers = append(discovers, x)
		case typeOf(x.p) == 3 && (o.renewStartSeq == 0 || x.seq < o.renewStartSeq):
			requests = append(requests, x)
		case typeOf(x.p) == 3:
			renews = append(renews, x)
		case typeOf(x.p) == 7:
			releases = append(releases, x)
		}
	}
	if len(discovers) == 0 {
		bad("no-discover", "Request() transmitted no DISCOVER")
		return
	}
	dxid := discovers[0].p.Xid
	// the offer the exchange rules select: first valid OFFER of the discover's transaction delivered while DiscoverOffer waited
	firstAfter := func(after, before int64, pred func(*injected) bool) *injected {
		var best *injected
		for _, in := range o.inj {
			if in.retSeq > after && (before == 0 || in.retSeq < before) && in.class == "valid" && pred(in) {
				if best == nil || in.retSeq < best.retSeq {
					best = in
				}
			}
		}
		return best
	}
	isOffer := func(in *injected) bool { return in.mtype == 2 && in.xid == dxid }
	if len(requests) == 0 {
		// no REQUEST: then no valid OFFER may have been delivered during the discovery
		if o.lease != nil {
			bad("lease-without-request", "a lease was returned although no REQUEST was transmitted")
			return
		}
		if in := firstAfter(discovers[0].seq, o.reqRetSeq, isOffer); in != nil && in.sid != nil {
			// it may have arrived between two tries or after the last try's deadline: only flag offers delivered inside a try window
			// (conservative: the discovery lasted T + 2T; an offer delivered before the final failure instant belongs to a try)
			bad("offer-ignored", "a valid OFFER (nonce %d from server %d) was delivered during discovery but no REQUEST followed (error: %v)", in.nonce, in.server, o.reqErr)
			return
		}
		r.Shape(shapeOf(sc, "no-offer"), len(sc.Servers) > 0)
		r.Count("outcome.no-offer", 1)
		return
	}
	rq := requests[0].p
	// which offer does the REQUEST correspond to?
	var chosen *injected
	if o.lease != nil {
		chosen = o.inj[nonceOf(o.lease.Offer)]
	} else {
		var en *nclient4.ErrNak
		if errors.As(o.reqErr, &en) {
			chosen = o.inj[nonceOf(en.Offer)]
		}
	}
	if chosen == nil { // timeout after REQUEST: identify the offer by the REQUEST's own contents among delivered offers
		chosen = firstAfter(discovers[0].seq, requests[0].seq, func(in *injected) bool { return isOffer(in) && string(in.yi[:]) == string(rq.Opts[50]) })
	}
	if chosen == nil || chosen.mtype != 2 || chosen.xid != dxid || chosen.class != "valid" {
		bad("request-without-offer", "REQUEST (option 50 = %v, option 54 = %v) does not correspond to any valid OFFER delivered before it", rq.Opts[50], rq.Opts[54])
		return
	}
	if first := firstAfter(discovers[0].seq, requests[0].seq, isOffer); first != nil && first.nonce != chosen.nonce && first.retSeq < chosen.retSeq && len(discovers) == 1 {
		bad("not-first-offer", "the selected OFFER (nonce %d) is not the first valid one delivered (nonce %d)", chosen.nonce, first.nonce)
		return
	}
	if chosen.sid == nil {
		r.Count("unjudged.offer-without-server-id", 1) // outside the statement: crash/termination only
		return
	}
	for _, x := range requests {
		if x.p.Xid != chosen.xid || string(x.p.Opts[50]) != string(chosen.yi[:]) || string(x.p.Opts[54]) != string(chosen.sid) {
			bad("request-fields", "REQUEST carries xid %x requested address %v server id %v; the selected OFFER has xid %x address %v server id %v", x.p.Xid, x.p.Opts[50], x.p.Opts[54], chosen.xid, chosen.yi, chosen.sid)
			return
		}
	}
	// completion: first ACK/NAK of that transaction bearing the chosen server id, delivered while the REQUEST call waited
	completes := func(in *injected) bool {
		return (in.mtype == 5 || in.mtype == 6) && in.xid == chosen.xid && string(in.sid) == string(chosen.sid)
	}
	comp := firstAfter(requests[0].seq, o.reqRetSeq, completes)
	var en *nclient4.ErrNak
	switch {
	case o.lease != nil:
		ack := o.inj[nonceOf(o.lease.ACK)]
		if ack == nil || !completes(ack) || ack.mtype != 5 || ack.class != "valid" {
			bad("lease-from-wrong-completion", "lease.ACK is datagram %d (kind %v), not an ACK of the transaction bearing the selected server's identifier", nonceOf(o.lease.ACK), kindOf(ack))
			return
		}
		if comp != nil && comp.nonce != ack.nonce && comp.retSeq < ack.retSeq && len(requests) == 1 {
			bad("not-first-completion", "lease completed by datagram %d although %d (kind %s) was delivered first", ack.nonce, comp.nonce, comp.kind)
			return
		}
		// "a lease made of that very offer and ACK": what the lease holds reads like the datagrams that arrived
		for _, pr := range []struct {
			what string
			p    *dhcpv4.DHCPv4
			in   *injected
		}{{"Offer", o.lease.Offer, chosen}, {"ACK", o.lease.ACK, ack}} {
			if pr.p == nil || pr.in == nil || pr.in.canon == "" {
				continue
			}
			if g, ok := proj.P4(pr.p); !ok || g.Canon() != pr.in.canon {
				got := ""
				if ok {
					got = g.Canon()
				}
				bad("lease-holds-other-contents", "lease.%s is datagram %d but does not read like it: %.300s vs %.300s", pr.what, pr.in.nonce, got, pr.in.canon)
				return
			}
		}
		if nonceOf(o.lease.Offer) != chosen.nonce {
			bad("lease-offer", "lease.Offer is not the selected offer")
			return
		}
	case errors.As(o.reqErr, &en):
		nk := o.inj[nonceOf(en.Nak)]
		if nk == nil || !completes(nk) || nk.mtype != 6 {
			bad("nak-error-from-wrong-datagram", "ErrNak carries datagram %d (kind %v), not a NAK bearing the selected server's identifier", nonceOf(en.Nak), kindOf(nk))
			return
		}
		if comp != nil && comp.nonce != nk.nonce && comp.retSeq < nk.retSeq && len(requests) == 1 {
			bad("not-first-completion", "NAK %d reported although %d (kind %s) was delivered first", nk.nonce, comp.nonce, comp.kind)
			return
		}
	default:
		// failed without completion: no completing datagram may have been delivered within the first try window
		if comp != nil && len(requests) == 1 {
			bad("completion-ignored", "datagram %d (%s from server %d, bearing the selected server id) was delivered during the first try of the REQUEST but the call failed with %v", comp.nonce, comp.kind, comp.server, o.reqErr)
			return
		}
	}
	outc := "timeout"
	if o.lease != nil {
		outc = "lease"
	} else if en != nil {
		outc = "nak"
	}
	// renewal and release
	if o.lease != nil {
		leased := [4]byte{}
		copy(leased[:], o.lease.ACK.YourIPAddr.To4())
		for _, x := range renews {
			if x.p.CI != leased || x.p.Flags&0x8000 != 0 || x.p.Opts[50] != nil || x.p.Opts[54] != nil {
				bad("renew-fields", "renewal REQUEST: ciaddr %v (leased %v) flags %#x option50 %v option54 %v", x.p.CI, leased, x.p.Flags, x.p.Opts[50], x.p.Opts[54])
				return
			}
		}
		if len(renews) == 0 {
			bad("renew-not-sent", "Renew transmitted nothing")
			return
		}
		rcomp := func(in *injected) bool {
			return (in.mtype == 5 || in.mtype == 6) && in.xid == renews[0].p.Xid && string(in.sid) == string(chosen.sid)
		}
		var ren *nclient4.ErrNak
		switch {
		case o.renewed != nil:
			a := o.inj[nonceOf(o.renewed.ACK)]
			if a == nil || !rcomp(a) || a.mtype != 5 || a.retSeq < renews[0].seq {
				bad("renew-from-wrong-completion", "renewed lease's ACK is datagram %d (kind %v)", nonceOf(o.renewed.ACK), kindOf(a))
				return
			}
			outc += "+renewed"
		case errors.As(o.renewErr, &ren):
			a := o.inj[nonceOf(ren.Nak)]
			if a == nil || !rcomp(a) || a.mtype != 6 {
				bad("renew-nak-from-wrong-datagram", "renewal ErrNak carries datagram %d (kind %v)", nonceOf(ren.Nak), kindOf(a))
				return
			}
			outc += "+renew-nak"
		default:
			if cmp := firstAfter(renews[0].seq, o.renewRetSeq, rcomp); cmp != nil && len(renews) == 1 {
				bad("renew-completion-ignored", "datagram %d (%s) completes the renewal but Renew failed with %v", cmp.nonce, cmp.kind, o.renewErr)
				return
			}
			outc += "+renew-timeout"
		}
		fin := o.lease
		if o.renewed != nil {
			fin = o.renewed
		}
		var fl [4]byte
		copy(fl[:], fin.ACK.YourIPAddr.To4())
		if len(releases) != 1 {
			bad("release-count", "%d RELEASE messages transmitted, want exactly one", len(releases))
			return
		}
		rel := releases[0]
		ua, _ := rel.dest.(*net.UDPAddr)
		wantSrv := fin.ACK.Options.Get(dhcpv4.OptionServerIdentifier)
		if rel.p.CI != fl || ua == nil || ua.Port != 67 || !ua.IP.Equal(net.IP(wantSrv)) {
			bad("release-fields", "RELEASE ciaddr %v (leased %v) sent to %v (lease's server %v)", rel.p.CI, fl, rel.dest, wantSrv)
			return
		}
	}
	r.Shape(shapeOf(sc, outc), len(sc.Servers) > 0)
	r.Count("outcome."+outc, 1)
	r.Count("transmissions_decoded", len(o.tx))
	r.Count("datagrams_injected", len(o.inj))
	if r.NSamples() < 5 && len(sc.Servers) == 2 && o.lease != nil {
		r.Sample(map[string]any{"scenario": sc, "outcome": outc, "transmissions": len(o.tx), "injected": len(o.inj)})
	}
}

func kindOf(in *injected) string {
	if in == nil {
		return "<not injected>"
	}
	return in.kind
}

func shapeOf(sc scenario, outc string) string {
	s := outc
	for _, sv := range sc.Servers {
		s += "|"
		for _, re := range sv.OnDisc {
			s += re.Kind[:3] + fmt.Sprint(re.Delay/100)
		}
		s += "/"
		for _, re := range sv.OnRequest {
			s += re.Kind + fmt.Sprint(re.Delay/100)
		}
	}
	return s
}

// enumerate: all tables with <= 2 servers and <= 1 reaction per phase (delays 0 / 150 ms)
func enumerate() []scenario {
	var out []scenario
	dk := []string{"notype", "offer", "offer-wrongxid", "ack-instead", "nak-instead", "undecodable", "empty", "silence"}
	rk := []string{"notype", "badtype", "ack", "nak", "ack-othersid", "ack-nosid", "offer-again", "ack-wrongxid", "silence"}
	mk := func(i int, d, q string, delay int) server {
		return server{ID: [4]byte{10, 0, byte(i + 1), 1}, Addr: [4]byte{192, 168, byte(i + 1), 50}, AckAddr: [4]byte{192, 168, byte(i + 1), 50},
			OnDisc: []reaction{{d, delay}}, OnRequest: []reaction{{q, 0}}, OnRenew: []reaction{{q, 0}}}
	}
	for _, d1 := range dk {
		for _, q1 := range rk {
			out = append(out, scenario{Servers: []server{mk(0, d1, q1, 0)}})
			for _, d2 := range dk {
				for _, q2 := range rk {
					out = append(out, scenario{Servers: []server{mk(0, d1, q1, 0), mk(1, d2, q2, 0)}})
					if d1 == "offer" && d2 == "offer" {
						out = append(out, scenario{Servers: []server{mk(0, d1, q1, 150), mk(1, d2, q2, 0)}})
					}
				}
			}
		}
	}
	return out
}

func TestCheck(t *testing.T) {
	r := mon.New("C13")
	defer r.Flush()
	if os.Getenv("VERIF_REPLAY") == "" {
		r.Watchdog(60 * time.Second)
	}
	var sc6 scenario6
	if mon.ReplayCase(&sc6) && sc6.V6 {
		judge6(r, t, sc6)
		return
	}
	var sc scenario
	if mon.ReplayCase(&sc) {
		judge(r, t, sc)
		return
	}
	en := enumerate()
	for i, sc := range en {
		if r.Mine(i) {
			judge(r, t, sc)
		}
	}
	r.Set("enumerated_tables", len(en))
	n := r.Pick(40000, 4000000)
	for i := 0; i < n; i++ {
		if r.Mine(i) {
			judge(r, t, genScenario(r.Rand("c13", i), 3, 2))
		}
	}
	v6part(r, t)
}
