package c13

import (
	"context"
	"encoding/binary"
	"fmt"
	"math/rand/v2"
	"net"
	"strings"
	"sync"
	"testing"
	"testing/synctest"
	"time"

	"github.com/insomniacslk/dhcp/dhcpv6"
	"github.com/insomniacslk/dhcp/dhcpv6/nclient6"
	"verif/harness/cli"
	"verif/harness/mon"
	"verif/harness/ref6"
	"verif/harness/sconn"
	"verif/harness/tree"
)

type scenario6 struct {
	Rapid     bool       `json:"rapid_solicit"`
	OnSolicit []reaction `json:"on_solicit"`
	OnRequest []reaction `json:"on_request"`
	V6        bool       `json:"v6"`
	Cfg       int        `json:"cfg"` // client logging configuration (cli.LogOpts6)
}

var solKinds = []string{"advertise", "advertise", "advertise-wrongxid", "reply", "reply-wrongxid", "undecodable", "empty", "one-octet", "advertise-nosid", "relay-typed", "relay-wrapped", "silence"}
var req6Kinds = []string{"reply", "reply", "reply-wrongxid", "advertise-samexid", "undecodable", "empty", "one-octet", "relay-wrapped", "silence"}

type inj6 struct {
	nonce  int
	kind   string
	mtype  int
	xid    [3]byte
	valid  bool
	retSeq int64
	tree   *tree.Node
	taken  bool // a read of the client's took it off the wire before the client was closed
}

func tlv6(code int, v []byte) []byte {
	return append([]byte{byte(code >> 8), byte(code), byte(len(v) >> 8), byte(len(v))}, v...)
}

// server datagrams are built by hand (no library code)
func dgram6(kind string, xid [3]byte, cid []byte, nonce int, idx int) (*inj6, []byte) {
	in := &inj6{nonce: nonce, kind: kind, xid: xid, valid: true}
	mt := 2
	switch kind {
	case "reply", "reply-wrongxid":
		mt = 7
	}
	x := xid
	if strings.HasSuffix(kind, "wrongxid") {
		x[2] ^= 1
		in.valid = false
	}
	b := []byte{byte(mt), x[0], x[1], x[2]}
	b = append(b, tlv6(1, cid)...)
	if kind != "advertise-nosid" {
		b = append(b, tlv6(2, []byte{0, 3, 0, 1, 0xaa, 0xbb, 0xcc, 0xdd, 0xee, byte(idx)})...)
	}
	addr := append(append([]byte{0x20, 0x01, 0x0d, 0xb8, 0, 0, 0, 0, 0, 0, 0, 0, 0, 0, 0, byte(idx + 1)}, 0, 0, 1, 0), 0, 0, 2, 0)
	if nonce%3 == 1 { // a status code inside the IA address
		addr = append(addr, tlv6(13, append([]byte{0, 0}, "addr ok"...))...)
	}
	ia := append([]byte{1, 2, 3, byte(idx), 0, 0, 0, 100, 0, 0, 0, 200}, tlv6(5, addr)...)
	switch nonce % 4 {
	case 1: // a status code, a second address and an option the library has no type for inside the IA_NA
		ia = append(ia, tlv6(13, append([]byte{0, 0}, "success"...))...)
		ia = append(ia, tlv6(5, append(append([]byte{0x20, 0x01, 0x0d, 0xb8, 0, 1, 0, 0, 0, 0, 0, 0, 0, 0, 0, byte(idx + 1)}, 0, 0, 0, 9), 0, 0, 0, 10))...)
	case 2:
		ia = append(ia, tlv6(65010, []byte{byte(nonce), 7, 7})...)
	}
	b = append(b, tlv6(3, ia)...)
	var nb [4]byte
	binary.BigEndian.PutUint32(nb[:], uint32(nonce))
	b = append(b, tlv6(65001, nb[:])...)
	in.mtype = mt
	switch kind {
	case "undecodable":
		b = b[:len(b)-3]
		in.valid = false
	case "empty": // a datagram without payload
		b = []byte{}
		in.valid = false
	case "one-octet":
		b = b[:1]
		in.valid = false
	case "relay-typed":
		b = append([]byte{13}, make([]byte, 33)...)
		in.valid = false
	case "relay-wrapped": // the right answer, but inside a Relay-reply: not a message for a client
		h := make([]byte, 34)
		h[0], h[17], h[33] = 13, 1, 2
		b = append(append(h, 0, 9, byte(len(b)>>8), byte(len(b))), b...)
		in.valid = false
	}
	in.xid = x
	if in.valid {
		in.tree = ref6.Decode(b).Tree
	}
	return in, b
}

func nonce6(m *dhcpv6.Message) int {
	if m == nil {
		return -1
	}
	if o := m.GetOneOption(65001); o != nil {
		if v := o.ToBytes(); len(v) == 4 {
			return int(binary.BigEndian.Uint32(v))
		}
	}
	return -1
}

type tx6 struct {
	seq  int64
	tree *tree.Node
	typ  int
	xid  [3]byte
}

type out6 struct {
	msg    *dhcpv6.Message
	err    error
	adv    *dhcpv6.Message
	tx     []tx6
	inj    map[int]*inj6
	retSeq int64
}

func sub(n *tree.Node, kind string) string {
	if n == nil {
		return "<nil>"
	}
	for _, k := range n.Kids {
		if k.Kind == kind {
			return k.String()
		}
	}
	return "<absent>"
}

func run6(t *testing.T, sc scenario6) (o out6) {
	o.inj = map[int]*inj6{}
	var mu sync.Mutex
	next := 0
	synctest.Test(t, func(t *testing.T) {
		conn := sconn.New(0)
		txCh := make(chan tx6, 64)
		var cidSeen []byte
		conn.OnWrite = func(w sconn.Write) {
			res := ref6.Decode(w.B)
			rec := tx6{seq: w.Seq, tree: res.Tree}
			if len(w.B) >= 4 {
				rec.typ = int(w.B[0])
				copy(rec.xid[:], w.B[1:4])
			}
			if rec.typ == 1 { // remember the client's DUID bytes for the server's answers
				for i := 4; i+4 <= len(w.B); {
					c, l := int(w.B[i])<<8|int(w.B[i+1]), int(w.B[i+2])<<8|int(w.B[i+3])
					if c == 1 && i+4+l <= len(w.B) {
						cidSeen = append([]byte{}, w.B[i+4:i+4+l]...)
					}
					i += 4 + l
				}
			}
			mu.Lock()
			o.tx = append(o.tx, rec)
			mu.Unlock()
			select {
			case txCh <- rec:
			default:
			}
		}
		stop := make(chan struct{})
		var swg sync.WaitGroup
		swg.Add(1)
		go func() {
			defer swg.Done()
			for {
				select {
				case <-stop:
					return
				case rec := <-txCh:
					table := sc.OnSolicit
					if rec.typ == 3 {
						table = sc.OnRequest
					} else if rec.typ != 1 {
						continue
					}
					for idx, re := range table {
						if re.Kind == "silence" {
							continue
						}
						re, idx := re, idx
						swg.Add(1)
						go func() {
							defer swg.Done()
							select {
							case <-time.After(time.Duration(re.Delay) * time.Millisecond):
							case <-stop:
								return
							}
							mu.Lock()
							next++
							n := next
							cid := cidSeen
							mu.Unlock()
							k := re.Kind
							if k == "advertise-samexid" {
								k = "advertise"
							}
							in, b := dgram6(k, rec.xid, cid, n, idx)
							in.kind = re.Kind
							mu.Lock()
							o.inj[n] = in
							mu.Unlock()
							ok := conn.Inject(sconn.Datagram{B: b, Nonce: n, Class: re.Kind, From: &net.UDPAddr{IP: net.ParseIP("fe80::1"), Port: 547}})
							mu.Lock()
							in.taken = ok
							mu.Unlock()
						}()
					}
				}
			}
		}()
		restore := cli.QuietStderr()
		c, err := nclient6.NewWithConn(conn, mac, append([]nclient6.ClientOpt{nclient6.WithTimeout(T), nclient6.WithRetry(2)}, cli.LogOpts6(sc.Cfg)...)...)
		restore()
		if err != nil {
			t.Fatal(err)
		}
		ctx := context.Background()
		if sc.Rapid {
			o.msg, o.err = c.RapidSolicit(ctx)
		} else {
			o.adv, o.err = c.Solicit(ctx)
			if o.err == nil {
				o.msg, o.err = c.Request(ctx, o.adv)
			}
		}
		o.retSeq = sconn.NextSeq()
		time.Sleep(time.Second)
		close(stop)
		c.Close()
		swg.Wait()
		for _, e := range conn.Events() {
			if e.Kind == "rx.return" {
				if in := o.inj[e.Nonce]; in != nil {
					in.retSeq = e.Seq
				}
			}
		}
	})
	return o
}

func judge6(r *mon.Rec, t *testing.T, sc scenario6) {
	r.Current(sc)
	r.Eval(1)
	var o out6
	pan, val, st := mon.Guard(func() { o = run6(t, sc) })
	if pan {
		r.Violate("C13:v6:panic-or-deadlock:"+mon.LibFrame(st), fmt.Sprint(val), sc)
		return
	}
	bad := func(key, msg string, a ...any) { r.Violate("C13:v6:"+key, fmt.Sprintf(msg, a...), sc) }
	for _, in := range o.inj {
		if !in.taken {
			bad("datagram-never-read", "datagram %d (kind %s) was still unread when the client was closed: the client had stopped reading", in.nonce, in.kind)
			return
		}
	}
	var sols, reqs []tx6
	for _, x := range o.tx {
		if x.tree == nil {
			bad("undecodable-transmission", "client transmitted bytes the reference decoder does not accept")
			return
		}
		switch x.typ {
		case 1:
			sols = append(sols, x)
		case 3:
			reqs = append(reqs, x)
		}
	}
	if len(sols) == 0 {
		bad("no-solicit", "no SOLICIT transmitted")
		return
	}
	first := func(after int64, pred func(*inj6) bool) *inj6 {
		var best *inj6
		for _, in := range o.inj {
			if in.valid && in.retSeq > after && in.retSeq < o.retSeq && pred(in) && (best == nil || in.retSeq < best.retSeq) {
				best = in
			}
		}
		return best
	}
	sx := sols[0].xid
	accepted := func(in *inj6) bool { return in.xid == sx && (in.mtype == 2 || (sc.Rapid && in.mtype == 7)) }
	sel := first(sols[0].seq, accepted)
	outc := ""
	switch {
	case len(reqs) == 0 && o.err == nil && sc.Rapid:
		// rapid commit: a REPLY was accepted directly
		got := o.inj[nonce6(o.msg)]
		if got == nil || got.mtype != 7 || got.xid != sx || !got.valid {
			bad("rapid-reply", "RapidSolicit returned datagram %d (kind %v) without REQUEST; not a REPLY of the solicit's transaction", nonce6(o.msg), kind6(got))
			return
		}
		if sel != nil && sel.nonce != got.nonce && inFirstTry(sel, sols) {
			bad("not-first-response", "first acceptable response was %d (%s), returned %d", sel.nonce, sel.kind, got.nonce)
			return
		}
		outc = "rapid-reply"
	case len(reqs) == 0:
		if o.err == nil {
			bad("result-without-request", "a message was returned without REQUEST")
			return
		}
		if sel != nil && sel.kind != "advertise-nosid" && inFirstTry(sel, sols) {
			bad("advertise-ignored", "datagram %d (%s) answers the SOLICIT but no REQUEST followed: %v", sel.nonce, sel.kind, o.err)
			return
		}
		outc = "no-advertise"
	default:
		// REQUEST follows an ADVERTISE of the solicit's transaction and carries its client id, server id and IA_NA
		var adv *inj6
		if o.adv != nil {
			adv = o.inj[nonce6(o.adv)]
		} else {
			adv = first(sols[0].seq, func(in *inj6) bool { return in.xid == sx && in.mtype == 2 && in.retSeq < reqs[0].seq })
		}
		if adv == nil || adv.mtype != 2 || adv.xid != sx || !adv.valid {
			bad("request-without-advertise", "REQUEST transmitted without a valid ADVERTISE of the solicit's transaction")
			return
		}
		for _, k := range []string{"clientid", "serverid", "iana"} {
			if a, b := sub(adv.tree, k), sub(reqs[0].tree, k); a != b {
				bad("request-"+k, "REQUEST carries %s %s, the ADVERTISE has %s", k, b, a)
				return
			}
		}
		rx := reqs[0].xid
		comp := first(reqs[0].seq, func(in *inj6) bool { return in.xid == rx })
		if o.err == nil {
			got := o.inj[nonce6(o.msg)]
			if got == nil || got.xid != rx || !got.valid || got.retSeq < reqs[0].seq {
				bad("reply-pairing", "Request returned datagram %d (kind %v), which is not a response to the REQUEST's transaction", nonce6(o.msg), kind6(got))
				return
			}
			if comp != nil && comp.nonce != got.nonce && inFirstTry(comp, reqs) {
				bad("not-first-response", "first response of the REQUEST's transaction was %d, returned %d", comp.nonce, got.nonce)
				return
			}
			outc = "request-reply"
		} else {
			if comp != nil && inFirstTry(comp, reqs) {
				bad("reply-ignored", "datagram %d (%s) answers the REQUEST's transaction but the call failed: %v", comp.nonce, comp.kind, o.err)
				return
			}
			outc = "request-timeout"
		}
	}
	s := fmt.Sprint(sc.Rapid, outc)
	for _, re := range sc.OnSolicit {
		s += "|" + re.Kind + fmt.Sprint(re.Delay/100)
	}
	for _, re := range sc.OnRequest {
		s += "/" + re.Kind + fmt.Sprint(re.Delay/100)
	}
	r.Shape("v6:"+s, len(sc.OnSolicit) > 0)
	r.Count("v6.outcome."+outc, 1)
}

// inFirstTry: the datagram was read while the first try was still waiting -- the message was transmitted once, or the
// datagram's read returned before the retransmission was written (server delays never coincide with the try's timeout).
func inFirstTry(in *inj6, txs []tx6) bool { return len(txs) == 1 || in.retSeq < txs[1].seq }

func kind6(in *inj6) string {
	if in == nil {
		return "<not injected>"
	}
	return in.kind
}

func gen6s(rng *rand.Rand) scenario6 {
	sc := scenario6{Rapid: rng.IntN(2) == 0, V6: true, Cfg: rng.IntN(cli.NCfg)}
	for i := 0; i < rng.IntN(4); i++ {
		sc.OnSolicit = append(sc.OnSolicit, reaction{solKinds[rng.IntN(len(solKinds))], []int{0, 0, 1, 50, 99, 101, 250}[rng.IntN(7)]})
	}
	for i := 0; i < rng.IntN(3); i++ {
		sc.OnRequest = append(sc.OnRequest, reaction{req6Kinds[rng.IntN(len(req6Kinds))], []int{0, 0, 1, 50, 99, 101, 250}[rng.IntN(7)]})
	}
	return sc
}

func v6part(r *mon.Rec, t *testing.T) {
	// enumerate all single/double reaction tables
	k := 0
	for _, rapid := range []bool{false, true} {
		for _, s1 := range solKinds[1:] {
			for _, s2 := range append([]string{""}, solKinds[1:]...) {
				for _, q := range req6Kinds[1:] {
					if r.Mine(k) {
						sc := scenario6{Rapid: rapid, V6: true, OnSolicit: []reaction{{s1, 0}}, OnRequest: []reaction{{q, 0}}}
						if s2 != "" {
							sc.OnSolicit = append(sc.OnSolicit, reaction{s2, 1})
						}
						judge6(r, t, sc)
					}
					k++
				}
			}
		}
	}
	r.Set("v6_enumerated_tables", k)
	n := r.Pick(30000, 3000000)
	for i := 0; i < n; i++ {
		if r.Mine(i) {
			judge6(r, t, gen6s(r.Rand("c13v6", i)))
		}
	}
}
