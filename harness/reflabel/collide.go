package reflabel

import (
	"hash/adler32"
	"hash/crc32"
	"hash/fnv"
	"math/rand/v2"
	"sync"
)

// Colliding returns pairs of different well-formed name-list encodings of equal length that have the same value under
// one of the checksums a program is likely to key a table of "encodings seen before" with (CRC-32 IEEE and
// Castagnoli, Adler-32, FNV-1 and FNV-1a 32 bit, the plain octet sum, the octet XOR).  A decoder that recognises its
// input by such a value instead of by its octets gives the second one the names of the first.  The pairs are found
// by a birthday search over random names (about 2^18 candidates per checksum), once per process.
func Colliding() []Pair { collOnce.Do(findCollisions); return collPairs }

type Pair struct {
	Sum  string
	A, B []byte
}

var (
	collOnce  sync.Once
	collPairs []Pair
)

func findCollisions() {
	r := rand.New(rand.NewPCG(0x5eed, 0xc0111de))
	cast := crc32.MakeTable(crc32.Castagnoli)
	sums := []struct {
		name string
		f    func([]byte) uint32
	}{
		{"crc32-ieee", crc32.ChecksumIEEE},
		{"crc32-castagnoli", func(b []byte) uint32 { return crc32.Checksum(b, cast) }},
		{"adler32", adler32.Checksum},
		{"fnv1a-32", func(b []byte) uint32 { h := fnv.New32a(); h.Write(b); return h.Sum32() }},
		{"fnv1-32", func(b []byte) uint32 { h := fnv.New32(); h.Write(b); return h.Sum32() }},
		{"octet-sum", func(b []byte) uint32 {
			var s uint32
			for _, c := range b {
				s += uint32(c)
			}
			return s
		}},
		{"octet-xor", func(b []byte) uint32 {
			var s uint32
			for _, c := range b {
				s ^= uint32(c)
			}
			return s
		}},
	}
	// shapes: label lengths of the names of one list; every candidate of a shape has the same length
	shapes := [][][]int{
		{{5, 7, 3}},
		{{4, 3}, {6, 7, 3}},
		{{8, 5, 2}, {3, 9, 3}, {2, 2}},
		{{11}},
	}
	const letters = "abcdefghijklmnopqrstuvwxyz0123456789-"
	gen := func(shape [][]int) []byte {
		var b []byte
		for _, name := range shape {
			for _, l := range name {
				b = append(b, byte(l))
				for k := 0; k < l; k++ {
					b = append(b, letters[r.IntN(len(letters))])
				}
			}
			b = append(b, 0)
		}
		return b
	}
	for _, s := range sums {
		for _, shape := range shapes {
			seen := map[uint32][]byte{}
			found := 0
			limit := 1 << 18
			if s.name == "octet-sum" || s.name == "octet-xor" || s.name == "adler32" {
				limit = 1 << 12
			}
			for i := 0; i < limit && found < 3; i++ {
				c := gen(shape)
				h := s.f(c)
				if o, ok := seen[h]; ok {
					if string(o) != string(c) {
						collPairs = append(collPairs, Pair{s.name, o, c})
						found++
						delete(seen, h)
					}
					continue
				}
				seen[h] = c
			}
		}
	}
}
