// Package reflabel is the reference reading of RFC 1035 §3.1/§4.1.4 domain-name
// lists (with the RFC 4704 §4.2 trailing partial name).  Three-valued; see
// DESIGN.md Appendix C.  No code shared with the module under test.
package reflabel

import (
	"math/rand/v2"
	"strings"
)

type Verdict int

const (
	Names       Verdict = iota // the RFC assigns exactly these names
	Malformed                  // the RFC says this cannot be decoded
	Unspecified                // gray zone: either behaviour is accepted
)

func (v Verdict) String() string { return [...]string{"names", "malformed", "unspecified"}[v] }

type Result struct {
	V        Verdict
	Names    []string
	Why      string
	Pointers int // compression pointers followed
	Partial  bool
}

const MaxWire = 255

// Decode reads a list of names.
func Decode(b []byte) Result {
	var res Result
	// start[o] = true iff o is the offset of a label-length octet (or the root
	// octet) of an earlier, already completed name, from which the root is
	// reached through plain labels only.
	start := map[int]bool{}
	// suffix[o] = labels from o to the root
	suffix := map[int][]string{}
	pos := 0
	for pos < len(b) {
		nameStart := pos
		_ = nameStart
		var labels []string
		var offs []int // offsets of label-length octets of this name read in place
		wire := 0
		endedBy := "" // "root", "ptr", "eof"
		var tail []string
		for {
			if pos >= len(b) {
				endedBy = "eof"
				break
			}
			l := int(b[pos])
			if l == 0 {
				offs = append(offs, pos)
				pos++
				endedBy = "root"
				break
			}
			if l&0xC0 == 0xC0 {
				if pos+1 >= len(b) {
					res.V, res.Why = Malformed, "pointer-truncated"
					return res
				}
				off := (l&0x3F)<<8 | int(b[pos+1])
				if off >= pos {
					res.V, res.Why = Unspecified, "pointer-forward-or-self"
					return res
				}
				if !start[off] {
					res.V, res.Why = Unspecified, "pointer-target-not-a-clear-label-start"
					return res
				}
				tail = suffix[off]
				pos += 2
				endedBy = "ptr"
				res.Pointers++
				break
			}
			if l&0xC0 != 0 {
				res.V, res.Why = Unspecified, "reserved-label-type"
				return res
			}
			if pos+1+l > len(b) {
				res.V, res.Why = Malformed, "label-overrun"
				return res
			}
			offs = append(offs, pos)
			labels = append(labels, string(b[pos+1:pos+1+l]))
			pos += 1 + l
		}
		if endedBy == "eof" && len(labels) == 0 {
			break // nothing after the last complete name
		}
		all := append(append([]string{}, labels...), tail...)
		for _, s := range all {
			wire += 1 + len(s)
		}
		wire++ // root octet (implied for a partial name)
		if wire > MaxWire {
			res.V, res.Why = Malformed, "name-too-long"
			return res
		}
		res.Names = append(res.Names, strings.Join(all, "."))
		switch endedBy {
		case "root":
			// every in-place label offset of this name is now a clear target
			for i, o := range offs {
				start[o] = true
				if i < len(labels) {
					suffix[o] = append([]string{}, labels[i:]...)
				} else {
					suffix[o] = nil
				}
			}
		case "ptr":
			// offsets of this name lead to a pointer: not clear targets (RFC allows chains; gray zone)
		case "eof":
			res.Partial = true
		}
	}
	res.V = Names
	return res
}

// Encode is the uncompressed RFC 1035 encoding of names whose labels are the
// dot-separated parts ("" is the root name).
func Encode(names []string) []byte {
	var out []byte
	for _, n := range names {
		if n != "" {
			for _, l := range strings.Split(n, ".") {
				out = append(out, byte(len(l)))
				out = append(out, l...)
			}
		}
		out = append(out, 0)
	}
	return out
}

// Alphabet is the small alphabet whose strings exercise every branch of a label parser: root, short label
// lengths, the largest label length, the reserved length classes, a letter, and pointer octets.
var Alphabet = []byte{0x00, 0x01, 0x02, 0x03, 0x3f, 0x40, 'a', 0xC0, 0xC1}

// Web builds a label stream dense in compression pointers: pointers to arbitrary offsets (backwards, forwards,
// to themselves, into label contents) and labels whose contents are themselves pointer octets, so that a
// pointer chain can lead through places a linear scan has already walked over as label content.
func Web(r *rand.Rand) []byte {
	n := 2 + r.IntN(30)
	var out []byte
	ptr := func() (byte, byte) {
		off := r.IntN(n + 3)
		return 0xC0 | byte(off>>8), byte(off)
	}
	for len(out) < n {
		switch r.IntN(7) {
		case 0:
			out = append(out, 0)
		case 1, 2:
			a, b := ptr()
			out = append(out, a, b)
		case 3, 4: // a label made of pointer octets
			l := 2 * (1 + r.IntN(3))
			out = append(out, byte(l))
			for i := 0; i < l; i += 2 {
				a, b := ptr()
				out = append(out, a, b)
			}
		default:
			l := 1 + r.IntN(4)
			out = append(out, byte(l))
			for i := 0; i < l; i++ {
				out = append(out, byte('a'+r.IntN(3)))
			}
		}
	}
	return out
}

// Boundary builds a name list whose last name has a dotted length within a few octets of the RFC 1035 limit (253
// characters = 255 octets on the wire), on either side of it, and is ended in each of the three possible ways: by a
// root octet, by the end of the buffer (the RFC 4704 partial name) or by a compression pointer to a label of an
// earlier complete name.  Earlier names are short.
func Boundary(r *rand.Rand) []byte {
	var out []byte
	type tgt struct{ off, dotted int } // dotted length of the name that starts at off
	var tgts []tgt
	for k := r.IntN(3); k > 0; k-- {
		nl := 1 + r.IntN(3)
		var lens []int
		start := len(out)
		for i := 0; i < nl; i++ {
			l := 1 + r.IntN(10)
			lens = append(lens, l)
			out = append(out, byte(l))
			for j := 0; j < l; j++ {
				out = append(out, byte('a'+r.IntN(26)))
			}
		}
		out = append(out, 0)
		off := start
		for i := range lens {
			d := -1
			for _, l := range lens[i:] {
				d += l + 1
			}
			tgts = append(tgts, tgt{off, d})
			off += 1 + lens[i]
		}
	}
	target := 247 + r.IntN(13) // 247..259
	switch r.IntN(6) {         // the limit itself and its neighbour more often than the rest
	case 0, 1:
		target = 253
	case 2:
		target = 254
	}
	end := r.IntN(3) // 0 root, 1 end of buffer, 2 pointer
	remain := target
	var t tgt
	if end == 2 {
		if len(tgts) == 0 {
			end = r.IntN(2)
		} else {
			t = tgts[r.IntN(len(tgts))]
			remain = target - t.dotted - 1
		}
	}
	cur := -1 // dotted length produced so far (-1: no label yet)
	for cur < remain {
		gap := remain - cur - 1 // label length that would finish exactly
		l := 1 + r.IntN(63)
		switch {
		case gap <= 63 && (l >= gap || r.IntN(3) == 0):
			l = gap
		case l == gap-1: // would leave room for a dot but no label
			l--
		}
		if l < 1 {
			break
		}
		out = append(out, byte(l))
		for j := 0; j < l; j++ {
			out = append(out, byte('a'+r.IntN(26)))
		}
		cur += l + 1
	}
	switch end {
	case 0:
		out = append(out, 0)
	case 2:
		out = append(out, 0xC0|byte(t.off>>8), byte(t.off))
	}
	return out
}

// FarPointer builds a name list longer than 256 octets whose last names end in compression pointers to label starts at
// offsets beyond 255 (the pointer's offset field has 14 bits; its high six bits are rarely exercised by short inputs),
// and a few to offsets below 256 whose low octet equals that of a far target.
func FarPointer(r *rand.Rand) []byte {
	var out []byte
	var starts []int // label starts of complete, pointer-free names
	// mostly a few hundred octets; now and then long enough for targets beyond 1023, 4095 and up to the largest offset
	// a pointer can name (16383)
	total := 260 + r.IntN(200)
	switch r.IntN(12) {
	case 0, 1:
		total = 1030 + r.IntN(500)
	case 2:
		total = 4100 + r.IntN(300)
	case 3:
		total = 16200 + r.IntN(180)
	}
	far := 256
	if total > 1000 {
		far = total * 3 / 4
	}
	for len(out) < total {
		nl := 1 + r.IntN(4)
		for i := 0; i < nl; i++ {
			l := 1 + r.IntN(20)
			starts = append(starts, len(out))
			out = append(out, byte(l))
			for j := 0; j < l; j++ {
				out = append(out, byte('a'+r.IntN(26)))
			}
		}
		out = append(out, 0)
	}
	for k := 1 + r.IntN(3); k > 0; k-- {
		t := starts[r.IntN(len(starts))]
		if r.IntN(4) != 0 { // prefer far targets
			for tries := 0; tries < 8 && t < far; tries++ {
				t = starts[r.IntN(len(starts))]
			}
		}
		l := 1 + r.IntN(5)
		out = append(out, byte(l))
		for j := 0; j < l; j++ {
			out = append(out, byte('p'+r.IntN(4)))
		}
		out = append(out, 0xC0|byte(t>>8), byte(t))
	}
	return out
}

// ManyPointers builds a list of 2..40 names most of which end in a single-level compression pointer to a label of
// one of the first (uncompressed) names: long lists of sub-domains of a few parents, as real search lists are.
func ManyPointers(r *rand.Rand) []byte {
	var out []byte
	var starts []int
	deep := r.IntN(3) == 0 // one parent of many short labels that most of the other names are nothing but a pointer to
	for k := 1 + r.IntN(3); k > 0; k-- {
		n := 1 + r.IntN(3)
		if deep {
			n = 4 + r.IntN(12)
		}
		for i := n; i > 0; i-- {
			l := 1 + r.IntN(8)
			if deep {
				l = 1 + r.IntN(2)
			}
			starts = append(starts, len(out))
			out = append(out, byte(l))
			for j := 0; j < l; j++ {
				out = append(out, byte('a'+r.IntN(26)))
			}
		}
		out = append(out, 0)
	}
	for k := 1 + r.IntN(40); k > 0; k-- {
		if r.IntN(6) != 0 && !(deep && r.IntN(4) != 0) { // a label, then the pointer
			l := 1 + r.IntN(6)
			out = append(out, byte(l))
			for j := 0; j < l; j++ {
				out = append(out, byte('s'+r.IntN(4)))
			}
		}
		t := starts[r.IntN(len(starts))]
		out = append(out, 0xC0|byte(t>>8), byte(t))
	}
	return out
}
