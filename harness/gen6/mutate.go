package gen6

import (
	"math/rand/v2"

	"verif/harness/gen4"
)

// Mutate applies one structure-aware mutation. lenFields are offsets of 2-byte option length fields in b.
func Mutate(r *rand.Rand, b []byte, lenFields []int, other []byte) []byte {
	out := append([]byte{}, b...)
	switch r.IntN(13) {
	case 0:
		if len(out) > 0 {
			out = out[:r.IntN(len(out))]
		}
	case 1:
		for i, n := 0, 1+r.IntN(8); i < n; i++ {
			out = append(out, byte(r.UintN(256)))
		}
	case 2:
		if len(out) > 0 {
			out[r.IntN(len(out))] ^= byte(1 << r.UintN(8))
		}
	case 3:
		if len(out) > 0 {
			out[r.IntN(len(out))] = []byte{0, 1, 0xff, 0xc0, 0x3f, 0x40, 16, 128, 129}[r.IntN(9)]
		}
	case 4, 5: // perturb a real length field
		if len(lenFields) > 0 {
			p := lenFields[r.IntN(len(lenFields))]
			if p+1 < len(out) {
				v := int(out[p])<<8 | int(out[p+1])
				switch r.IntN(5) {
				case 0:
					v--
				case 1:
					v++
				case 2:
					v = 0
				case 3:
					v = 0xffff
				case 4:
					v += r.IntN(9) - 4
				}
				out[p], out[p+1] = byte(v>>8), byte(v)
			}
		}
	case 6: // grow/shrink an option value and fix nothing else
		if len(lenFields) > 0 {
			p := lenFields[r.IntN(len(lenFields))]
			if p+2 <= len(out) {
				ins := gen4.Bytes(r, 1+r.IntN(4))
				out = append(out[:p+2:p+2], append(ins, out[p+2:]...)...)
			}
		}
	case 7: // splice
		if len(other) > 0 && len(out) > 0 {
			i, j := r.IntN(len(out)), r.IntN(len(other))
			out = append(out[:i:i], other[j:]...)
		}
	case 8: // change an option code to another typed code (re-interpret a payload)
		if len(lenFields) > 0 {
			p := lenFields[r.IntN(len(lenFields))]
			if p >= 2 && p <= len(out) {
				c := AllCodes[r.IntN(len(AllCodes))]
				out[p-2], out[p-1] = byte(c>>8), byte(c)
			}
		}
	case 9: // message type flip incl. relay types
		if len(out) > 0 {
			out[0] = []byte{1, 2, 3, 7, 11, 12, 13, 0, 255}[r.IntN(9)]
		}
	case 11, 12: // resize one option (at any nesting depth) and keep every enclosing length consistent
		if len(lenFields) > 0 {
			p := lenFields[r.IntN(len(lenFields))]
			if p+2 <= len(out) {
				v := int(out[p])<<8 | int(out[p+1])
				nl := r.IntN(41)
				if r.IntN(3) == 0 {
					nl = max(0, v+r.IntN(9)-4)
				}
				if x := Resize(out, lenFields, p, nl, func(n int) []byte { return gen4.Bytes(r, n) }); x != nil {
					out = x
				}
			}
		}
	case 10: // insert a compression pointer / reserved label somewhere
		if len(out) > 6 {
			i := 4 + r.IntN(len(out)-4)
			out[i] = []byte{0xc0, 0xc0, 0x40, 0x80}[r.IntN(4)]
		}
	}
	if len(out) > 4096 {
		out = out[:4096]
	}
	return out
}

// Resize gives the option whose 2-byte length field is at offset p a value of exactly nl bytes (cut, or extended
// with fill bytes) and adds the difference to the length field of every option that contains it, so that the only
// thing wrong (if anything) with the result is that one option's own length.  lenFields are all length-field offsets of b.
// It returns nil when a length would leave the 16-bit range.
func Resize(b []byte, lenFields []int, p int, nl int, fill func(n int) []byte) []byte {
	if p+2 > len(b) || nl < 0 || nl > 0xffff {
		return nil
	}
	v := int(b[p])<<8 | int(b[p+1])
	end := p + 2 + v
	if end > len(b) {
		return nil
	}
	out := append([]byte{}, b[:p+2+min(v, nl)]...)
	if nl > v {
		out = append(out, fill(nl-v)...)
	}
	out = append(out, b[end:]...)
	out[p], out[p+1] = byte(nl>>8), byte(nl)
	for _, q := range lenFields {
		if q >= p || q+2 > len(b) {
			continue
		}
		qv := int(b[q])<<8 | int(b[q+1])
		if q+2+qv >= end && q+2 <= p { // q's value contains the resized option
			nq := qv + nl - v
			if nq < 0 || nq > 0xffff {
				return nil
			}
			out[q], out[q+1] = byte(nq>>8), byte(nq)
		}
	}
	return out
}
