package gen6

import (
	"math/rand/v2"

	"verif/harness/gen4"
)

// Mutate applies one structure-aware mutation. lenFields are offsets of 2-byte option length fields in b.
func Mutate(r *rand.Rand, b []byte, lenFields []int, other []byte) []byte {
	out := append([]byte{}, b...)
	switch r.IntN(11) {
	case 0:
		if len(out) > 0 {
			out = out[:r.IntN(len(out))]
		}
	case 1:
		for i, n := 0, 1+r.IntN(8); i < n; i++ {
			out = append(out, byte(r.UintN(256)))
		}
	case 2:
		if len(out) > 0 {
			out[r.IntN(len(out))] ^= byte(1 << r.UintN(8))
		}
	case 3:
		if len(out) > 0 {
			out[r.IntN(len(out))] = []byte{0, 1, 0xff, 0xc0, 0x3f, 0x40, 16, 128, 129}[r.IntN(9)]
		}
	case 4, 5: // perturb a real length field
		if len(lenFields) > 0 {
			p := lenFields[r.IntN(len(lenFields))]
			if p+1 < len(out) {
				v := int(out[p])<<8 | int(out[p+1])
				switch r.IntN(5) {
				case 0:
					v--
				case 1:
					v++
				case 2:
					v = 0
				case 3:
					v = 0xffff
				case 4:
					v += r.IntN(9) - 4
				}
				out[p], out[p+1] = byte(v>>8), byte(v)
			}
		}
	case 6: // grow/shrink an option value and fix nothing else
		if len(lenFields) > 0 {
			p := lenFields[r.IntN(len(lenFields))]
			if p+2 <= len(out) {
				ins := gen4.Bytes(r, 1+r.IntN(4))
				out = append(out[:p+2:p+2], append(ins, out[p+2:]...)...)
			}
		}
	case 7: // splice
		if len(other) > 0 && len(out) > 0 {
			i, j := r.IntN(len(out)), r.IntN(len(other))
			out = append(out[:i:i], other[j:]...)
		}
	case 8: // change an option code to another typed code (re-interpret a payload)
		if len(lenFields) > 0 {
			p := lenFields[r.IntN(len(lenFields))]
			if p >= 2 && p <= len(out) {
				c := AllCodes[r.IntN(len(AllCodes))]
				out[p-2], out[p-1] = byte(c>>8), byte(c)
			}
		}
	case 9: // message type flip incl. relay types
		if len(out) > 0 {
			out[0] = []byte{1, 2, 3, 7, 11, 12, 13, 0, 255}[r.IntN(9)]
		}
	case 10: // insert a compression pointer / reserved label somewhere
		if len(out) > 6 {
			i := 4 + r.IntN(len(out)-4)
			out[i] = []byte{0xc0, 0xc0, 0x40, 0x80}[r.IntN(4)]
		}
	}
	if len(out) > 4096 {
		out = out[:4096]
	}
	return out
}
