// Package gen6 generates DHCPv6 library values over the C02 domain together
// with the neutral tree of what was put in (one generator per option type).
package gen6

import (
	"fmt"
	"math/rand/v2"
	"net"
	"strconv"
	"strings"
	"time"

	"github.com/insomniacslk/dhcp/dhcpv4"
	"github.com/insomniacslk/dhcp/dhcpv6"
	"github.com/insomniacslk/dhcp/iana"
	"github.com/insomniacslk/dhcp/rfc1035label"
	"verif/harness/gen4"
	"verif/harness/tree"
)

type G struct {
	R *rand.Rand
	// IsTyped tells whether the library has a typed parser for the code (discovered at run time).
	IsTyped func(code int) bool
	// Budget bounds the total number of options still to be generated (keeps messages < 64 kB).
	Budget int
	// Hits counts generated options per code.
	Hits map[int]int
	// NoV4 disables embedded DHCPv4 messages (used where sizes must stay small).
	NoV4 bool
}

func New(r *rand.Rand, isTyped func(int) bool) *G {
	return &G{R: r, IsTyped: isTyped, Budget: 60, Hits: map[int]int{}}
}

func (g *G) bytes(n int) []byte {
	b := gen4.Bytes(g.R, n)
	if n >= 2 && g.R.IntN(8) == 0 { // byte strings that end in one or two NUL octets (senders written in C)
		b[n-1] = 0
		if g.R.IntN(2) == 0 {
			b[n-2] = 0
		}
	}
	return b
}

func (g *G) smallLen() int {
	switch g.R.IntN(12) {
	case 0:
		return 0
	case 1:
		return 1 + g.R.IntN(300)
	case 2: // around the one-octet boundary, and beyond what fits one v4 option instance
		return []int{127, 128, 129, 254, 255, 256, 257, 511, 512, 1000 + g.R.IntN(1200)}[g.R.IntN(10)]
	}
	return 1 + g.R.IntN(24)
}

// boundLen draws a length in 0..max: small most of the time, within 3 of max one time in five (identifiers with a
// maximum length laid down by an RFC must be accepted up to and including it).
func (g *G) boundLen(max int) int {
	switch g.R.IntN(5) {
	case 0:
		return max - g.R.IntN(min(4, max+1))
	case 1:
		return g.R.IntN(max + 1)
	}
	return g.R.IntN(min(20, max+1))
}

// Addr draws a 16-byte address from realistic classes.
func (g *G) Addr() net.IP {
	b := make([]byte, 16)
	switch g.R.IntN(8) {
	case 0: // unspecified
	case 1: // IPv4-mapped ::ffff:a.b.c.d
		b[10], b[11] = 0xff, 0xff
		for i := 12; i < 16; i++ {
			b[i] = byte(g.R.UintN(256))
		}
	case 2: // link-local
		b[0], b[1] = 0xfe, 0x80
		for i := 8; i < 16; i++ {
			b[i] = byte(g.R.UintN(256))
		}
		if g.R.IntN(2) == 0 { // interface identifier made from a MAC address (modified EUI-64)
			b[11], b[12] = 0xff, 0xfe
		}
	case 3: // multicast
		b[0], b[1] = 0xff, 0x02
		b[15] = byte(g.R.UintN(256))
	case 4: // IPv4-compatible ::a.b.c.d
		for i := 12; i < 16; i++ {
			b[i] = byte(g.R.UintN(256))
		}
	default:
		for i := range b {
			b[i] = byte(g.R.UintN(256))
		}
	}
	return net.IP(b)
}

func (g *G) secs() (time.Duration, uint64) {
	var s uint32
	switch g.R.IntN(7) {
	case 0:
		s = 0
	case 1:
		s = 0xffffffff
	case 2:
		s = uint32(g.R.UintN(100000))
	case 3:
		s = 0xffffffff - uint32(g.R.UintN(3)) // infinity and its neighbours
	default:
		s = g.R.Uint32()
	}
	return time.Duration(s) * time.Second, uint64(s)
}

// Name draws a valid domain name (1..8 labels of 1..63 non-dot bytes, <= 255 octets on the wire).
func (g *G) Name() string {
	if g.R.IntN(40) == 0 {
		return "" // the root name
	}
	nl := 1 + g.R.IntN(8)
	var ls []string
	wire := 1
	for i := 0; i < nl; i++ {
		l := 1 + g.R.IntN(12)
		if g.R.IntN(8) == 0 {
			l = 1 + g.R.IntN(63)
		}
		if wire+1+l > 255 {
			break
		}
		b := make([]byte, l)
		for k := range b {
			if g.R.IntN(10) == 0 {
				c := byte(g.R.UintN(256))
				if c == '.' {
					c = '-'
				}
				b[k] = c
			} else {
				b[k] = byte('a' + g.R.UintN(26))
			}
		}
		ls = append(ls, string(b))
		wire += 1 + l
	}
	return strings.Join(ls, ".")
}

func (g *G) names(min int) []string {
	n := min + g.R.IntN(4)
	if n >= 2 && g.R.IntN(4) == 0 {
		// what sites really configure: a domain, its sub-domains, repeated parents (suffixes shared over several levels)
		base := g.Name()
		if base != "" && len(base) < 200 {
			all := []string{base, "corp." + base, "eng.corp." + base, base, "eng.corp." + base, "lab.eng.corp." + base}
			g.R.Shuffle(len(all), func(i, j int) { all[i], all[j] = all[j], all[i] })
			return all[:n]
		}
	}
	if g.R.IntN(6) == 0 { // long lists (up to 14 names), with names repeated and repeated in another letter case
		n = 7 + g.R.IntN(8)
	}
	out := make([]string, 0, n)
	for i := 0; i < n; i++ {
		if i > 0 && n > 5 && g.R.IntN(4) == 0 {
			d := out[g.R.IntN(i)]
			if g.R.IntN(2) == 0 { // ASCII letters only: names are octet strings
				b := []byte(d)
				for k, c := range b {
					if c >= 'a' && c <= 'z' {
						b[k] = c - 32
					}
				}
				d = string(b)
			}
			out = append(out, d)
			continue
		}
		out = append(out, g.Name())
	}
	return out
}

func mask(b []byte, bits int) []byte {
	out := make([]byte, len(b))
	for i := range b {
		switch {
		case bits >= 8*(i+1):
			out[i] = b[i]
		case bits > 8*i:
			out[i] = b[i] & (0xff << (8 - (bits - 8*i)))
		}
	}
	return out
}

func mask4(ip net.IP, bits int) []byte {
	if ip == nil {
		return make([]byte, 4)
	}
	return mask(ip, bits)
}

func mask16(ip net.IP, bits int) []byte {
	if ip == nil {
		return make([]byte, 16)
	}
	return mask(ip, bits)
}

func hexes(l [][]byte) []string {
	var out []string
	for _, b := range l {
		out = append(out, fmt.Sprintf("%x", b))
	}
	return out
}

// enterprise draws an IANA enterprise number: any 32-bit value, and the ones that are actually seen on the wire
// (vendor-specific formats hang off an exact number).
// e32 / e16 / e8: a scalar of the given width; one draw in four is a value at the edge of the range (0, 1, the
// largest, the largest but one, the sign bit)
func e32(r *rand.Rand) uint32 {
	if r.IntN(4) == 0 {
		return []uint32{0, 0, 1, 0xffffffff, 0xfffffffe, 0x80000000, 0x7fffffff}[r.IntN(7)]
	}
	return r.Uint32()
}
func e16(r *rand.Rand) uint16 {
	if r.IntN(4) == 0 {
		return []uint16{0, 0, 1, 0xffff, 0xfffe, 0x8000, 0x7fff, 0x00ff, 0x0100}[r.IntN(9)]
	}
	return uint16(r.UintN(65536))
}
func e8(r *rand.Rand) uint8 {
	if r.IntN(4) == 0 {
		return []uint8{0, 0, 1, 0xff, 0xfe, 0x80, 0x7f}[r.IntN(7)]
	}
	return uint8(r.UintN(256))
}

func (g *G) enterprise() uint32 {
	if g.R.IntN(2) == 0 {
		return []uint32{9, 4491, 311, 2636, 30065, 1271, 42623, 33049, 25506, 3561, 2011, 0, 0xffffffff, 1, 4413, 6321}[g.R.IntN(16)]
	}
	return g.R.Uint32()
}

// hwAddr draws a hardware type and a link-layer address: any 16-bit type and any length, and the pairs that exist
// (Ethernet 6, EUI-64 8, InfiniBand 20 octets, IEEE 1394 8, ...).
func (g *G) hwAddr(maxLen int) (uint16, []byte) {
	switch g.R.IntN(4) {
	case 0:
		real := [][2]int{{1, 6}, {6, 6}, {27, 8}, {32, 20}, {24, 8}, {15, 2}, {20, 1}, {32, 8}, {1, 20}}
		p := real[g.R.IntN(len(real))]
		ll := g.bytes(min(p[1], maxLen))
		if g.R.IntN(3) == 0 { // an EUI-64 made from a MAC (ff:fe in the middle), whole or cut short / extended by an octet
			ll = g.bytes(min(6+g.R.IntN(4), maxLen))
			if len(ll) >= 5 {
				ll[3], ll[4] = 0xff, 0xfe
			}
			if g.R.IntN(2) == 0 {
				return 27, ll
			}
		}
		return uint16(p[0]), ll
	case 1:
		return uint16(g.R.UintN(40)), g.bytes(g.boundLen(maxLen))
	}
	return e16(g.R), g.bytes(g.boundLen(maxLen))
}

func (g *G) DUID() (dhcpv6.DUID, *tree.Node) {
	switch g.R.IntN(5) {
	case 0:
		t := e32(g.R) // 0: a client without a clock
		hw, ll := g.hwAddr(122)
		return &dhcpv6.DUIDLLT{HWType: iana.HWType(hw), Time: t, LinkLayerAddr: ll}, tree.N("duid-llt").U("hw", uint64(hw)).U("time", uint64(t)).B("ll", ll)
	case 1:
		en, id := g.enterprise(), g.bytes(g.boundLen(124))
		return &dhcpv6.DUIDEN{EnterpriseNumber: en, EnterpriseIdentifier: id}, tree.N("duid-en").U("en", uint64(en)).B("id", id)
	case 2:
		hw, ll := g.hwAddr(126)
		return &dhcpv6.DUIDLL{HWType: iana.HWType(hw), LinkLayerAddr: ll}, tree.N("duid-ll").U("hw", uint64(hw)).B("ll", ll)
	case 3:
		var u [16]byte
		copy(u[:], g.bytes(16))
		return &dhcpv6.DUIDUUID{UUID: u}, tree.N("duid-uuid").B("uuid", u[:])
	}
	t := e16(g.R)
	if t >= 1 && t <= 4 {
		t += 4
	}
	d := g.bytes(g.boundLen(128))
	return &dhcpv6.DUIDOpaque{Type: dhcpv6.DUIDType(t), Data: d}, tree.N("duid-opaque").U("type", uint64(t)).B("data", d)
}

// AllCodes lists the codes gen6 has a typed generator for.
var AllCodes = []int{1, 2, 3, 4, 5, 6, 8, 9, 13, 15, 16, 17, 18, 23, 24, 25, 26, 32, 37, 39, 56, 59, 60, 61, 62, 79, 87, 88, 97, 98, 99, 135}

// subOptions draws a nested option list with preference for the given codes.
func (g *G) subOptions(prefer []int, depth int) (dhcpv6.Options, []*tree.Node) {
	n := 0
	switch g.R.IntN(4) {
	case 0:
		n = 0
	case 1:
		n = 1
	default:
		n = g.R.IntN(4)
	}
	var os dhcpv6.Options
	var ts []*tree.Node
	for i := 0; i < n && g.Budget > 0; i++ {
		var o dhcpv6.Option
		var t *tree.Node
		if len(prefer) > 0 && g.R.IntN(4) != 0 {
			o, t = g.Option(prefer[g.R.IntN(len(prefer))], depth+1)
		} else {
			o, t = g.AnyOption(depth + 1)
		}
		os = append(os, o)
		ts = append(ts, t)
	}
	return os, ts
}

// AnyOption draws an option of any type (typed or unknown code).
func (g *G) AnyOption(depth int) (dhcpv6.Option, *tree.Node) {
	if g.R.IntN(8) == 0 {
		return g.Option(-1, depth)
	}
	return g.Option(AllCodes[g.R.IntN(len(AllCodes))], depth)
}

// Option draws an option of the given code (-1: unknown code with arbitrary payload).
func (g *G) Option(code int, depth int) (dhcpv6.Option, *tree.Node) {
	g.Budget--
	if depth > 6 && (code == 9 || code == 3 || code == 4 || code == 5 || code == 25 || code == 26 || code == 97 || code == 87) {
		code = 18
	}
	if code == 87 && g.NoV4 {
		code = 59
	}
	if code >= 0 {
		g.Hits[code]++
	}
	R := g.R
	switch code {
	case 1:
		d, t := g.DUID()
		return dhcpv6.OptClientID(d), tree.N("clientid").K(t)
	case 2:
		d, t := g.DUID()
		return dhcpv6.OptServerID(d), tree.N("serverid").K(t)
	case 3:
		o := &dhcpv6.OptIANA{}
		copy(o.IaId[:], g.bytes(4))
		var a, b uint64
		o.T1, a = g.secs()
		o.T2, b = g.secs()
		os, ts := g.subOptions([]int{5, 13}, depth)
		o.Options = dhcpv6.IdentityOptions{Options: os}
		return o, tree.N("iana").B("iaid", o.IaId[:]).U("t1", a).U("t2", b).K(ts...)
	case 25:
		o := &dhcpv6.OptIAPD{}
		copy(o.IaId[:], g.bytes(4))
		var a, b uint64
		o.T1, a = g.secs()
		o.T2, b = g.secs()
		os, ts := g.subOptions([]int{26, 13}, depth)
		o.Options = dhcpv6.PDOptions{Options: os}
		return o, tree.N("iapd").B("iaid", o.IaId[:]).U("t1", a).U("t2", b).K(ts...)
	case 4:
		o := &dhcpv6.OptIATA{}
		copy(o.IaId[:], g.bytes(4))
		os, ts := g.subOptions([]int{5, 13}, depth)
		o.Options = dhcpv6.IdentityOptions{Options: os}
		return o, tree.N("iata").B("iaid", o.IaId[:]).K(ts...)
	case 5:
		o := &dhcpv6.OptIAAddress{}
		ip := g.Addr()
		wire := []byte(ip)
		if R.IntN(12) == 0 {
			ip, wire = nil, make([]byte, 16)
		}
		o.IPv6Addr = ip
		var a, b uint64
		o.PreferredLifetime, a = g.secs()
		o.ValidLifetime, b = g.secs()
		os, ts := g.subOptions([]int{13}, depth)
		o.Options = dhcpv6.AddressOptions{Options: os}
		return o, tree.N("iaaddr").B("addr", wire).U("pref", a).U("valid", b).K(ts...)
	case 26:
		o := &dhcpv6.OptIAPrefix{}
		var a, b uint64
		o.PreferredLifetime, a = g.secs()
		o.ValidLifetime, b = g.secs()
		pl := R.IntN(129)
		switch R.IntN(5) {
		case 0:
			pl = 0
		case 1:
			pl = 128
		case 2:
			pl = 64
		}
		ip := g.Addr()
		if R.IntN(2) == 0 {
			ip = net.IP(mask(ip, pl))
		}
		exp := mask(ip, pl)
		if R.IntN(10) == 0 {
			o.Prefix = nil
			pl, exp = 0, make([]byte, 16)
		} else {
			o.Prefix = &net.IPNet{IP: ip, Mask: net.CIDRMask(pl, 128)}
		}
		os, ts := g.subOptions([]int{13}, depth)
		o.Options = dhcpv6.PrefixOptions{Options: os}
		return o, tree.N("iaprefix").U("pref", a).U("valid", b).U("plen", uint64(pl)).B("prefix", exp).K(ts...)
	case 6:
		n := R.IntN(8)
		seen := map[int]bool{}
		var cs []dhcpv6.OptionCode
		var l []string
		for len(cs) < n {
			c := R.IntN(65536)
			if R.IntN(2) == 0 {
				c = R.IntN(140)
			}
			if seen[c] {
				continue
			}
			seen[c] = true
			cs = append(cs, dhcpv6.OptionCode(c))
			l = append(l, strconv.Itoa(c))
		}
		return dhcpv6.OptRequestedOption(cs...), tree.N("oro").L("codes", l)
	case 8:
		cs := R.IntN(65536)
		switch R.IntN(4) {
		case 0:
			cs = 0
		case 1:
			cs = 65535
		case 2: // the last values before the field saturates
			cs = 65535 - R.IntN(64)
		}
		return dhcpv6.OptElapsedTime(time.Duration(cs) * 10 * time.Millisecond), tree.N("elapsed").U("cs", uint64(cs))
	case 9:
		m, t := g.Chain(R.IntN(3), depth+1)
		return dhcpv6.OptRelayMessage(m), tree.N("relaymsg").K(t)
	case 13:
		c := uint16(R.UintN(65536))
		if R.IntN(2) == 0 {
			c = uint16(R.UintN(8))
		}
		msg := g.bytes(g.smallLen())
		return &dhcpv6.OptStatusCode{StatusCode: iana.StatusCode(c), StatusMessage: string(msg)}, tree.N("status").U("code", uint64(c)).B("msg", msg)
	case 15:
		var items [][]byte
		for i := 0; i < 1+R.IntN(4); i++ {
			items = append(items, g.bytes(g.smallLen()))
		}
		return &dhcpv6.OptUserClass{UserClasses: items}, tree.N("userclass").L("items", hexes(items))
	case 16:
		en := g.enterprise()
		var items [][]byte
		for i := 0; i < 1+R.IntN(4); i++ {
			items = append(items, g.bytes(g.smallLen()))
		}
		return &dhcpv6.OptVendorClass{EnterpriseNumber: en, Data: items}, tree.N("vendorclass").U("en", uint64(en)).L("items", hexes(items))
	case 17:
		en := g.enterprise()
		o := &dhcpv6.OptVendorOpts{EnterpriseNumber: en}
		t := tree.N("vendoropts").U("en", uint64(en))
		for i := 0; i < R.IntN(5); i++ {
			c := R.IntN(65536)
			switch R.IntN(3) {
			case 0: // a sub-option number that is also the number of a DHCPv6 option (separate code spaces)
				c = AllCodes[R.IntN(len(AllCodes))]
			case 1: // vendor formats number their sub-options from 1
				c = 1 + R.IntN(48)
			}
			d := g.bytes(g.smallLen())
			o.VendorOpts = append(o.VendorOpts, &dhcpv6.OptionGeneric{OptionCode: dhcpv6.OptionCode(c), OptionData: d})
			t.K(tree.N("sub").U("code", uint64(c)).B("data", d))
		}
		return o, t
	case 18:
		id := g.bytes(g.smallLen())
		return dhcpv6.OptInterfaceID(id), tree.N("interfaceid").B("id", id)
	case 23, 88:
		var ips []net.IP
		var l [][]byte
		for i := 0; i < 1+R.IntN(4); i++ {
			ip := g.Addr()
			ips = append(ips, ip)
			l = append(l, ip)
		}
		if code == 23 {
			return dhcpv6.OptDNS(ips...), tree.N("dns").L("addrs", hexes(l))
		}
		if R.IntN(6) == 0 {
			ips, l = nil, nil
		}
		return &dhcpv6.OptDHCP4oDHCP6Server{DHCP4oDHCP6Servers: ips}, tree.N("4o6server").L("addrs", hexes(l))
	case 24:
		ns := g.names(0)
		return dhcpv6.OptDomainSearchList(&rfc1035label.Labels{Labels: ns}), tree.N("domainsearch").L("names", ns)
	case 32:
		d, s := g.secs()
		return dhcpv6.OptInformationRefreshTime(d), tree.N("refresh").U("secs", s)
	case 37:
		en, id := g.enterprise(), g.bytes(g.smallLen())
		return &dhcpv6.OptRemoteID{EnterpriseNumber: en, RemoteID: id}, tree.N("remoteid").U("en", uint64(en)).B("id", id)
	case 39:
		fl := e8(R)
		ns := g.names(1)[:1]
		if R.IntN(5) == 0 {
			ns = g.names(1)
		}
		return &dhcpv6.OptFQDN{Flags: fl, DomainName: &rfc1035label.Labels{Labels: ns}}, tree.N("fqdn").U("flags", uint64(fl)).L("names", ns)
	case 56:
		o := &dhcpv6.OptNTPServer{}
		t := tree.N("ntp")
		for i := 0; i < R.IntN(5); i++ {
			switch R.IntN(4) {
			case 0:
				ip := g.Addr()
				s := dhcpv6.NTPSuboptionSrvAddr(ip)
				o.Suboptions = append(o.Suboptions, &s)
				t.K(tree.N("ntp-srv").B("addr", ip))
			case 1:
				ip := g.Addr()
				s := dhcpv6.NTPSuboptionMCAddr(ip)
				o.Suboptions = append(o.Suboptions, &s)
				t.K(tree.N("ntp-mc").B("addr", ip))
			case 2:
				ns := g.names(1)[:1]
				o.Suboptions = append(o.Suboptions, &dhcpv6.NTPSuboptionSrvFQDN{Labels: rfc1035label.Labels{Labels: ns}})
				t.K(tree.N("ntp-fqdn").L("names", ns))
			default:
				c := 4 + R.IntN(65000)
				if R.IntN(2) == 0 { // a sub-option number that is also the number of a DHCPv6 option (separate code spaces)
					c = AllCodes[3+R.IntN(len(AllCodes)-3)]
				}
				d := g.bytes(g.smallLen())
				o.Suboptions = append(o.Suboptions, &dhcpv6.OptionGeneric{OptionCode: dhcpv6.OptionCode(c), OptionData: d})
				t.K(tree.N("generic").U("code", uint64(c)).B("data", d))
			}
		}
		return o, t
	case 59:
		u := g.bytes(g.smallLen())
		return dhcpv6.OptBootFileURL(string(u)), tree.N("bootfileurl").B("url", u)
	case 60:
		var ps []string
		var l [][]byte
		for i := 0; i < R.IntN(5); i++ {
			b := g.bytes(g.smallLen())
			ps = append(ps, string(b))
			l = append(l, b)
		}
		return dhcpv6.OptBootFileParam(ps...), tree.N("bootfileparam").L("params", hexes(l))
	case 61:
		var as []iana.Arch
		var l []string
		for i := 0; i < 1+R.IntN(4); i++ {
			a := R.IntN(65536)
			if R.IntN(2) == 0 {
				a = R.IntN(40)
			}
			as = append(as, iana.Arch(a))
			l = append(l, strconv.Itoa(a))
		}
		return dhcpv6.OptClientArchType(as...), tree.N("archtype").L("archs", l)
	case 62:
		a, b, c := e8(R), e8(R), e8(R)
		return &dhcpv6.OptNetworkInterfaceID{Typ: dhcpv6.NetworkInterfaceType(a), Major: b, Minor: c}, tree.N("nii").U("type", uint64(a)).U("major", uint64(b)).U("minor", uint64(c))
	case 79:
		hw, ll := g.hwAddr(300)
		return dhcpv6.OptClientLinkLayerAddress(iana.HWType(hw), ll), tree.N("clientlladdr").U("hw", uint64(hw)).B("ll", ll)
	case 87:
		p, e := gen4.Packet(R, 4)
		for c, v := range p.Options {
			if len(v) > 600 {
				p.Options[c] = v[:600]
				e.Opts[c] = e.Opts[c][:600]
			}
		}
		var pp *dhcpv4.DHCPv4 = p
		return &dhcpv6.OptDHCPv4Msg{Msg: pp}, tree.N("dhcpv4msg").S("p4", e.Canon())
	case 97:
		o := &dhcpv6.Opt4RD{}
		os, ts := g.subOptions([]int{98, 99}, depth)
		o.Options = os
		return o, tree.N("4rd").K(ts...)
	case 98:
		p4l, p6l := R.IntN(33), R.IntN(129)
		ip4 := net.IP(g.bytes(4))
		ip6 := g.Addr()
		if R.IntN(2) == 0 {
			ip4, ip6 = net.IP(mask(ip4, p4l)), net.IP(mask(ip6, p6l))
		}
		if R.IntN(8) == 0 { // unset addresses are written as zeros
			ip4, ip6 = nil, nil
		}
		ea := e8(R)
		w := R.IntN(2) == 0
		o := &dhcpv6.Opt4RDMapRule{Prefix4: net.IPNet{IP: ip4, Mask: net.CIDRMask(p4l, 32)}, Prefix6: net.IPNet{IP: ip6, Mask: net.CIDRMask(p6l, 128)}, EABitsLength: ea, WKPAuthorized: w}
		wv := uint64(0)
		if w {
			wv = 1
		}
		return o, tree.N("4rdmap").U("p4len", uint64(p4l)).U("p6len", uint64(p6l)).U("ea", uint64(ea)).U("wkp", wv).B("p4", mask4(ip4, p4l)).B("p6", mask16(ip6, p6l))
	case 99:
		o := &dhcpv6.Opt4RDNonMapRule{HubAndSpoke: R.IntN(2) == 0, DomainPMTU: e16(R)}
		hs, tp, tc := uint64(0), uint64(0), uint64(0)
		if o.HubAndSpoke {
			hs = 1
		}
		if R.IntN(2) == 0 {
			v := e8(R)
			o.TrafficClass = &v
			tp, tc = 1, uint64(v)
		}
		return o, tree.N("4rdnonmap").U("hs", hs).U("tcp", tp).U("tc", tc).U("pmtu", uint64(o.DomainPMTU))
	case 135:
		p := e16(R)
		return dhcpv6.OptRelayPort(p), tree.N("relayport").U("port", uint64(p))
	}
	// unknown code with arbitrary payload
	c := R.IntN(65536)
	for (g.IsTyped != nil && g.IsTyped(c)) || c == 65001 || c == 65002 { // 65001/65002 are reserved for the harness' nonce / marker options
		c = R.IntN(65536)
	}
	if R.IntN(3) == 0 {
		for _, k := range []int{7, 10, 11, 12, 14, 19, 20, 21, 22, 31, 82, 136, 65535, 0} {
			if g.IsTyped == nil || !g.IsTyped(k) {
				if R.IntN(4) == 0 {
					c = k
				}
			}
		}
	}
	d := g.bytes(g.smallLen())
	return &dhcpv6.OptionGeneric{OptionCode: dhcpv6.OptionCode(c), OptionData: d}, tree.N("generic").U("code", uint64(c)).B("data", d)
}

// Message draws a non-relay message with up to maxOpts options.
func (g *G) Message(maxOpts int, depth int) (*dhcpv6.Message, *tree.Node) {
	t := uint8(g.R.UintN(256))
	if g.R.IntN(2) == 0 {
		t = uint8(1 + g.R.UintN(11))
	}
	if t == 12 || t == 13 {
		t = 1
	}
	m := &dhcpv6.Message{MessageType: dhcpv6.MessageType(t)}
	copy(m.TransactionID[:], g.bytes(3))
	n := tree.N("msg").U("type", uint64(t)).B("xid", m.TransactionID[:])
	k := 0
	if maxOpts > 0 {
		k = g.R.IntN(maxOpts + 1)
	}
	for i := 0; i < k && g.Budget > 0; i++ {
		o, ot := g.AnyOption(depth)
		m.Options.Options = append(m.Options.Options, o)
		n.K(ot)
	}
	return m, n
}

// Chain draws a relay chain of the given depth around a message (depth 0: the message itself).
func (g *G) Chain(relays int, depth int) (dhcpv6.DHCPv6, *tree.Node) {
	if relays <= 0 || depth > 8 {
		return g.Message(20, depth)
	}
	inner, it := g.Chain(relays-1, depth+1)
	r := &dhcpv6.RelayMessage{MessageType: dhcpv6.MessageType(12 + g.R.UintN(2)), HopCount: e8(g.R)}
	if g.R.IntN(2) == 0 {
		r.HopCount = uint8(relays - 1)
	}
	link, peer := g.Addr(), g.Addr()
	lw, pw := []byte(link), []byte(peer)
	if g.R.IntN(10) == 0 {
		link, lw = nil, make([]byte, 16)
	}
	r.LinkAddr, r.PeerAddr = link, peer
	n := tree.N("relay").U("type", uint64(r.MessageType)).U("hop", uint64(r.HopCount)).B("link", lw).B("peer", pw)
	k := g.R.IntN(5)
	pos := g.R.IntN(k + 1)
	if g.R.IntN(20) == 0 {
		pos = -1 // a relay message without relay-msg option
	}
	for i := 0; i <= k; i++ {
		if i == pos {
			r.Options.Options = append(r.Options.Options, dhcpv6.OptRelayMessage(inner))
			n.K(tree.N("relaymsg").K(it))
			g.Hits[9]++
			continue
		}
		if i == k {
			break
		}
		var o dhcpv6.Option
		var ot *tree.Node
		if g.R.IntN(2) == 0 {
			o, ot = g.Option([]int{18, 37, 79, 135}[g.R.IntN(4)], depth)
		} else {
			o, ot = g.AnyOption(depth)
		}
		r.Options.Options = append(r.Options.Options, o)
		n.K(ot)
	}
	return r, n
}
