package gen6

import (
	"math/rand/v2"

	"verif/harness/gen4"
	"verif/harness/reflabel"
)

func tlv(code int, v []byte) []byte {
	return append([]byte{byte(code >> 8), byte(code), byte(len(v) >> 8), byte(len(v))}, v...)
}

func be32(v uint32) []byte { return []byte{byte(v >> 24), byte(v >> 16), byte(v >> 8), byte(v)} }

// NonCanonical builds DHCPv6 wire bytes by hand (no library code) that are well-formed but not what the library's own
// encoder would emit for the value they decode to: duplicate ORO codes, reserved bits, host bits beyond prefixes,
// compressed and partial names, names with octets a dotted string cannot carry, duplicate options, embedded
// non-canonical DHCPv4 messages -- bare and inside relay messages.
func NonCanonical(r *rand.Rand) []byte {
	var opts []byte
	n := 1 + r.IntN(4)
	for i := 0; i < n; i++ {
		var o []byte
		switch r.IntN(25) {
		case 18: // vendor options of the vendors whose formats exist, sub-options numbered from 1 with plausible payloads
			en := []uint32{4491, 9, 311, 2636, 30065, 1271, 42623}[r.IntN(7)]
			v := be32(en)
			for k := 1 + r.IntN(4); k > 0; k-- {
				sc := 1 + r.IntN(40)
				var d []byte
				switch r.IntN(3) {
				case 0:
					d = gen4.Bytes(r, 16*(1+r.IntN(2))) // address lists
				case 1:
					d = []byte("value-" + string(rune('a'+r.IntN(26))))
				default:
					d = gen4.Bytes(r, r.IntN(9))
				}
				v = append(v, tlv(sc, d)...)
			}
			o = tlv(17, v)
		case 19, 20: // strings that end in NUL octets (C programs send them), inner NULs, a lone NUL
			str := []byte("tftp://[2001:db8::1]/boot.efi")
			switch r.IntN(4) {
			case 0:
				str = append(str, 0)
			case 1:
				str = append(str, 0, 0)
			case 2:
				str = append(str[:7], append([]byte{0}, str[7:]...)...)
				str = append(str, 0, 0, 0)
			default:
				str = []byte{0}
			}
			switch r.IntN(3) {
			case 0:
				o = tlv(59, str)
			case 1:
				o = tlv(60, append([]byte{byte(len(str) >> 8), byte(len(str))}, str...))
			default:
				o = tlv(15, append([]byte{byte(len(str) >> 8), byte(len(str))}, str...))
			}
		case 16, 17: // identifiers written by hand: every DUID kind with the hardware types and address lengths that exist
			pairs := [][2]int{{1, 6}, {6, 6}, {27, 8}, {32, 20}, {32, 8}, {24, 8}, {1, 20}, {32, 19}, {32, 21}, {0, 0}, {65535, 3}}
			pr := pairs[r.IntN(len(pairs))]
			var d []byte
			switch r.IntN(4) {
			case 0:
				d = append([]byte{0, 3, byte(pr[0] >> 8), byte(pr[0])}, gen4.Bytes(r, pr[1])...)
			case 1:
				d = append(append([]byte{0, 1, byte(pr[0] >> 8), byte(pr[0])}, be32(r.Uint32())...), gen4.Bytes(r, pr[1])...)
			case 2:
				d = append(append([]byte{0, 2}, be32(r.Uint32())...), gen4.Bytes(r, r.IntN(24))...)
			default:
				d = append([]byte{0, 4}, gen4.Bytes(r, 16)...)
			}
			o = tlv(1+r.IntN(2), d)
		case 14, 15: // names within a few octets of the 255-octet limit, ended by root / end of option / pointer
			v := reflabel.Boundary(r)
			switch r.IntN(3) {
			case 0:
				o = tlv(24, v)
			case 1:
				o = tlv(39, append([]byte{byte(r.UintN(8))}, v...))
			default:
				o = tlv(56, tlv(3, v))
			}
		case 12, 13: // names whose labels hold octets a dotted string cannot carry faithfully: '.' at a label edge or alone,
			// NUL, upper case, high octets (uncompressed, root-terminated: only the verbatim wire form keeps them apart)
			var v []byte
			for k := 0; k < 1+r.IntN(3); k++ {
				for l := 0; l < 1+r.IntN(3); l++ {
					lab := gen4.Bytes(r, 1+r.IntN(6))
					for i := range lab {
						lab[i] = []byte{'a', 'b', 'w', 'Z', '.', '.', 0, 0x80, '-', '\\'}[r.IntN(10)]
					}
					switch r.IntN(4) {
					case 0:
						lab[0] = '.'
					case 1:
						lab[len(lab)-1] = '.'
					case 2:
						lab = []byte{'.'}
					}
					v = append(append(v, byte(len(lab))), lab...)
				}
				v = append(v, 0)
			}
			switch r.IntN(3) {
			case 0:
				o = tlv(24, v)
			case 1:
				o = tlv(39, append([]byte{byte(r.UintN(8))}, v...))
			default:
				o = tlv(56, tlv(3, v))
			}
		case 0: // ORO with duplicate codes
			var v []byte
			for k := 0; k < 2+r.IntN(6); k++ {
				c := r.IntN(5) + 20
				v = append(v, byte(c>>8), byte(c))
			}
			o = tlv(6, v)
		case 1: // 4RD non-map rule with reserved flag bits, traffic class without T bit
			o = tlv(97, tlv(99, []byte{byte(r.UintN(256)), byte(r.UintN(256)), byte(r.UintN(256)), byte(r.UintN(256))}))
		case 2: // 4RD map rule with reserved flag bits and host bits beyond the prefix
			v := []byte{byte(r.UintN(33)), byte(r.UintN(129)), byte(r.UintN(256)), byte(r.UintN(256))}
			v = append(v, gen4.Bytes(r, 20)...)
			o = tlv(97, tlv(98, v))
		case 3: // IA_PD with prefix carrying host bits / length 0 with an address / out-of-range length
			pl := r.IntN(129)
			switch r.IntN(4) {
			case 0:
				pl = 0
			case 1:
				pl = 129 + r.IntN(127)
			}
			v := append(append(be32(r.Uint32()), be32(r.Uint32())...), byte(pl))
			v = append(v, gen4.Bytes(r, 16)...)
			o = tlv(25, append(append(gen4.Bytes(r, 4), append(be32(1), be32(2)...)...), tlv(26, v)...))
		case 4: // domain search list with a compression pointer
			v := []byte{3, 'f', 'o', 'o', 3, 'c', 'o', 'm', 0, 3, 'b', 'a', 'r', 0xC0, byte(4 * r.IntN(2))}
			o = tlv(24, v)
		case 5: // FQDN partial name / compressed
			v := []byte{byte(r.UintN(8)), 4, 'h', 'o', 's', 't'}
			if r.IntN(2) == 0 {
				v = append(v, 3, 'l', 'a', 'n', 0)
			}
			o = tlv(39, v)
		case 6: // NTP with fqdn
			o = tlv(56, append(tlv(3, []byte{3, 'n', 't', 'p', 0}), tlv(1, gen4.Bytes(r, 16))...))
		case 7: // elapsed time max, refresh time max
			et := 0xffff - r.IntN(70) // elapsed time at and just below the maximum
			rt := 0xffffffff - r.Uint32N(3)
			o = append(tlv(8, []byte{byte(et >> 8), byte(et)}), tlv(32, be32(rt))...)
		case 8: // IA_NA with address and status
			a := append(gen4.Bytes(r, 16), append(be32(r.Uint32()), be32(r.Uint32())...)...)
			a = append(a, tlv(13, append([]byte{0, byte(r.UintN(7))}, []byte("ok")...))...)
			o = tlv(3, append(append(gen4.Bytes(r, 4), append(be32(r.Uint32()), be32(r.Uint32())...)...), tlv(5, a)...))
		case 9: // vendor class / user class with empty items
			o = append(tlv(16, append(be32(r.Uint32()), []byte{0, 0, 0, 1, 'x'}...)), tlv(15, []byte{0, 0})...)
		case 10: // embedded DHCPv4 message, non-canonical
			w, _ := gen4.WirePacket(r, 4)
			if len(w) < 1000 {
				o = tlv(87, w)
			}
		case 11: // duplicate options of the same code
			o = append(tlv(8, []byte{0, 1}), tlv(8, []byte{0, 2})...)
		case 21: // more instances than the RFC foresees inside a container: a 4RD option with several non-map rules and
			// map rules in any order (RFC 7600 allows one non-map rule; a receiver still has to carry what it got)
			var v []byte
			for k := 2 + r.IntN(3); k > 0; k-- {
				if r.IntN(3) != 0 {
					v = append(v, tlv(99, []byte{byte(r.UintN(2)) << 7, byte(r.UintN(256)), byte(r.UintN(6)), byte(r.UintN(256))})...)
				} else {
					m := []byte{byte(r.UintN(33)), byte(r.UintN(129)), byte(r.UintN(48)), byte(r.UintN(2)) << 7}
					v = append(v, tlv(98, append(m, make([]byte, 20)...))...)
				}
			}
			o = tlv(97, v)
		case 22: // ... an IA_NA with two status codes and the same address twice; an IA_PD with the same prefix twice
			st := tlv(13, []byte{0, byte(r.UintN(7))})
			a := tlv(5, append(gen4.Bytes(r, 16), 0, 0, 0, 9, 0, 0, 0, 10))
			px := tlv(26, append([]byte{0, 0, 0, 9, 0, 0, 0, 10, 56}, append(gen4.Bytes(r, 7), make([]byte, 9)...)...))
			if r.IntN(2) == 0 {
				o = tlv(3, append(append(append(append(gen4.Bytes(r, 4), 0, 0, 0, 1, 0, 0, 0, 2), st...), append(a, a...)...), st...))
			} else {
				o = tlv(25, append(append(append(gen4.Bytes(r, 4), 0, 0, 0, 1, 0, 0, 0, 2), px...), append(px, st...)...))
			}
		case 23: // ... singletons twice at the top level: client id, server id, rapid commit, preference, reconfigure accept
			d := append([]byte{0, 3, 0, 1}, gen4.Bytes(r, 6)...)
			switch r.IntN(4) {
			case 0:
				o = append(tlv(1, d), tlv(1, append([]byte{0, 3, 0, 1}, gen4.Bytes(r, 6)...))...)
			case 1:
				o = append(tlv(2, d), tlv(2, d)...)
			case 2:
				o = append(tlv(14, nil), tlv(14, nil)...)
			default:
				o = append(tlv(7, []byte{byte(r.UintN(256))}), tlv(7, []byte{byte(r.UintN(256))})...)
			}
		case 24: // canonical forms whose fields have edge values, written by hand (what the library's own encoder makes of
			// such a value cannot filter them out): DUID-LLT with time 0 / 1 / 2^32-1, DUID-EN with enterprise number 0, an IA
			// prefix that is only a length hint (::/56), lifetimes of 0 and infinity, an elapsed time of 0xffff
			e32 := func() []byte { return be32([]uint32{0, 1, 0xffffffff, 0x80000000, 0x7fffffff}[r.IntN(5)]) }
			switch r.IntN(5) {
			case 0:
				d := append(append([]byte{0, 1, 0, byte(1 + r.UintN(2)*5)}, e32()...), gen4.Bytes(r, 6)...)
				o = tlv(1+r.IntN(2), d)
			case 1:
				o = tlv(1+r.IntN(2), append(append([]byte{0, 2}, e32()...), gen4.Bytes(r, 1+r.IntN(12))...))
			case 2:
				pl := byte([]int{1, 48, 56, 64, 127, 128}[r.IntN(6)])
				pfx := append(append(append(e32(), e32()...), pl), make([]byte, 16)...)
				o = tlv(25, append(append(append(be32(r.Uint32()), e32()...), e32()...), tlv(26, pfx)...))
			case 3:
				ad := append(append(gen4.Bytes(r, 16), e32()...), e32()...)
				o = tlv(3, append(append(append(be32(r.Uint32()), e32()...), e32()...), tlv(5, ad)...))
			default:
				o = tlv(8, [][]byte{{0xff, 0xff}, {0, 0}, {0xff, 0xfe}, {0x80, 0}}[r.IntN(4)])
			}
		}
		opts = append(opts, o...)
	}
	msg := append([]byte{byte(1 + r.UintN(11)), 1, 2, 3}, opts...)
	for k := r.IntN(3); k > 0; k-- { // wrap in relays
		h := make([]byte, 34)
		h[0] = byte(12 + r.UintN(2))
		h[1] = byte(r.UintN(4))
		copy(h[2:], gen4.Bytes(r, 32))
		// link and peer addresses of the kinds that exist: IPv4-mapped, unspecified, link-local made from a MAC, multicast
		for _, off := range []int{2, 18} {
			a := h[off : off+16]
			switch r.IntN(7) {
			case 0:
				copy(a, []byte{0, 0, 0, 0, 0, 0, 0, 0, 0, 0, 0xff, 0xff})
			case 1:
				clear(a)
			case 2:
				copy(a, []byte{0xfe, 0x80, 0, 0, 0, 0, 0, 0, 0x02, 0x11, 0x22, 0xff, 0xfe})
			case 3:
				copy(a, []byte{0xff, 0x02, 0, 0, 0, 0, 0, 0, 0, 0, 0, 0, 0, 1, 0})
			case 4:
				copy(a, []byte{0, 0, 0, 0, 0, 0, 0, 0, 0, 0, 0, 0}) // IPv4-compatible ::a.b.c.d
			}
		}
		extra := []byte{}
		if r.IntN(2) == 0 {
			extra = tlv(18, gen4.Bytes(r, r.IntN(6)))
		}
		msg = append(h, append(extra, tlv(9, msg)...)...)
	}
	return msg
}

// Untyped builds a message (bare or relayed) that carries option `code` with an arbitrary payload of 0..80 octets, for
// option codes the library has a typed parser for but gen6 has no generator: the harness cannot know the layout, so
// it offers payloads of every small length and lets the library decide which it accepts (monitors that do not need a
// reference verdict -- ownership of memory, purity, fixpoint, crash freedom -- then run on the accepted ones).
func Untyped(r *rand.Rand, code int) []byte {
	n := r.IntN(81)
	v := gen4.Bytes(r, n)
	switch r.IntN(4) {
	case 0:
		for i := range v {
			v[i] = byte(r.UintN(4))
		}
	case 1:
		clear(v)
	}
	msg := append([]byte{byte(1 + r.UintN(11)), 1, 2, 3}, tlv(code, v)...)
	if r.IntN(2) == 0 {
		msg = append(msg, tlv(8, []byte{0, 1})...)
	}
	for k := r.IntN(3); k > 0; k-- {
		h := make([]byte, 34)
		h[0] = byte(12 + r.UintN(2))
		copy(h[2:], gen4.Bytes(r, 32))
		msg = append(h, tlv(9, msg)...)
	}
	return msg
}

// HasGenerator reports whether gen6 has a typed generator for the code.
func HasGenerator(code int) bool {
	for _, c := range AllCodes {
		if c == code {
			return true
		}
	}
	return false
}
