package c07

import (
	"bytes"
	"fmt"
	"math/rand/v2"
	"os"
	"sort"
	"testing"
	"time"

	"github.com/insomniacslk/dhcp/dhcpv4"
	"verif/harness/gen4"
	"verif/harness/mon"
	"verif/harness/ref4"
)

type replay struct {
	Stream string `json:"stream"`
	Idx    int    `json:"idx"`
	Wire   string `json:"wire,omitempty"`
	Note   string `json:"note,omitempty"`
}

func shapeOf(e *ref4.P4, order string) (string, bool) {
	codes := make([]int, 0, len(e.Opts))
	for c := range e.Opts {
		codes = append(codes, int(c))
	}
	sort.Ints(codes)
	s := ""
	nt := len(codes) >= 3
	for _, c := range codes {
		l := len(e.Opts[byte(c)])
		cls := "s"
		if l == 0 {
			cls = "0"
		} else if l > 255 {
			cls = fmt.Sprintf("x%d", (l+254)/255)
			nt = true
		}
		cc := "c"
		if c == 82 {
			cc = "82"
			nt = true
		} else if c > 82 {
			cc = "C"
		}
		s += cc + cls + ","
	}
	return s + order, nt
}

// validate one encoding against the wire validator and the reference decoder.
func validate(r *mon.Rec, rp replay, wire []byte, e *ref4.P4) bool {
	if len(wire) <= 1024 {
		rp.Wire = mon.Hex(wire)
	}
	if err := ref4.Validate(wire); err != nil {
		r.Violate("C07:layout:"+cls(err.Error()), "wire layout: "+err.Error(), rp)
		return false
	}
	g, ok, why := ref4.Decode(wire)
	if !ok {
		r.Violate("C07:ref-reject", "independent decoder rejects the encoding: "+why, rp)
		return false
	}
	if g.Canon() != e.Canon() {
		r.Violate("C07:ref-mismatch", "independent decoder reads other values: want "+trunc(e.Canon())+" got "+trunc(g.Canon()), rp)
		return false
	}
	return true
}

func cls(s string) string {
	out := []byte{}
	for i := 0; i < len(s) && len(out) < 40; i++ {
		if s[i] >= '0' && s[i] <= '9' {
			continue
		}
		out = append(out, s[i])
	}
	return string(out)
}

func trunc(s string) string {
	if len(s) > 400 {
		return s[:400] + "…"
	}
	return s
}

const largeBase = 1000000000
const decodedBase = 500000000

func caseGen(r *mon.Rec, idx int) {
	rng := r.Rand("gen", idx)
	p, e := gen4.Packet(rng, 12)
	if idx >= largeBase { // large totals: option areas of 60 kB to 1 MB
		p, e = gen4.Packet(rng, 2)
		gen4.LargeTotal(rng, p, e)
	} else if idx >= decodedBase {
		// a packet value that was decoded from bytes no canonical encoder wrote (options in any order, split, padded,
		// trailing octets): it is a packet like any other, its encoding is the canonical one of what it holds
		w0, e0 := gen4.WirePacket(rng, 8)
		q, err := dhcpv4.FromBytes(w0)
		if err != nil || len(e0.SName) > 63 || len(e0.File) > 127 {
			return
		}
		e0.HLen = byte(len(e0.CHAddr)) // an hlen above 16 is re-encoded as the clipped length
		p, e = q, e0
	}
	r.Current(replay{Stream: "gen", Idx: idx, Wire: ""})
	r.Eval(1)
	rp := replay{Stream: "gen", Idx: idx, Wire: ""}
	var first, firstKept []byte
	pan, val, st := mon.Guard(func() {
		for k := 0; k < 4; k++ {
			w := p.ToBytes()
			if k == 0 {
				first = w
				firstKept = append([]byte{}, w...)
				if !validate(r, rp, w, e) {
					return
				}
			} else if !bytes.Equal(first, w) {
				r.Violate("C07:nondeterministic", fmt.Sprintf("two encodings of the same packet differ (call 1 vs call %d)", k+1), rp)
				return
			}
		}
		// a twin with equal contents whose byte slices live in larger buffers with other data behind them (a hardware
		// address or an option value cut out of a received frame): equal contents, identical bytes
		home := func(b []byte) []byte {
			if b == nil {
				return nil
			}
			big := gen4.Bytes(rng, len(b)+1+rng.IntN(24))
			for i := len(b); i < len(big); i++ {
				big[i] |= 0x81 // never zero
			}
			copy(big, b)
			return big[:len(b)]
		}
		twin := *p
		twin.ClientHWAddr = home(p.ClientHWAddr)
		twin.ClientIPAddr, twin.YourIPAddr, twin.ServerIPAddr, twin.GatewayIPAddr = home(p.ClientIPAddr), home(p.YourIPAddr), home(p.ServerIPAddr), home(p.GatewayIPAddr)
		twin.Options = dhcpv4.Options{}
		for c, v := range p.Options {
			twin.Options[c] = home(v)
		}
		if w := twin.ToBytes(); !bytes.Equal(w, first) {
			d := 0
			for d < len(w) && d < len(first) && w[d] == first[d] {
				d++
			}
			r.Violate("C07:equal-contents-different-bytes", fmt.Sprintf("a packet with equal contents whose byte slices have spare capacity encodes differently (first difference at offset %d)", d), rp)
			return
		}
		// two packets may share the storage of an option value (the library's own WithOptionCopied does it, a struct copy
		// with a copied map does it): updating the option in one of them leaves the other what it was
		if len(p.Options) > 0 {
			sib := *p
			sib.Options = dhcpv4.Options{}
			var codes []int
			for c, v := range p.Options {
				sib.Options[c] = v // same backing array
				codes = append(codes, int(c))
			}
			sort.Ints(codes)
			c := uint8(codes[rng.IntN(len(codes))])
			old := p.Options[c]
			nv := gen4.Bytes(rng, max(1, len(old)-rng.IntN(2)))
			for i := range nv {
				nv[i] |= 0x41
			}
			sib.Options.Update(dhcpv4.OptGeneric(dhcpv4.GenericOptionCode(c), nv))
			if w := p.ToBytes(); !bytes.Equal(w, first) {
				r.Violate("C07:sibling-update-changes-encoding", fmt.Sprintf("updating option %d in a packet that shares the value's storage changed the encoding of the other packet", c), rp)
				return
			}
		}
		// standalone options encoding = the options area without End
		ob := p.Options.ToBytes()
		full := append(append(append([]byte{}, first[:240]...), ob...), 255)
		for len(full) < 300 {
			full = append(full, 0)
		}
		if !bytes.Equal(full, first) {
			r.Violate("C07:options-tobytes-differs", "Options.ToBytes() is not the options area of the packet encoding", rp)
			return
		}
		// the encoding is a function of what the packet holds NOW: after it has been encoded, its owner changes it
		// (through the exported map, the Options methods, a struct copy that shares the map; the number of options
		// stays or not) and encodes it again -- the bytes are those of the new contents
		if len(p.Options) > 0 && idx < largeBase {
			var codes []int
			for c := range p.Options {
				codes = append(codes, int(c))
			}
			sort.Ints(codes)
			for k := 1 + rng.IntN(2); k > 0; k-- {
				c := uint8(codes[rng.IntN(len(codes))])
				nv := gen4.Bytes(rng, []int{0, 1, 4, 9, 255, 256}[rng.IntN(6)])
				switch rng.IntN(4) {
				case 0:
					p.Options[c] = nv
				case 1:
					p.Options.Update(dhcpv4.OptGeneric(dhcpv4.GenericOptionCode(c), nv))
				case 2:
					cp := *p // shares the map
					cp.Options.Update(dhcpv4.OptGeneric(dhcpv4.GenericOptionCode(c), nv))
				default:
					p.UpdateOption(dhcpv4.OptGeneric(dhcpv4.GenericOptionCode(c), nv))
				}
				e.Opts[c] = append([]byte{}, nv...)
				if rng.IntN(3) == 0 {
					p.HopCount++
					e.Hops++
				}
				rp2 := rp
				rp2.Note = "re-encoded after its owner changed it"
				if !validate(r, rp2, p.ToBytes(), e) {
					return
				}
				// the bytes of the FIRST encoding are the caller's (sent, queued for retransmission, logged): they are what
				// they were although the packet has been changed and encoded again
				if !bytes.Equal(first, firstKept) {
					r.Violate("C07:earlier-encoding-overwritten", "the bytes returned by the first ToBytes changed when the packet was modified and encoded again", rp2)
					return
				}
			}
			r.Count("reencoded_after_edit", 1)
		}
	})
	if pan {
		r.Violate("C07:panic:"+mon.LibFrame(st), fmt.Sprint(val), rp)
		return
	}
	s, nt := shapeOf(e, "")
	r.Shape(s, nt)
	if nt && r.NSamples() < 3 && len(first) < 360 {
		r.Sample(map[string]any{"stream": "gen", "idx": idx, "options_area": mon.Hex(first[240:]), "contents": trunc(e.Canon())})
	}
}

type upd struct {
	code byte
	val  []byte
}

func permute(n int, f func([]int)) {
	a := make([]int, n)
	for i := range a {
		a[i] = i
	}
	var rec func(k int)
	rec = func(k int) {
		if k == n {
			f(a)
			return
		}
		for i := k; i < n; i++ {
			a[k], a[i] = a[i], a[k]
			rec(k + 1)
			a[k], a[i] = a[i], a[k]
		}
	}
	rec(0)
}

func drawSet(rng *rand.Rand, k int) []upd {
	seen := map[byte]bool{}
	var us []upd
	for len(us) < k {
		var c byte
		switch rng.IntN(4) {
		case 0:
			c = 82
		case 1:
			c = byte(83 + rng.UintN(172))
		default:
			c = byte(1 + rng.UintN(254))
		}
		if seen[c] {
			continue
		}
		seen[c] = true
		l := 1 + rng.IntN(20)
		switch rng.IntN(8) {
		case 0:
			l = 0
		case 1:
			l = 250 + rng.IntN(300)
		}
		us = append(us, upd{c, gen4.Bytes(rng, l)})
	}
	return us
}

// casePerm: all permutations (k<=6) or 200 sampled permutations (k 7..12) of the same updates.
func casePerm(r *mon.Rec, idx int) {
	rng := r.Rand("perm", idx)
	k := 2 + rng.IntN(5) // 2..6
	sampled := false
	if rng.IntN(6) == 0 {
		k = 7 + rng.IntN(6)
		sampled = true
	}
	r.Current(replay{Stream: "perm", Idx: idx, Wire: ""})
	us := drawSet(rng, k)
	base, e := gen4.Packet(rng, 0)
	for _, u := range us {
		e.Opts[u.code] = u.val
	}
	rp := replay{Stream: "perm", Idx: idx, Wire: ""}
	var ref []byte
	n := 0
	build := func(order []int, style int) []byte {
		p := *base
		p.Options = dhcpv4.Options{}
		for _, i := range order {
			u := us[i]
			switch style {
			case 0:
				p.UpdateOption(dhcpv4.OptGeneric(dhcpv4.GenericOptionCode(u.code), u.val))
			case 1:
				dhcpv4.WithGeneric(dhcpv4.GenericOptionCode(u.code), u.val)(&p)
			case 2: // add junk first, delete, re-add
				p.UpdateOption(dhcpv4.OptGeneric(dhcpv4.GenericOptionCode(u.code), []byte{9, 9}))
				p.DeleteOption(dhcpv4.GenericOptionCode(u.code))
				p.Options.Update(dhcpv4.OptGeneric(dhcpv4.GenericOptionCode(u.code), u.val))
			}
		}
		if style == 2 { // an extra option added and removed again must leave no trace
			p.UpdateOption(dhcpv4.OptGeneric(dhcpv4.GenericOptionCode(200), []byte{1}))
			if _, had := e.Opts[200]; !had {
				p.DeleteOption(dhcpv4.GenericOptionCode(200))
			} else {
				p.UpdateOption(dhcpv4.OptGeneric(dhcpv4.GenericOptionCode(200), e.Opts[200]))
			}
		}
		return p.ToBytes()
	}
	fail := false
	try := func(order []int) {
		if fail {
			return
		}
		n++
		w := build(order, n%3)
		r.Eval(1)
		if ref == nil {
			ref = w
			if !validate(r, rp, w, e) {
				fail = true
			}
			return
		}
		if !bytes.Equal(ref, w) {
			r.Violate("C07:order-dependent", fmt.Sprintf("same contents, different bytes for construction order %v (k=%d)", order, k), rp)
			fail = true
		}
	}
	pan, val, st := mon.Guard(func() {
		if !sampled {
			permute(k, try)
		} else {
			ord := make([]int, k)
			for i := range ord {
				ord[i] = i
			}
			for t := 0; t < 200; t++ {
				rng.Shuffle(k, func(i, j int) { ord[i], ord[j] = ord[j], ord[i] })
				try(ord)
			}
		}
	})
	if pan {
		r.Violate("C07:panic:"+mon.LibFrame(st), fmt.Sprint(val), rp)
		return
	}
	s, nt := shapeOf(e, fmt.Sprintf("|perm%d", k))
	r.Shape(s, nt)
	r.Count("permutations_tried", n)
	if r.NSamples() < 6 && !sampled && k <= 4 {
		cs := []int{}
		for _, u := range us {
			cs = append(cs, int(u.code))
		}
		r.Sample(map[string]any{"stream": "perm", "idx": idx, "codes": cs, "orders": n, "options_area": mon.Hex(ref[240:min(len(ref), 300)])})
	}
}

func TestCheck(t *testing.T) {
	r := mon.New("C07")
	defer r.Flush()
	if os.Getenv("VERIF_REPLAY") == "" {
		r.Watchdog(20 * time.Second)
	}
	var rp replay
	if mon.ReplayCase(&rp) {
		if rp.Stream == "perm" {
			casePerm(r, rp.Idx)
		} else {
			caseGen(r, rp.Idx)
		}
		return
	}
	n := r.Pick(40000, 5000000)
	for i := 0; i < n; i++ {
		if r.Mine(i) {
			caseGen(r, i)
		}
	}
	nl := r.Pick(48, 2000)
	for i := 0; i < nl; i++ {
		if r.Mine(i) {
			caseGen(r, largeBase+i)
		}
	}
	nd := r.Pick(20000, 2000000)
	for i := 0; i < nd; i++ {
		if r.Mine(i) {
			caseGen(r, decodedBase+i)
		}
	}
	r.Set("decoded_packet_cases", nd)
	r.Set("large_total_cases", nl)
	m := r.Pick(3000, 300000)
	for i := 0; i < m; i++ {
		if r.Mine(i) {
			casePerm(r, i)
		}
	}
}
