package c07

import (
	"os"
	"strconv"
	"sync"
	"testing"
	"time"

	"verif/harness/mon"
)

// TestConc is the same encoding monitor driven from 16 goroutines at once, every goroutine on values of its own.
// The encoding of a packet does not depend on what other goroutines of the program encode and
// decode at the same moment: the codec has no business sharing mutable state between unrelated values (scratch
// buffers handed back to a pool before the bytes have been copied out, memo tables, interned values).  The oracle is
// unchanged; run once plain and once under the race detector (a sample, VERIF_SAMPLE).
func TestConc(t *testing.T) {
	r := mon.New("C07")
	defer r.Flush()
	if os.Getenv("VERIF_REPLAY") == "" {
		r.Watchdog(30 * time.Second)
	}
	var rp replay
	if mon.ReplayCase(&rp) {
		if rp.Stream == "perm" {
			casePerm(r, rp.Idx)
		} else {
			caseGen(r, rp.Idx)
		}
		return
	}
	n := r.Pick(40000, 2000000)
	if v, err := strconv.Atoi(os.Getenv("VERIF_SAMPLE")); err == nil && v > 1 {
		n /= v
	}
	work := make(chan int, 256)
	var wg sync.WaitGroup
	const G = 16
	for g := 0; g < G; g++ {
		wg.Add(1)
		go func() {
			defer wg.Done()
			for i := range work {
				switch {
				case i%64 == 1:
					caseGen(r, largeBase+7000000+i)
				case i%8 == 2:
					casePerm(r, 7000000+i)
				default:
					caseGen(r, 7000000+i)
				}
			}
		}()
	}
	for i := 0; i < n; i++ {
		if r.Mine(i) {
			work <- i
		}
	}
	close(work)
	wg.Wait()
	r.Set("concurrent_goroutines", G)
	r.Count("conc.cases", n)
}
