module verif/harness

go 1.26

require github.com/insomniacslk/dhcp v0.0.0

require (
	github.com/josharian/native v1.1.0 // indirect
	github.com/jsimonetti/rtnetlink v1.3.5 // indirect
	github.com/mdlayher/netlink v1.7.2 // indirect
	github.com/mdlayher/packet v1.1.2 // indirect
	github.com/mdlayher/socket v0.4.1 // indirect
	github.com/pierrec/lz4/v4 v4.1.14 // indirect
	github.com/u-root/uio v0.0.0-20230220225925-ffce2a382923 // indirect
	golang.org/x/net v0.38.0 // indirect
	golang.org/x/sync v0.3.0 // indirect
	golang.org/x/sys v0.31.0 // indirect
)

replace github.com/insomniacslk/dhcp => /repo
