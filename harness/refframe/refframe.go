// Package refframe is an independent IPv4/UDP frame builder, validator and
// reference reader (RFC 791, RFC 768, RFC 1071).  No code from the module under test.
package refframe

import "fmt"

// Sum16 is the one's-complement sum of 16-bit big-endian words (odd tail padded with zero).
func Sum16(parts ...[]byte) uint16 {
	var s uint32
	for _, b := range parts {
		for i := 0; i+1 < len(b); i += 2 {
			s += uint32(b[i])<<8 | uint32(b[i+1])
		}
		if len(b)%2 == 1 {
			s += uint32(b[len(b)-1]) << 8
		}
	}
	for s>>16 != 0 {
		s = s&0xffff + s>>16
	}
	return uint16(s)
}

type Fields struct {
	Src, Dst         [4]byte
	SrcPort, DstPort int
	Payload          []byte
	IHL              int // 5..15
	TTL              byte
	Proto            byte
	TotalLen         int // -1: computed
	UDPLen           int // -1: computed
	Version          int
	FlagsFrag        uint16
	BadIPSum         bool
	BadUDPSum        bool
	Pad              int // link-layer padding after the IP packet
	TOS              byte
	ID               uint16
	Options          []byte // the IP options area (IHL > 5); nil: NOPs; shorter than the area: End-of-list octets follow
}

// IPOptions: an options area of n octets made of the option types that exist (record route, loose/strict source route,
// timestamp, router alert, NOP, security) with length octets that fit, that do not fit, and wild ones.
func IPOptions(rnd func(int) int, n int) []byte {
	b := make([]byte, 0, n)
	for len(b) < n {
		switch rnd(6) {
		case 0:
			b = append(b, 1)
		case 1:
			b = append(b, 0)
		default:
			t := []byte{7, 131, 137, 68, 148, 130, 7, byte(rnd(256))}[rnd(8)]
			l := []int{3, 4, 7, 11, n - len(b), 236, 255, 0, 1, 2, rnd(256)}[rnd(11)]
			b = append(b, t, byte(l))
			for k := 2; k < l && len(b) < n; k++ {
				b = append(b, byte(rnd(256)))
			}
		}
	}
	return b[:n]
}

func Default(src, dst [4]byte, sp, dp int, payload []byte) Fields {
	return Fields{Src: src, Dst: dst, SrcPort: sp, DstPort: dp, Payload: payload, IHL: 5, TTL: 64, Proto: 17, TotalLen: -1, UDPLen: -1, Version: 4}
}

// Build makes the frame bytes (IP options are NOPs).
func Build(f Fields) []byte {
	hl := f.IHL * 4
	tl := f.TotalLen
	if tl < 0 {
		tl = hl + 8 + len(f.Payload)
	}
	ul := f.UDPLen
	if ul < 0 {
		ul = 8 + len(f.Payload)
	}
	b := make([]byte, hl+8+len(f.Payload)+f.Pad)
	b[0] = byte(f.Version<<4 | f.IHL&0xf)
	b[1] = f.TOS
	b[4], b[5] = byte(f.ID>>8), byte(f.ID)
	b[2], b[3] = byte(tl>>8), byte(tl)
	b[6], b[7] = byte(f.FlagsFrag>>8), byte(f.FlagsFrag)
	b[8] = f.TTL
	b[9] = f.Proto
	copy(b[12:16], f.Src[:])
	copy(b[16:20], f.Dst[:])
	for i := 20; i < hl; i++ {
		b[i] = 1 // NOP
		if f.Options != nil {
			b[i] = 0
			if i-20 < len(f.Options) {
				b[i] = f.Options[i-20]
			}
		}
	}
	cs := ^Sum16(b[:hl])
	if f.BadIPSum {
		cs ^= 0x5555
	}
	b[10], b[11] = byte(cs>>8), byte(cs)
	u := b[hl:]
	u[0], u[1] = byte(f.SrcPort>>8), byte(f.SrcPort)
	u[2], u[3] = byte(f.DstPort>>8), byte(f.DstPort)
	u[4], u[5] = byte(ul>>8), byte(ul)
	copy(u[8:], f.Payload)
	ph := []byte{f.Src[0], f.Src[1], f.Src[2], f.Src[3], f.Dst[0], f.Dst[1], f.Dst[2], f.Dst[3], 0, 17, byte(ul >> 8), byte(ul)}
	cov := 8 + len(f.Payload)
	if ul >= 8 && ul < cov {
		cov = ul // a UDP length shorter than the bytes present covers only that many bytes
	}
	us := ^Sum16(ph, u[:cov])
	if us == 0 {
		us = 0xffff
	}
	if f.BadUDPSum {
		us ^= 0x1234
	}
	u[6], u[7] = byte(us>>8), byte(us)
	return b
}

// ValidateWritten checks a frame emitted for (src,dst,ports,payload) against the C18 write-side statement.
// zeroSumEdge reports the RFC 768 corner where the transmitted checksum is 0 although the computed one is 0 too.
func ValidateWritten(b []byte, src, dst [4]byte, sp, dp int, payload []byte) (zeroSumEdge bool, err error) {
	if len(b) != 28+len(payload) {
		return false, fmt.Errorf("frame length %d, want %d (one 20-byte IP header + 8-byte UDP header + payload)", len(b), 28+len(payload))
	}
	if b[0]>>4 != 4 {
		return false, fmt.Errorf("version %d", b[0]>>4)
	}
	if b[0]&0xf != 5 {
		return false, fmt.Errorf("IHL %d, want 5", b[0]&0xf)
	}
	if tl := int(b[2])<<8 | int(b[3]); tl != 28+len(payload) {
		return false, fmt.Errorf("total length %d, want %d", tl, 28+len(payload))
	}
	if b[9] != 17 {
		return false, fmt.Errorf("protocol %d, want 17", b[9])
	}
	if b[8] == 0 {
		return false, fmt.Errorf("TTL 0")
	}
	if ff := uint16(b[6])<<8 | uint16(b[7]); ff&0x3fff != 0 {
		return false, fmt.Errorf("fragment fields %#x: not one whole frame", ff)
	}
	if string(b[12:16]) != string(src[:]) {
		return false, fmt.Errorf("source address %v, want %v", b[12:16], src)
	}
	if string(b[16:20]) != string(dst[:]) {
		return false, fmt.Errorf("destination address %v, want %v", b[16:20], dst)
	}
	if s := Sum16(b[:20]); s != 0xffff {
		return false, fmt.Errorf("IP header checksum does not verify (sum %#04x)", s)
	}
	u := b[20:]
	if p := int(u[0])<<8 | int(u[1]); p != sp {
		return false, fmt.Errorf("source port %d, want %d", p, sp)
	}
	if p := int(u[2])<<8 | int(u[3]); p != dp {
		return false, fmt.Errorf("destination port %d, want %d", p, dp)
	}
	if l := int(u[4])<<8 | int(u[5]); l != 8+len(payload) {
		return false, fmt.Errorf("UDP length %d, want %d", l, 8+len(payload))
	}
	if string(u[8:]) != string(payload) {
		return false, fmt.Errorf("payload changed")
	}
	ph := []byte{b[12], b[13], b[14], b[15], b[16], b[17], b[18], b[19], 0, 17, u[4], u[5]}
	if u[6] == 0 && u[7] == 0 {
		// "no checksum": acceptable only in the corner where the computed checksum is itself zero
		if Sum16(ph, u) == 0xffff {
			return true, nil
		}
		return false, fmt.Errorf("UDP checksum field is zero (not computed)")
	}
	if s := Sum16(ph, u); s != 0xffff {
		return false, fmt.Errorf("UDP checksum does not verify (sum %#04x)", s)
	}
	return false, nil
}

type Datagram struct {
	Payload []byte
	Src     [4]byte
	SrcPort int
}

type Class int

const (
	Deliver Class = iota // well-formed and addressed to the bound port/address
	Skip                 // must be silently skipped
	Gray                 // the statement does not decide
)

// Read classifies one received frame for a reader bound to (boundIP optional, boundPort).
func Read(f []byte, boundIP *[4]byte, boundPort int) (Class, Datagram, string) {
	if len(f) < 20 {
		return Skip, Datagram{}, "short"
	}
	if f[0]>>4 != 4 {
		return Skip, Datagram{}, "not-ipv4"
	}
	hl := int(f[0]&0xf) * 4
	tl := int(f[2])<<8 | int(f[3])
	if hl < 20 || hl > tl || tl > len(f) || hl > len(f) {
		return Skip, Datagram{}, "bad-lengths"
	}
	if f[9] != 17 {
		return Skip, Datagram{}, "not-udp"
	}
	if tl-hl < 8 {
		return Skip, Datagram{}, "no-room-for-udp-header"
	}
	if Sum16(f[:hl]) != 0xffff {
		return Gray, Datagram{}, "bad-ip-checksum"
	}
	if ff := uint16(f[6])<<8 | uint16(f[7]); ff&0x3fff != 0 {
		return Gray, Datagram{}, "fragment"
	}
	u := f[hl:tl]
	if ul := int(u[4])<<8 | int(u[5]); ul != tl-hl {
		return Gray, Datagram{}, "udp-length-disagrees"
	}
	if dp := int(u[2])<<8 | int(u[3]); dp != boundPort {
		return Skip, Datagram{}, "other-port"
	}
	if boundIP != nil && string(f[16:20]) != string(boundIP[:]) {
		return Skip, Datagram{}, "other-address"
	}
	if u[6] != 0 || u[7] != 0 {
		ph := []byte{f[12], f[13], f[14], f[15], f[16], f[17], f[18], f[19], 0, 17, u[4], u[5]}
		if Sum16(ph, u) != 0xffff {
			return Gray, Datagram{}, "bad-udp-checksum"
		}
	}
	var d Datagram
	d.Payload = append([]byte{}, u[8:]...)
	copy(d.Src[:], f[12:16])
	d.SrcPort = int(u[0])<<8 | int(u[1])
	return Deliver, d, "deliver"
}
