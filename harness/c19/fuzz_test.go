package c19

import (
	"testing"

	"verif/harness/mon"
)

func FuzzC19(f *testing.F) {
	f.Add([]byte{3, 'f', 'o', 'o', 0, 1, 'x', 0xC0, 0})
	f.Fuzz(func(t *testing.T, b []byte) {
		if len(b) > 512 {
			return
		}
		r := mon.New("C19")
		judgeBytes(r, "fuzz", b)
		if r.NViolations() > 0 {
			t.Fatalf("violation on %x", b)
		}
	})
}
