package c19

import (
	"bytes"
	"fmt"
	"math/rand/v2"
	"os"
	"strings"
	"testing"
	"time"

	"github.com/insomniacslk/dhcp/rfc1035label"
	"verif/harness/mon"
	"verif/harness/reflabel"
)

type replay struct {
	Kind  string   `json:"kind"` // "bytes" | "names" | "edit"
	Wire  string   `json:"wire,omitempty"`
	Names []string `json:"names,omitempty"`
	Idx   int      `json:"idx,omitempty"`
}

func eqNames(a, b []string) bool {
	if len(a) != len(b) {
		return false
	}
	for i := range a {
		if a[i] != b[i] {
			return false
		}
	}
	return true
}

// judgeBytes: decoding any byte string either fails or yields the names the RFC assigns.
func judgeBytes(r *mon.Rec, src string, b []byte) {
	r.Current(map[string]any{"kind": "bytes", "wire": mon.HexBytes(b)})
	r.Eval(1)
	res := reflabel.Decode(b)
	var l *rfc1035label.Labels
	var err error
	var again []byte
	pan, val, st := mon.Guard(func() {
		l, err = rfc1035label.FromBytes(append([]byte{}, b...))
		if err == nil {
			again = l.ToBytes()
		}
	})
	rp := replay{Kind: "bytes", Wire: mon.Hex(b)}
	if pan {
		r.Violate("C19:panic:"+mon.LibFrame(st), fmt.Sprint(val), rp)
		return
	}
	r.Count("ref."+res.V.String(), 1)
	switch res.V {
	case reflabel.Unspecified:
		r.Count("unspecified."+res.Why, 1)
		return
	case reflabel.Malformed:
		if err == nil {
			r.Violate("C19:accepts-malformed:"+res.Why, fmt.Sprintf("library decodes a malformed name list (%s) as %d names (first: %.60q)", res.Why, len(l.Labels), first(l.Labels)), rp)
			return
		}
		r.Shape("malformed:"+res.Why+lenClass(b)+fmt.Sprint(" firstbyte=", len(b) > 0 && b[0] < 64), true)
		return
	}
	if err != nil {
		r.Violate("C19:rejects-wellformed", fmt.Sprintf("library rejects a well-formed name list: %v (reference: %.80q)", err, res.Names), rp)
		return
	}
	if !eqNames(l.Labels, res.Names) {
		r.Violate("C19:wrong-names", fmt.Sprintf("library reads %.120q, RFC 1035 assigns %.120q", l.Labels, res.Names), rp)
		return
	}
	if !bytes.Equal(again, b) {
		r.Violate("C19:unmodified-reencoding-differs", "a parsed, unmodified label set does not re-encode to exactly the parsed bytes", rp)
		return
	}
	maxl, nl := 0, 0
	for _, n := range res.Names {
		for _, l := range strings.Split(n, ".") {
			maxl = max(maxl, len(l))
			nl++
		}
	}
	mlc := 0
	switch {
	case maxl >= 63:
		mlc = 3
	case maxl >= 8:
		mlc = 2
	case maxl >= 2:
		mlc = 1
	}
	shape := fmt.Sprintf("names n=%d labels=%d ptr=%d partial=%v root=%v maxlabel=%d", min(len(res.Names), 8), min(nl, 12), min(res.Pointers, 3), res.Partial, hasRoot(res.Names), mlc)
	r.Shape(shape+lenClass(b), len(res.Names) >= 2 || res.Pointers > 0 || res.Partial)
	if res.Pointers > 0 && r.NSamples() < 3 && len(b) < 40 {
		r.Sample(map[string]any{"src": src, "bytes": mon.Hex(b), "names": res.Names, "pointers": res.Pointers})
	}
}

func lenClass(b []byte) string {
	switch {
	case len(b) < 8:
		return " tiny"
	case len(b) < 64:
		return " small"
	case len(b) < 256:
		return " mid"
	}
	return " big"
}

func hasRoot(n []string) bool {
	for _, s := range n {
		if s == "" {
			return true
		}
	}
	return false
}

func first(l []string) string {
	if len(l) == 0 {
		return ""
	}
	return l[0]
}

func genName(r *rand.Rand) string {
	nl := 1 + r.IntN(8)
	var ls []string
	wire := 1
	for i := 0; i < nl; i++ {
		l := 1 + r.IntN(10)
		switch r.IntN(8) {
		case 0:
			l = 63
		case 1:
			l = 1 + r.IntN(63)
		}
		if wire+1+l > 255 {
			break
		}
		b := make([]byte, l)
		esc := r.IntN(12) == 0 // labels made of backslashes and digits: octets like any other (no escape syntax on this API)
		for k := range b {
			c := byte(r.UintN(256))
			if r.IntN(3) != 0 {
				c = byte('a' + r.UintN(26))
			}
			if esc {
				c = []byte{'\\', '\\', '0', '1', '2', '5', '6', '9', 'a', '"', '(', ';', '@', '$'}[r.IntN(14)]
			}
			if c == '.' {
				c = '_'
			}
			b[k] = c
		}
		ls = append(ls, string(b))
		wire += 1 + l
	}
	return strings.Join(ls, ".")
}

func genNames(r *rand.Rand) []string {
	if r.IntN(8) == 0 {
		// the search lists sites really have: a few parents and chains of sub-domains under them, several levels deep,
		// names repeated; now and then long enough for more than 255 octets in all
		base := []string{"example", "corp.example", "example.org", "a.b.c.d.e"}[r.IntN(4)]
		subs := []string{"eu", "lab", "eng", "x", "very-long-label-that-takes-room-in-the-list", "www"}
		var out []string
		cur := base
		for k := 2 + r.IntN(12); k > 0; k-- {
			switch r.IntN(4) {
			case 0:
				cur = base
			case 1:
				out = append(out, cur) // repeated
			default:
				if len(cur) < 180 {
					cur = subs[r.IntN(len(subs))] + "." + cur
				}
			}
			out = append(out, cur)
		}
		return out
	}
	n := r.IntN(9)
	out := make([]string, 0, n)
	for i := 0; i < n; i++ {
		out = append(out, genName(r))
	}
	return out
}

type heldE struct {
	b, c  []byte
	names []string
}

var heldEnc []heldE

// judgeNames: encoding any list of valid names and decoding it returns the same list; the bytes are the RFC encoding.
func judgeNames(r *mon.Rec, idx int) {
	rng := r.Rand("names", idx)
	names := genNames(rng)
	r.Eval(1)
	rp := replay{Kind: "names", Names: names, Idx: idx}
	var enc []byte
	var back *rfc1035label.Labels
	var err error
	var enc2 []byte
	var names2 []string
	pan, val, st := mon.Guard(func() {
		l := &rfc1035label.Labels{Labels: append([]string{}, names...)}
		if idx%2 == 0 { // the exported constructor gives an empty set to append to
			l = rfc1035label.NewLabels()
			l.Labels = append(l.Labels, names...)
		}
		enc = l.ToBytes()
		back, err = rfc1035label.FromBytes(enc)
		// the same hand-built set, read (Length, ToBytes, String) and then changed in place: it is a list of names like
		// any other and encodes what it holds now
		if len(l.Labels) > 0 {
			_ = l.Length()
			_ = l.String()
			i := rng.IntN(len(l.Labels))
			switch rng.IntN(3) {
			case 0:
				l.Labels[i] = genName(rng)
			case 1:
				l.Labels[i], l.Labels[0] = l.Labels[0], l.Labels[i]
			default:
				if b := []byte(l.Labels[i]); len(b) > 0 && b[0] != '.' {
					b[0] ^= 0x01
					if b[0] == '.' {
						b[0] = 'q'
					}
					l.Labels[i] = string(b)
				}
			}
			names2 = append([]string{}, l.Labels...)
			enc2 = append([]byte{}, l.ToBytes()...)
		}
	})
	if pan {
		r.Violate("C19:panic:"+mon.LibFrame(st), fmt.Sprint(val), rp)
		return
	}
	if err != nil {
		r.Violate("C19:roundtrip-error", fmt.Sprintf("decoding the encoding of %d valid names failed: %v", len(names), err), rp)
		return
	}
	if !eqNames(back.Labels, names) {
		r.Violate("C19:roundtrip-mismatch", fmt.Sprintf("encode/decode of %.100q returns %.100q", names, back.Labels), rp)
		return
	}
	if want := reflabel.Encode(names); !bytes.Equal(enc, want) {
		r.Violate("C19:encoding-not-rfc", fmt.Sprintf("encoding of %.100q is %x, RFC 1035 encoding is %x", names, trunc(enc), trunc(want)), rp)
		return
	}
	if names2 != nil {
		if res := reflabel.Decode(enc2); res.V != reflabel.Names || !eqNames(res.Names, names2) {
			r.Violate("C19:built-set-edit-not-encoded", fmt.Sprintf("a hand-built set was encoded, then changed in place to %.100q; its encoding decodes (by the reference) to %v %.100q", names2, res.V, res.Names), rp)
			return
		}
	}
	// encodings the caller still holds (to decode them later, to put them into a packet) are not touched by later encodes
	for _, h := range heldEnc {
		if !bytes.Equal(h.b, h.c) {
			r.Violate("C19:earlier-encoding-changed", fmt.Sprintf("the bytes returned by an earlier ToBytes (of %.80q) changed while %.80q was encoded: decoding them no longer returns the names that were encoded", h.names, names), rp)
			heldEnc = nil
			return
		}
	}
	heldEnc = append(heldEnc, heldE{enc, append([]byte{}, enc...), names})
	if len(heldEnc) > 6 {
		heldEnc = heldEnc[len(heldEnc)-6:]
	}
	maxl := 0
	for _, n := range names {
		for _, l := range strings.Split(n, ".") {
			maxl = max(maxl, len(l))
		}
	}
	r.Shape(fmt.Sprintf("rt n=%d max=%d", len(names), maxl/8), len(names) >= 2)
	if r.NSamples() < 5 && len(enc) < 50 && len(names) >= 2 {
		r.Sample(map[string]any{"kind": "names", "names": names, "encoding": mon.Hex(enc)})
	}
}

// judgeReparse: ONE Labels value is decoded into several times with the method form (a long-lived option object that is
// refilled from every received packet): bytes X, an edit by the caller, the same bytes X again, other bytes Y.  After
// each successful decode the value holds the names of the bytes just decoded and re-encodes to them.
func judgeReparse(r *mon.Rec, idx int) {
	rng := r.Rand("reparse", idx)
	x := reflabel.Encode(genNames(rng))
	y := reflabel.Encode(genNames(rng))
	if rng.IntN(3) == 0 {
		x = reflabel.ManyPointers(rng)
	}
	rx, ry := reflabel.Decode(x), reflabel.Decode(y)
	if rx.V != reflabel.Names || ry.V != reflabel.Names {
		return
	}
	r.Eval(1)
	rp := replay{Kind: "reparse", Idx: idx}
	pan, val, st := mon.Guard(func() {
		l := &rfc1035label.Labels{}
		step := func(tag string, b []byte, want []string) bool {
			if err := l.FromBytes(append([]byte{}, b...)); err != nil {
				r.Violate("C19:reparse-error", fmt.Sprintf("%s: (*Labels).FromBytes failed on bytes the reference reads as %d names: %v", tag, len(want), err), rp)
				return false
			}
			if !eqNames(l.Labels, want) {
				r.Violate("C19:reparse-stale", fmt.Sprintf("%s: after decoding into an existing value it holds %.100q, the bytes say %.100q", tag, l.Labels, want), rp)
				return false
			}
			if !bytes.Equal(l.ToBytes(), b) {
				r.Violate("C19:reparse-stale", fmt.Sprintf("%s: the value does not re-encode to the bytes just decoded", tag), rp)
				return false
			}
			return true
		}
		if !step("first decode of X", x, rx.Names) {
			return
		}
		// the caller edits / clears the names, then the same bytes arrive again
		switch rng.IntN(3) {
		case 0:
			l.Labels = nil
		case 1:
			if len(l.Labels) > 0 {
				l.Labels[rng.IntN(len(l.Labels))] = "edited.example"
			}
		default:
			l.Labels = append(l.Labels, "appended.example")
		}
		if !step("X again after the caller changed the names", x, rx.Names) {
			return
		}
		// a copy of the value, as a caller keeps it (NTPSuboptionSrvFQDN{*fqdn}); later decodes into l leave it alone
		kept := *l
		keptNames := append([]string{}, kept.Labels...)
		// bytes that are rejected half way (complete names first, then a pointer cut in two, a label that overruns the
		// buffer, a name longer than 255 octets): the set is what it was
		long := bytes.Repeat(append([]byte{63}, bytes.Repeat([]byte{'x'}, 63)...), 4)
		for _, tail := range [][]byte{{0xC0}, {5, 'a'}, append(long, 0), {1, 'a', 0, 3, 'b'}} {
			z := append(append([]byte{}, y...), tail...)
			if reflabel.Decode(z).V != reflabel.Malformed {
				continue
			}
			if err := l.FromBytes(z); err == nil {
				break // what the library accepts beyond the reference is judged elsewhere
			}
			if !eqNames(l.Labels, rx.Names) || !bytes.Equal(l.ToBytes(), x) {
				r.Violate("C19:failed-decode-changes-set", fmt.Sprintf("a decode that failed left the set holding %.100q (encoding %x); before it held %.100q", l.Labels, trunc(l.ToBytes()), rx.Names), rp)
				return
			}
			r.Count("failed_decodes_into_a_parsed_set", 1)
		}
		if !step("then Y", y, ry.Names) {
			return
		}
		if !eqNames(kept.Labels, keptNames) || !bytes.Equal(kept.ToBytes(), x) {
			r.Violate("C19:copy-changed-by-later-decode", fmt.Sprintf("a copy of the parsed set reads %.100q / encodes to %x after another input was decoded into the original; it was %.100q / %x", kept.Labels, trunc(kept.ToBytes()), keptNames, trunc(x)), rp)
			return
		}
		if !step("then X once more", x, rx.Names) {
			return
		}
		if !eqNames(kept.Labels, keptNames) || !bytes.Equal(kept.ToBytes(), x) {
			r.Violate("C19:copy-changed-by-later-decode", fmt.Sprintf("a copy of the parsed set reads %.100q after later decodes into the original; it was %.100q", kept.Labels, keptNames), rp)
		}
	})
	if pan {
		r.Violate("C19:panic:"+mon.LibFrame(st), fmt.Sprint(val), rp)
	}
	r.Count("reparse_sequences", 1)
}

func trunc(b []byte) []byte {
	if len(b) > 48 {
		return b[:48]
	}
	return b
}

// judgeEdit: a parsed set re-encodes to the parsed bytes until edited; after an edit it encodes the edited names.
func judgeEdit(r *mon.Rec, idx int) {
	rng := r.Rand("edit", idx)
	names := genNames(rng)
	if len(names) == 0 {
		names = []string{genName(rng)}
	}
	wire := reflabel.Encode(names)
	if rng.IntN(2) == 0 && len(wire) < 0x3f00 { // compressed form: add a name pointing into the first name
		off := 0
		wire = append(wire, 1, 'x', 0xC0|byte(off>>8), byte(off))
		names = append(names, "x."+names[0])
		if names[0] == "" {
			names[len(names)-1] = "x"
		}
		if len(names[len(names)-1]) > 253 {
			return
		}
	} else if last := names[len(names)-1]; last != "" && rng.IntN(3) == 0 {
		// the parsed bytes end in a partial name (RFC 4704: no root octet behind the last label); now and then its last
		// content octet is a NUL, which looks like a root octet to anybody who only looks at the end of the buffer
		if rng.IntN(3) == 0 {
			names[len(names)-1] = last[:len(last)-1] + "\x00"
		}
		wire = reflabel.Encode(names)
		wire = wire[:len(wire)-1]
		if reflabel.Decode(wire).V != reflabel.Names || !reflabel.Decode(wire).Partial {
			return
		}
	}
	r.Eval(1)
	rp := replay{Kind: "edit", Idx: idx}
	pan, val, st := mon.Guard(func() {
		l, err := rfc1035label.FromBytes(append([]byte{}, wire...))
		if err != nil {
			r.Violate("C19:edit-parse-error", err.Error(), rp)
			return
		}
		if !eqNames(l.Labels, names) {
			r.Violate("C19:edit-parse-mismatch", fmt.Sprintf("parsed %.100q want %.100q", l.Labels, names), rp)
			return
		}
		if !bytes.Equal(l.ToBytes(), wire) || l.Length() != len(wire) {
			r.Violate("C19:unmodified-reencoding-differs", "unmodified parsed set does not re-encode to the parsed bytes", rp)
			return
		}
		want := append([]string{}, names...)
		kind := rng.IntN(11)
		switch kind {
		case 9: // the last name grows by labels (host -> host.example.org): the old name is a prefix of the new one
			i := len(want) - 1
			if rng.IntN(3) == 0 {
				i = rng.IntN(len(want))
			}
			if want[i] == "" || len(want[i]) > 180 {
				return
			}
			want[i] += []string{".example.org", ".x", ".lan.", ".\x00.y"}[rng.IntN(4)]
			want[i] = strings.TrimSuffix(want[i], ".")
			l.Labels[i] = want[i]
		case 10: // ... or is cut back to its first label(s): the new name is a prefix of the old one
			i := len(want) - 1
			if rng.IntN(3) == 0 {
				i = rng.IntN(len(want))
			}
			k := strings.Index(want[i], ".")
			if k <= 0 {
				return
			}
			want[i] = want[i][:k]
			l.Labels[i] = want[i]
		case 7, 8: // a label moves across the boundary between two adjacent names ("a.b","c" <-> "a","b.c"), or one name is
			// cut in two at a dot / two names are joined by a dot: the dotted concatenation of the list stays what it was
			if len(want) == 0 {
				return
			}
			i := rng.IntN(len(want))
			switch {
			case kind == 7 && i+1 < len(want) && strings.Contains(want[i], ".") && want[i+1] != "" && len(want[i+1])+len(want[i]) < 240:
				k := strings.LastIndex(want[i], ".")
				a, bb := want[i][:k], want[i][k+1:]
				want[i], want[i+1] = a, bb+"."+want[i+1]
				l.Labels[i], l.Labels[i+1] = want[i], want[i+1]
			case strings.Contains(want[i], "."):
				k := strings.Index(want[i], ".")
				a, bb := want[i][:k], want[i][k+1:]
				want = append(want[:i:i], append([]string{a, bb}, want[i+1:]...)...)
				l.Labels = append([]string{}, want...)
			case i+1 < len(want) && want[i] != "" && want[i+1] != "" && len(want[i])+len(want[i+1]) < 250:
				j := want[i] + "." + want[i+1]
				want = append(want[:i:i], append([]string{j}, want[i+2:]...)...)
				l.Labels = append([]string{}, want...)
			default:
				return
			}
		case 6: // the smallest edit: one octet of one name becomes a near neighbour (other letter case, another high
			// octet, the next code point); names are octet strings, any difference is a change
			i := rng.IntN(len(want))
			if want[i] == "" {
				return
			}
			b := []byte(want[i])
			k := rng.IntN(len(b))
			if b[k] == '.' {
				return
			}
			switch c := b[k]; {
			case c >= 'a' && c <= 'z' || c >= 'A' && c <= 'Z':
				b[k] = c ^ 0x20
			case c >= 0x80:
				b[k] = c ^ 0x01
			case c+1 == '.':
				b[k] = c + 2
			default:
				b[k] = c + 1
			}
			want[i] = string(b)
			l.Labels[i] = want[i]
		case 0: // replace one element in place
			i := rng.IntN(len(want))
			want[i] = genName(rng)
			l.Labels[i] = want[i]
		case 1: // append
			n := genName(rng)
			want = append(want, n)
			l.Labels = append(l.Labels, n)
		case 2: // delete one
			i := rng.IntN(len(want))
			want = append(want[:i:i], want[i+1:]...)
			l.Labels = append(l.Labels[:i:i], l.Labels[i+1:]...)
		case 3: // reorder (swap two different names)
			if len(want) < 2 {
				return
			}
			i, j := 0, len(want)-1
			if want[i] == want[j] {
				return
			}
			want[i], want[j] = want[j], want[i]
			l.Labels[i], l.Labels[j] = l.Labels[j], l.Labels[i]
		case 4: // edit one name: extend its last label by one byte, in place
			i := rng.IntN(len(want))
			if want[i] == "" || len(want[i]) > 200 || len(want[i])-strings.LastIndex(want[i], ".") > 60 {
				return
			}
			want[i] += "z"
			l.Labels[i] = want[i]
		case 5: // replace the whole slice by new names
			want = genNames(rng)
			l.Labels = append([]string{}, want...)
		}
		got := l.ToBytes()
		res := reflabel.Decode(got)
		if res.V != reflabel.Names || !eqNames(res.Names, want) {
			r.Violate(fmt.Sprintf("C19:edit-not-encoded:kind%d", kind), fmt.Sprintf("after edit kind %d the set holds %.100q but its encoding decodes (by the reference) to %v %.100q", kind, want, res.V, res.Names), rp)
			return
		}
		if l.Length() != len(got) {
			r.Violate("C19:length-mismatch", "Length() differs from len(ToBytes())", rp)
			return
		}
		r.Shape(fmt.Sprintf("edit kind=%d n=%d compressed=%v", kind, min(len(names), 5), len(wire) != len(reflabel.Encode(names))), true)
		r.Count(fmt.Sprintf("edit.kind%d", kind), 1)
	})
	if pan {
		r.Violate("C19:panic:"+mon.LibFrame(st), fmt.Sprint(val), rp)
	}
}

var alphabet = reflabel.Alphabet

func mutate(r *rand.Rand, b []byte) []byte {
	out := append([]byte{}, b...)
	for k := 0; k < 1+r.IntN(3); k++ {
		switch r.IntN(8) {
		case 0: // pointer to a previous offset appended as a new name
			if len(out) > 0 && len(out) < 0x3f00 {
				off := r.IntN(len(out))
				out = append(out, byte(1+r.IntN(3)))
				for i := 0; i < int(out[len(out)-1]); i++ {
					out = append(out, 'p')
				}
				out = append(out, 0xC0|byte(off>>8), byte(off))
			}
		case 1: // pointer inserted at a random place
			if len(out) > 1 {
				i := r.IntN(len(out) - 1)
				off := r.IntN(len(out) + 4)
				out[i], out[i+1] = 0xC0|byte(off>>8), byte(off)
			}
		case 2:
			if len(out) > 0 {
				out = out[:r.IntN(len(out))]
			}
		case 3:
			if len(out) > 0 {
				out[r.IntN(len(out))] = []byte{0, 1, 63, 64, 0x80, 0xC0, 0xFF, 5}[r.IntN(8)]
			}
		case 4: // chained pointers
			if len(out) < 0x3f00 {
				p := len(out)
				out = append(out, 0xC0|byte(p>>8), byte(p)) // self pointer
			}
		case 5: // long name: many labels (exceeds 255 octets)
			for i := 0; i < 20+r.IntN(40); i++ {
				out = append(out, 7, 'l', 'o', 'n', 'g', 'l', 'b', 'l')
			}
			if r.IntN(2) == 0 {
				out = append(out, 0)
			}
		case 6: // pointer fan: many pointers to offset 0
			for i := 0; i < 2+r.IntN(6); i++ {
				out = append(out, 0xC0, 0)
			}
		case 7: // trailing partial name
			out = append(out, 3, 'e', 'n', 'd')
		}
	}
	if len(out) > 512 {
		out = out[:512]
	}
	return out
}

func TestCheck(t *testing.T) {
	r := mon.New("C19")
	defer r.Flush()
	if os.Getenv("VERIF_REPLAY") == "" {
		r.Watchdog(20 * time.Second)
	}
	var rp replay
	if mon.ReplayCase(&rp) {
		switch rp.Kind {
		case "bytes":
			judgeBytes(r, "replay", mon.UnHex(rp.Wire))
		case "names":
			judgeNames(r, rp.Idx)
		case "reparse":
			judgeReparse(r, rp.Idx)
		default:
			judgeEdit(r, rp.Idx)
		}
		return
	}
	// (1) exhaustive small scope
	L := r.Pick(6, 8)
	buf := make([]byte, 0, L)
	total := 0
	var rec func(d int)
	rec = func(d int) {
		judgeBytes(r, "enum", buf)
		total++
		if d == L {
			return
		}
		for _, s := range alphabet {
			buf = append(buf, s)
			rec(d + 1)
			buf = buf[:len(buf)-1]
		}
	}
	if r.Shard == 0 {
		judgeBytes(r, "enum", nil)
		for _, s := range alphabet {
			judgeBytes(r, "enum", []byte{s})
		}
	}
	k := 0
	for _, s1 := range alphabet {
		for _, s2 := range alphabet {
			if r.Mine(k) {
				buf = append(buf[:0], s1, s2)
				rec(2)
			}
			k++
		}
	}
	r.Set("enum_alphabet", alphabet)
	r.Set("enum_max_len", L)
	r.Set("exhaustive", true)
	r.Count("enum_strings_this_shard", total)
	// (2) generated name lists: round trip
	n := r.Pick(60000, 6000000)
	for i := 0; i < n; i++ {
		if r.Mine(i) {
			judgeNames(r, i)
		}
	}
	// (3) mutated encodings <= 512 bytes
	if r.Shard == 0 { // lists of equal length and equal checksum, one after the other
		for _, pr := range reflabel.Colliding() {
			judgeBytes(r, "name-collision", pr.A)
			judgeBytes(r, "name-collision", pr.B)
			judgeBytes(r, "name-collision", pr.A)
		}
	}
	m := r.Pick(80000, 10000000)
	for i := 0; i < m; i++ {
		if !r.Mine(i) {
			continue
		}
		rng := r.Rand("mut", i)
		judgeBytes(r, "mut", mutate(rng, reflabel.Encode(genNames(rng))))
		judgeBytes(r, "web", reflabel.Web(rng))
		judgeBytes(r, "boundary", reflabel.Boundary(rng))
		judgeBytes(r, "far-pointer", reflabel.FarPointer(rng))
		judgeBytes(r, "many-pointers", reflabel.ManyPointers(rng))
		judgeReparse(r, i)
	}
	// (3b) committed corpus: replay + mutants
	corp := mon.Corpus("label")
	for i, b := range corp {
		if r.Mine(i) {
			judgeBytes(r, "corpus", b)
			rng := r.Rand("corpus", i)
			for k := 0; k < r.Pick(3, 40); k++ {
				judgeBytes(r, "corpus-mut", mutate(rng, b))
			}
		}
	}
	r.Set("corpus_entries", len(corp))
	// (4) single edits of parsed sets
	e := r.Pick(40000, 5000000)
	for i := 0; i < e; i++ {
		if r.Mine(i) {
			judgeEdit(r, i)
		}
	}
}
