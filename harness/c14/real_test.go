package c14

import (
	"encoding/binary"
	"fmt"
	"net"
	"sync"
	"time"

	"github.com/insomniacslk/dhcp/dhcpv4"
	"github.com/insomniacslk/dhcp/dhcpv4/server4"
	"github.com/insomniacslk/dhcp/dhcpv6"
	"github.com/insomniacslk/dhcp/dhcpv6/server6"
	"verif/harness/gen4"
	"verif/harness/mon"
	"verif/harness/ref4"
	"verif/harness/ref6"
)

type realReplay struct {
	Real bool   `json:"real"`
	Fam  string `json:"fam"`
	Idx  int    `json:"idx"`
}

// caseReal: the servers behind a real UDP socket on the loopback interface (what they use in production; some code
// paths exist only for *net.UDPConn).  A short sequence of datagrams -- valid ones, an empty one, garbage, and one
// larger than the servers' 4096-octet read (the kernel cuts it: what is read is judged like any datagram) -- always
// ending in a valid one.  Every decodable datagram read is dispatched; Serve does not return before Close.
func caseReal(r *mon.Rec, famName string, idx int) {
	rng := r.Rand("c14.real."+famName, idx)
	v6 := famName == "server6"
	rp := realReplay{true, famName, idx}
	r.Current(rp)
	r.Eval(1)
	bad := func(key, msg string, a ...any) {
		r.Violate("C14:real:"+key, famName+" on a loopback UDP socket: "+fmt.Sprintf(msg, a...), rp)
	}
	network, laddr := "udp4", &net.UDPAddr{IP: net.IPv4(127, 0, 0, 1)}
	if v6 {
		network, laddr = "udp6", &net.UDPAddr{IP: net.IPv6loopback}
	}
	sconn, err := net.ListenUDP(network, laddr)
	if err != nil {
		r.Inconclusive("no loopback UDP socket available: " + err.Error())
		return
	}
	cconn, err := net.DialUDP(network, nil, sconn.LocalAddr().(*net.UDPAddr))
	if err != nil {
		sconn.Close()
		r.Inconclusive("no loopback UDP socket available: " + err.Error())
		return
	}
	defer cconn.Close()
	var mu sync.Mutex
	got := map[int]int{}
	var peers []string
	count := func(n int, peer net.Addr) {
		mu.Lock()
		got[n]++
		peers = append(peers, peer.String())
		mu.Unlock()
	}
	serveDone := make(chan struct{})
	var closeSrv func() error
	if v6 {
		srv, e := server6.NewServer("", nil, func(c net.PacketConn, peer net.Addr, m dhcpv6.DHCPv6) {
			n := 0
			if im, e := m.GetInnerMessage(); e == nil && im != nil {
				if o := im.GetOneOption(65001); o != nil && len(o.ToBytes()) == 4 {
					n = int(binary.BigEndian.Uint32(o.ToBytes()))
				}
			}
			count(n, peer)
		}, server6.WithConn(sconn))
		if e != nil {
			panic(e)
		}
		closeSrv = srv.Close
		go func() { srv.Serve(); close(serveDone) }()
	} else {
		srv, e := server4.NewServer("", nil, func(c net.PacketConn, peer net.Addr, m *dhcpv4.DHCPv4) {
			n := 0
			if v := m.Options.Get(dhcpv4.GenericOptionCode(224)); len(v) == 4 {
				n = int(binary.BigEndian.Uint32(v))
			}
			count(n, peer)
		}, server4.WithConn(sconn))
		if e != nil {
			panic(e)
		}
		closeSrv = srv.Close
		go func() { srv.Serve(); close(serveDone) }()
	}
	valid := func(nonce int) []byte {
		var nb [4]byte
		binary.BigEndian.PutUint32(nb[:], uint32(nonce))
		if v6 {
			m := &dhcpv6.Message{MessageType: dhcpv6.MessageType(1 + rng.UintN(11))}
			copy(m.TransactionID[:], gen4.Bytes(rng, 3))
			m.AddOption(dhcpv6.OptElapsedTime(0))
			m.AddOption(&dhcpv6.OptionGeneric{OptionCode: 65001, OptionData: nb[:]})
			return m.ToBytes()
		}
		p, _ := gen4.Packet(rng, 3)
		for c, v := range p.Options {
			if len(v) > 200 {
				p.Options[c] = v[:200]
			}
		}
		p.Options[224] = nb[:]
		return p.ToBytes()
	}
	want := map[int]int{}
	kinds := ""
	n := 2 + rng.IntN(5)
	for i := 1; i <= n; i++ {
		k := rng.IntN(5)
		if i == n {
			k = 0
		}
		var b []byte
		switch k {
		case 0, 1:
			b = valid(i)
			want[i]++
			kinds += "v"
		case 2:
			b = []byte{}
			kinds += "e"
		case 3:
			b = []byte{1, 2, 3}
			kinds += "g"
		default: // larger than the servers' read buffer: a valid message followed by one long option, cut by the read
			b = valid(0)
			fill := gen4.Bytes(rng, 4200+rng.IntN(4000))
			if v6 {
				b = append(b, append([]byte{0xfd, 0xe8, byte(len(fill) >> 8), byte(len(fill))}, fill...)...)
			} else {
				b = append(b[:len(b)-1:len(b)-1], 250, 255)
				b = append(b, fill...)
			}
			cut := b[:min(len(b), 4096)]
			okPrefix := false
			if v6 {
				okPrefix = ref6.Decode(cut).V != ref6.Reject
			} else {
				_, okPrefix, _ = ref4.Decode(cut)
			}
			if okPrefix { // what the read leaves is (or may be) decodable: it would be dispatched with nonce 0
				want[0]++
			}
			kinds += "O"
		}
		if _, err := cconn.Write(b); err != nil {
			closeSrv()
			r.Inconclusive("loopback write failed: " + err.Error())
			return
		}
		time.Sleep(200 * time.Microsecond)
	}
	nwant := 0
	for _, c := range want {
		nwant += c
	}
	early := false
	for dl := time.Now().Add(wlimit(10 * time.Second)); ; {
		mu.Lock()
		ng := 0
		for _, c := range got {
			ng += c
		}
		mu.Unlock()
		if ng >= nwant {
			break
		}
		select {
		case <-serveDone:
			early = true
		default:
		}
		if early || !time.Now().Before(dl) {
			break
		}
		time.Sleep(200 * time.Microsecond)
	}
	if early {
		closeSrv()
		bad("serve-returned-early", "Serve returned although no read of the socket had failed and the server had not been closed (datagrams sent: %s, O = larger than the read buffer)", kinds)
		return
	}
	select {
	case <-serveDone:
		closeSrv()
		bad("serve-returned-early", "Serve returned before Close (datagrams sent: %s)", kinds)
		return
	default:
	}
	closeSrv()
	select {
	case <-serveDone:
	case <-time.After(wlimit(10 * time.Second)):
		if suspect(r, rp, "Serve did not return after Close (real socket)") {
			return
		}
		bad("serve-stuck", "Serve did not return after Close")
		return
	}
	mu.Lock()
	defer mu.Unlock()
	for nn, c := range want {
		if nn != 0 && got[nn] != c {
			if !solo && got[nn] < c { // a datagram may have been dropped by the loaded kernel: decided by the solo re-run
				suspects = append(suspects, rp)
				r.Set("suspect_slow", append([]any{}, suspects...))
				r.Inconclusive("a datagram sent over the loopback socket did not reach a handler in time; case re-run alone by the driver")
				return
			}
			bad("dispatch-count", "valid datagram %d was dispatched %d times, want %d (datagrams sent: %s, O = larger than the read buffer)", nn, got[nn], c, kinds)
			return
		}
	}
	for nn := range got {
		if want[nn] == 0 {
			bad("handler-for-undecodable", "handler invoked for nonce %d, which corresponds to no decodable datagram (sent: %s)", nn, kinds)
			return
		}
	}
	wantPeer := cconn.LocalAddr().String()
	for _, p := range peers {
		if p != wantPeer {
			bad("peer", "handler got peer %s, the sender is %s", p, wantPeer)
			return
		}
	}
	r.Shape("real/"+famName+"/"+kinds, true)
	r.Count("real_socket_datagrams", n)
}
