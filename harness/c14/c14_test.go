package c14

import (
	"encoding/binary"
	"errors"
	"fmt"
	"math/rand/v2"
	"net"
	"os"
	"reflect"
	"runtime/pprof"
	"strings"
	"sync"
	"sync/atomic"
	"testing"
	"time"

	"github.com/insomniacslk/dhcp/dhcpv4"
	"github.com/insomniacslk/dhcp/dhcpv4/server4"
	"github.com/insomniacslk/dhcp/dhcpv6"
	"github.com/insomniacslk/dhcp/dhcpv6/server6"
	"verif/harness/cli"
	"verif/harness/gen4"
	"verif/harness/gen6"
	"verif/harness/mon"
	"verif/harness/proj"
	"verif/harness/ref4"
	"verif/harness/ref6"
	"verif/harness/sconn"
	"verif/harness/v6util"
)

type replay struct {
	Fam string `json:"fam"`
	Idx int    `json:"idx"`
}

type item struct {
	b       []byte
	from    *net.UDPAddr
	valid   bool
	nonce   int
	want    string // snapshot of an independent decoding of a pristine copy
	class   string
	release string // now | reads:<k> | end
	byXid   bool   // no room for the nonce option: the transaction id carries the nonce (high bit set)
	dup     bool   // byte-identical copy of the previous datagram (same nonce: counted per copy)
	nonUDP  bool   // DHCPv4: the connection reports a sender that is not a UDP address (an IP address, none): whether such a datagram is dispatched is not laid down, that the loop goes on is
}

type hrec struct {
	nonce         int
	peer          string
	entry, exit   string
	encIn, encOut string // the message's re-encoding at handler entry and exit
	n             int
}

var errScripted = errors.New("scripted read error")

func logOpts4(cfg int) []server4.ServerOpt {
	switch cfg {
	case 1:
		return []server4.ServerOpt{server4.WithSummaryLogger()}
	case 2:
		return []server4.ServerOpt{server4.WithDebugLogger()}
	}
	return nil
}

func logOpts6(cfg int) []server6.ServerOpt {
	switch cfg {
	case 1:
		return []server6.ServerOpt{server6.WithSummaryLogger()}
	case 2:
		return []server6.ServerOpt{server6.WithDebugLogger()}
	}
	return nil
}

func tlv6(code int, v []byte) []byte {
	return append([]byte{byte(code >> 8), byte(code), byte(len(v) >> 8), byte(len(v))}, v...)
}

var typed map[int]string

func sender(rng *rand.Rand, v6 bool) *net.UDPAddr {
	port := 1 + rng.IntN(65535)
	if rng.IntN(4) == 0 {
		// senders of every kind an address can be: who may send is not the server loop's business
		if v6 {
			ips := []string{"ff02::1:2", "ff05::1:3", "::", "::1", "::ffff:10.0.0.1", "::ffff:224.0.0.1", "fe80::ff:fe00:1", "fc00::1", "2001:db8:ffff:ffff:ffff:ffff:ffff:ffff"}
			a := &net.UDPAddr{IP: net.ParseIP(ips[rng.IntN(len(ips))]), Port: port}
			if rng.IntN(6) == 0 {
				a.IP = net.IP{10, 9, 8, 7} // a four-octet address (a dual-stack socket's peer)
			}
			return a
		}
		ips := []net.IP{{224, 0, 0, 1}, {239, 255, 255, 250}, {255, 255, 255, 255}, {127, 0, 0, 1}, {169, 254, 3, 4}, net.IPv4(172, 16, 5, 6), net.IPv4(224, 0, 0, 252), {0, 0, 0, 1}, {100, 64, 0, 1}}
		return &net.UDPAddr{IP: append(net.IP{}, ips[rng.IntN(len(ips))]...), Port: port}
	}
	if v6 {
		switch rng.IntN(3) {
		case 0:
			return &net.UDPAddr{IP: net.ParseIP("fe80::1"), Port: port, Zone: "eth0"}
		case 1:
			return &net.UDPAddr{IP: nil, Port: port}
		}
		return &net.UDPAddr{IP: net.ParseIP("2001:db8::5"), Port: port}
	}
	switch rng.IntN(5) {
	case 0:
		return &net.UDPAddr{IP: nil, Port: port}
	case 1:
		return &net.UDPAddr{IP: net.IPv4zero, Port: port}
	case 2:
		return &net.UDPAddr{IP: net.IPv4(0, 0, 0, 0).To4(), Port: port}
	case 3:
		return &net.UDPAddr{IP: net.IPv4(10, 1, 2, byte(rng.UintN(256))), Port: port}
	}
	return &net.UDPAddr{IP: net.IP{192, 168, 7, byte(rng.UintN(256))}, Port: port}
}

func releasePlan(rng *rand.Rand) string {
	switch rng.IntN(6) {
	case 0, 1, 2:
		return "now"
	case 3:
		return fmt.Sprintf("reads:%d", 1+rng.IntN(4))
	case 4:
		return fmt.Sprintf("reads:%d", 1+rng.IntN(20))
	}
	return "end"
}

func genItems(rng *rand.Rand, v6 bool) []item {
	n := rng.IntN(201)
	if rng.IntN(3) != 0 {
		n = rng.IntN(25)
	}
	// long-lived servers: hundreds of undecodable datagrams before the valid ones ("flood"), and hundreds of handlers
	// that are all still running ("hold": nothing in C14 lets the loop wait for a handler)
	mode := ""
	switch rng.IntN(24) {
	case 0:
		mode, n = "flood", 150+rng.IntN(250)
	case 1:
		mode, n = "hold", 130+rng.IntN(120)
	case 2: // a long run of one kind of undecodable datagram (hundreds of empty reads in a row, of truncated ones ...)
		mode, n = "run", 130+rng.IntN(300)
	}
	runKind := 6 + rng.IntN(4)
	var items []item
	var lastXid6 *dhcpv6.TransactionID
	var lastXid4 *dhcpv4.TransactionID
	var lastFrom *net.UDPAddr
	for i := 0; i < n; i++ {
		it := item{from: sender(rng, v6), nonce: i + 1, release: releasePlan(rng)}
		var nb [4]byte
		binary.BigEndian.PutUint32(nb[:], uint32(it.nonce))
		kind := rng.IntN(10)
		switch {
		case mode == "flood" && i < n-20 && rng.IntN(20) != 0:
			kind = 6 + rng.IntN(4)
		case mode == "hold":
			kind, it.release = 0, "end"
		case mode == "run" && i < n-10:
			kind = runKind
		}
		// an exact copy of the previous datagram (same bytes, same sender: a retransmission on the wire is exactly that)
		if len(items) > 0 && mode != "hold" && rng.IntN(12) == 0 {
			prev := items[len(items)-1]
			cp := prev
			cp.release = releasePlan(rng)
			cp.dup = true
			items = append(items, cp)
			continue
		}
		if v6 {
			switch {
			case kind < 6:
				g := gen6.New(rng, func(c int) bool { _, ok := typed[c]; return ok })
				g.Budget = 2 + rng.IntN(10)
				m, _ := g.Message(6, 0)
				if lastXid6 != nil && rng.IntN(4) == 0 {
					// a retransmission or a second message of one transaction: same sender, same transaction id as the
					// previous valid message (whose handler may still be running); it is a datagram like any other
					m.TransactionID = *lastXid6
					it.from = lastFrom
				}
				x := m.TransactionID
				lastXid6, lastFrom = &x, it.from
				m.AddOption(&dhcpv6.OptionGeneric{OptionCode: 65001, OptionData: nb[:]})
				if rng.IntN(8) == 0 { // datagrams of every size up to the read size, not only up to a link MTU (jumbo frames, loopback)
					m.AddOption(&dhcpv6.OptionGeneric{OptionCode: 65007, OptionData: gen4.Bytes(rng, []int{1400, 1490, 1600, 2900, 3100, 3800}[rng.IntN(6)])})
				}
				b := m.ToBytes()
				exact := false
				if rng.IntN(16) == 0 && len(b) < 4000 && m.GetOneOption(65007) == nil {
					// exactly as long as the servers' read buffer (4096 octets), or one octet less: complete datagrams
					m.AddOption(&dhcpv6.OptionGeneric{OptionCode: 65007, OptionData: gen4.Bytes(rng, 4096-rng.IntN(2)-len(b)-4)})
					b = m.ToBytes()
					exact = true
				}
				for k := rng.IntN(5); k > 0 && !exact; k-- { // relay nesting 0..4
					h := make([]byte, 34)
					h[0] = byte(12 + rng.UintN(2))
					copy(h[2:], gen4.Bytes(rng, 32))
					b = append(h, tlv6(9, b)...)
				}
				it.b, it.class = b, "valid"
			case kind < 7 && rng.IntN(3) == 0:
				// a relay message without a Relay Message option (the header alone, or with an interface-id): the reference
				// decides whether that is a decodable datagram; it carries its nonce at the relay level
				h := make([]byte, 34)
				h[0] = byte(12 + rng.UintN(2))
				copy(h[2:], gen4.Bytes(rng, 32))
				if rng.IntN(2) == 0 {
					h = append(h, tlv6(18, gen4.Bytes(rng, 1+rng.IntN(6)))...)
				}
				it.b, it.class = append(h, tlv6(65001, nb[:])...), "relay-no-msg"
			case kind < 8:
				it.b, it.class = append([]byte{byte(1 + rng.UintN(11)), 1, 2, 3}, gen4.Bytes(rng, 1+rng.IntN(3))...), "undecodable"
			case kind < 9:
				it.b, it.class = []byte{}, "empty"
			default:
				it.b, it.class = []byte{12, 0, 1}, "short-relay"
			}
			res := ref6.Decode(it.b)
			switch res.V {
			case ref6.Accept:
				it.valid, it.want = true, res.Tree.String()
			case ref6.Unspecified:
				i--
				continue
			}
		} else {
			switch {
			case kind < 1 && rng.IntN(2) == 0:
				// the shortest well-formed packet: BOOTP header and magic cookie, empty options area (240 octets); or the
				// same with an End option, or with a few options and no padding up to 300 octets
				w, _ := gen4.WirePacket(rng, -1)
				switch rng.IntN(3) {
				case 1:
					w = append(w, 255)
				case 2:
					w = append(w, 53, 1, byte(1+rng.UintN(8)), 255)
				}
				binary.BigEndian.PutUint32(w[4:8], uint32(it.nonce)|0x80000000)
				it.b, it.class, it.byXid = w, "valid-short", true
			case kind < 2 && rng.IntN(2) == 0:
				// wire bytes written by hand: unsorted, split, padded options, any hlen, trailing bytes after End
				w, _ := gen4.WirePacket(rng, 4)
				binary.BigEndian.PutUint32(w[4:8], uint32(it.nonce)|0x80000000)
				it.b, it.class, it.byXid = w, "valid-wire", true
			case kind < 6:
				p, _ := gen4.Packet(rng, 5)
				if lastXid4 != nil && rng.IntN(4) == 0 { // retransmission: same sender and transaction id as the previous valid message
					p.TransactionID = *lastXid4
					it.from = lastFrom
				}
				x := p.TransactionID
				lastXid4, lastFrom = &x, it.from
				p.Options[224] = nb[:]
				if rng.IntN(8) == 0 {
					p.Options[225] = gen4.Bytes(rng, []int{1200, 1400, 1700, 2900, 3500}[rng.IntN(5)])
				}
				for c, v := range p.Options {
					if c == 225 {
						continue
					}
					if len(v) > 300 {
						p.Options[c] = v[:300]
					}
				}
				it.b, it.class = p.ToBytes(), "valid"
			case kind < 7:
				w, _ := gen4.WirePacket(rng, 4)
				it.b, it.class = w[:rng.IntN(len(w))], "truncated"
			case kind < 8:
				w, _ := gen4.WirePacket(rng, 4)
				w[236+rng.IntN(4)] ^= 0x55
				it.b, it.class = w, "bad-cookie"
			case kind < 9:
				it.b, it.class = []byte{}, "empty"
			default:
				// no End option: cut inside an option, pad octets only (a BOOTP-sized zero tail), complete options followed
				// by pads -- all undecodable; they carry their nonce in the transaction id, so a dispatch would be recognised
				w, _ := gen4.WirePacket(rng, 0)
				w = w[:240:240]
				binary.BigEndian.PutUint32(w[4:8], uint32(it.nonce)|0x80000000)
				switch rng.IntN(4) {
				case 0:
					w = append(w, 53, 1)
				case 1:
					w = append(w, make([]byte, 1+rng.IntN(60))...)
				case 2:
					w = append(w, make([]byte, 60+rng.IntN(250))...)
				default:
					w = append(append(w, 53, 1, byte(1+rng.UintN(8)), 12, 2, 'h', 'i'), make([]byte, rng.IntN(40))...)
				}
				it.b, it.class, it.byXid = w, "no-end", true
			}
			if p, ok, _ := ref4.Decode(it.b); ok {
				it.valid, it.want = true, p.Canon()
				if v := p.Opts[224]; len(v) == 4 && !it.byXid {
					it.nonce = int(binary.BigEndian.Uint32(v))
				} else if it.byXid && len(p.Opts[224]) == 0 {
					// identified by its transaction id
				} else {
					i-- // a perturbed packet that stayed valid but carries no nonce cannot be identified: not used
					continue
				}
			}
		}
		if !v6 && it.valid && !it.dup && mode == "" && rng.IntN(25) == 0 {
			it.nonUDP = true
		}
		if len(it.b) > 4096 { // larger than the servers' 4096-octet reads: cut by the read itself, which is not what C14 is about
			i--
			continue
		}
		items = append(items, it)
	}
	return items
}

func libServeGoroutines() []string {
	var sb strings.Builder
	pprof.Lookup("goroutine").WriteTo(&sb, 2)
	var out []string
	for _, g := range strings.Split(sb.String(), "\n\n") {
		// goroutines that are INSIDE Serve: a frame of that function.  (Handler goroutines carry the line "created by
		// ...(*Server).Serve in goroutine N"; a released handler that has not been scheduled yet on a loaded machine is
		// not a goroutine Serve left behind.)
		for _, ln := range strings.Split(g, "\n") {
			if strings.HasPrefix(ln, "github.com/insomniacslk/dhcp/dhcpv") && (strings.Contains(ln, "server4.(*Server).Serve(") || strings.Contains(ln, "server6.(*Server).Serve(")) {
				out = append(out, strings.SplitN(g, "\n", 2)[0])
				break
			}
		}
	}
	return out
}

// stopShard: once a 15 s watchdog has fired there is no point in paying it again for every further case of the shard
var stopShard bool

// Wall-clock waits decide nothing while the case runs among the other cases of a loaded machine: an expiry there hands
// the case to the driver as a suspect, which re-runs it alone with limits six times as long; only then is an expiry a
// violation (the two-stage rule of every termination watchdog here).
var solo = os.Getenv("VERIF_REPLAY") != ""

func wlimit(d time.Duration) time.Duration {
	if solo {
		return 6 * d
	}
	return d
}

var suspects []any

// suspect records the current case for a solo re-run and stops the shard; it reports true when the caller should give
// up WITHOUT a verdict (first stage), false when the expiry counts (solo re-run).
func suspect(r *mon.Rec, rp any, why string) bool {
	if solo {
		return false
	}
	suspects = append(suspects, rp)
	r.Set("suspect_slow", append([]any{}, suspects...))
	r.Inconclusive("wall-clock wait expired (" + why + "); case re-run alone by the driver")
	stopShard = true
	return true
}

func runCase(r *mon.Rec, famName string, idx int) {
	rng := r.Rand("c14."+famName, idx)
	v6 := famName == "server6"
	items := genItems(rng, v6)
	// close-in-read: Close arrives while ReadFrom is handing back a datagram it has already taken off the socket
	// (that datagram has been read, so it must still be dispatched); close: Close arrives while the loop waits in ReadFrom
	stopKind := []string{"read-error", "close", "close", "close-in-read"}[rng.IntN(4)]
	stopAt := len(items)
	if rng.IntN(2) == 0 && len(items) > 0 {
		stopAt = rng.IntN(len(items) + 1)
	}
	if stopKind == "close-in-read" && stopAt == 0 {
		stopKind = "close"
	}
	r.Eval(1)
	rp := replay{famName, idx}
	bad := func(key, msg string, a ...any) {
		r.Violate("C14:"+key, famName+": "+fmt.Sprintf(msg, a...), rp)
	}
	conn := sconn.New(0)
	if stopKind == "read-error" {
		conn.ReadErr = func(k int) error {
			if k == stopAt {
				return errScripted
			}
			return nil
		}
	}
	var mu sync.Mutex
	var recs []*hrec
	nilCalls := 0 // handler invocations with a nil message (the servers hand over what the decoder returned together with an error)
	endCh := make(chan struct{})
	active := 0 // handlers currently running (guarded by mu; a WaitGroup would be misused: Add concurrent with Wait)
	plan := map[int]string{}
	for _, it := range items {
		plan[it.nonce] = it.release
	}
	wait := func(nonce int) {
		p := plan[nonce]
		switch {
		case p == "end":
			<-endCh
		case strings.HasPrefix(p, "reads:"):
			var k int
			fmt.Sscanf(p, "reads:%d", &k)
			done := make(chan struct{})
			base := conn.Reads()
			go func() { conn.WaitReads(base + k); close(done) }()
			select {
			case <-done:
			case <-endCh:
			}
		}
	}
	enter := func(nonce int, peer net.Addr, snap func() string, enc func() []byte, scribble func()) {
		// the message is the handler's own: before it returns it writes into it (a handler that builds its reply in
		// place).  If two handlers were given one message, the other one sees that at entry or while it holds it.
		defer scribble()
		defer func() { // ... and into the peer address it was handed (a handler that fills in the address it will answer to)
			if up, ok := peer.(*net.UDPAddr); ok && up != nil {
				// (fields are assigned, the address octets are not written into: server4 hands out net.IPv4bcast itself,
				// and the statement does not say whose memory the peer's octets are)
				up.Port ^= 0x5555
				up.IP = net.IP{192, 0, 2, 10}
			}
		}()
		h := &hrec{nonce: nonce, entry: snap(), encIn: string(enc())}
		if peer != nil {
			h.peer = peer.String()
		}
		mu.Lock()
		active++
		recs = append(recs, h)
		mu.Unlock()
		defer func() {
			mu.Lock()
			active--
			mu.Unlock()
		}()
		wait(nonce)
		h.exit = snap()
		h.encOut = string(enc())
	}
	waitHandlers := func() {
		for dl := time.Now().Add(wlimit(20 * time.Second)); time.Now().Before(dl); {
			mu.Lock()
			a := active
			mu.Unlock()
			if a == 0 {
				return
			}
			time.Sleep(100 * time.Microsecond)
		}
	}
	nbad := func(upto int) (n int) {
		for i := 0; i < upto && i < len(items); i++ {
			if !items[i].valid {
				n++
			}
		}
		return
	}
	serveDone := make(chan struct{})
	var serveErr error
	var closeSrv func() error
	if stopKind == "close-in-read" {
		conn.OnTake = func(k int) {
			if k == stopAt-1 {
				closeSrv()
			}
		}
	}
	// the servers' logging configurations (none, summary, debug; output to /dev/null) are part of "any server"
	logCfg := rng.IntN(3)
	restoreErr := cli.QuietStderr()
	if v6 {
		// an interface name and a listen address given next to WithConn "have no effect" (doc of NewServer): any of them
		ifname := []string{"", "", "eth0", "lo", "verif0"}[rng.IntN(5)]
		var laddr *net.UDPAddr
		if rng.IntN(3) == 0 {
			laddr = &net.UDPAddr{IP: net.ParseIP("ff02::1:2"), Port: 547, Zone: ifname}
		}
		srv, err := server6.NewServer(ifname, laddr, func(c net.PacketConn, peer net.Addr, m dhcpv6.DHCPv6) {
			if m == nil || reflect.ValueOf(m).IsNil() {
				mu.Lock()
				nilCalls++
				mu.Unlock()
				return
			}
			nonce := 0
			if im, e := m.GetInnerMessage(); e == nil && im != nil {
				if o := im.GetOneOption(65001); o != nil && len(o.ToBytes()) == 4 {
					nonce = int(binary.BigEndian.Uint32(o.ToBytes()))
				}
			} else if o := m.GetOneOption(65001); o != nil && len(o.ToBytes()) == 4 {
				nonce = int(binary.BigEndian.Uint32(o.ToBytes())) // a relay message that encapsulates nothing
			}
			enter(nonce, peer, func() string { return proj.M6(m).String() }, m.ToBytes, func() {
				switch x := m.(type) {
				case *dhcpv6.Message:
					x.MessageType = 0xee
					x.TransactionID[0] ^= 0xff
				case *dhcpv6.RelayMessage:
					x.HopCount ^= 0xff
					x.MessageType = 0xee
				}
			})
		}, append([]server6.ServerOpt{server6.WithConn(conn)}, logOpts6(logCfg)...)...)
		restoreErr()
		if err != nil {
			panic(err)
		}
		closeSrv = srv.Close
		go func() { serveErr = srv.Serve(); close(serveDone) }()
	} else {
		var placeholderCalls atomic.Int64
		h4 := func(c net.PacketConn, peer net.Addr, m *dhcpv4.DHCPv4) {
			if m == nil {
				mu.Lock()
				nilCalls++
				mu.Unlock()
				return
			}
			nonce := 0
			if v := m.Options.Get(dhcpv4.GenericOptionCode(224)); len(v) == 4 {
				nonce = int(binary.BigEndian.Uint32(v))
			} else if x := binary.BigEndian.Uint32(m.TransactionID[:]); x&0x80000000 != 0 && len(v) == 0 {
				nonce = int(x & 0x7fffffff)
			}
			enter(nonce, peer, func() string {
				e, _ := proj.P4(m)
				return e.Canon()
			}, m.ToBytes, func() {
				m.OpCode = 0xee
				m.HopCount ^= 0xff
				m.Options.Update(dhcpv4.OptGeneric(dhcpv4.GenericOptionCode(231), []byte{0xee}))
			})
		}
		// the DHCPv4 server's handler is an exported field: a program may construct the server first and install its
		// handler afterwards (before serving); the handler in the field is the one that is invoked
		construct := server4.Handler(h4)
		late := rng.IntN(3) == 0
		if late {
			construct = func(net.PacketConn, net.Addr, *dhcpv4.DHCPv4) { placeholderCalls.Add(1) }
		}
		ifname := []string{"", "", "eth0", "lo", "verif0"}[rng.IntN(5)]
		var laddr *net.UDPAddr
		if rng.IntN(3) == 0 {
			laddr = &net.UDPAddr{IP: net.IPv4zero, Port: 67}
		}
		srv, err := server4.NewServer(ifname, laddr, construct, append([]server4.ServerOpt{server4.WithConn(conn)}, logOpts4(logCfg)...)...)
		restoreErr()
		if err != nil {
			panic(err)
		}
		if late {
			srv.Handler = h4
			defer func() {
				if n := placeholderCalls.Load(); n > 0 {
					r.Violate("C14:replaced-handler-invoked", fmt.Sprintf("%s: the handler given to NewServer was invoked %d times although Server.Handler had been set to another one before serving", famName, n), rp)
				}
			}()
		}
		closeSrv = srv.Close
		go func() { serveErr = srv.Serve(); close(serveDone) }()
	}
	// feed
	fed := 0
	early := false
	for i := 0; i < stopAt; i++ {
		it := items[i]
		// generous watchdog: the loop must come back to read the next datagram although handlers are still running
		abort := make(chan struct{})
		tm := time.AfterFunc(wlimit(15*time.Second), func() { close(abort) })
		go func() {
			select {
			case <-serveDone:
				tm.Stop()
				select {
				case <-abort:
				default:
					close(abort)
				}
			case <-abort:
			}
		}()
		// like a socket, the scripted conn hands out an address object of its own for every datagram read
		from := &net.UDPAddr{IP: append(net.IP(nil), it.from.IP...), Port: it.from.Port, Zone: it.from.Zone}
		var fromAddr net.Addr = from
		if it.nonUDP {
			fromAddr = &net.IPAddr{IP: net.IP{10, 77, 0, byte(it.nonce)}}
			if it.nonce%2 == 0 {
				fromAddr = nil
			}
		}
		ok := conn.InjectOr(sconn.Datagram{B: append([]byte{}, it.b...), From: fromAddr, Nonce: it.nonce, Class: it.class}, abort)
		tm.Stop()
		if !ok {
			select {
			case <-serveDone:
				early = true
			default:
				mu.Lock()
				started := len(recs)
				mu.Unlock()
				close(endCh)
				waitHandlers()
				closeSrv()
				if suspect(r, rp, "the serving loop did not read the next datagram") {
					return
				}
				bad("serve-loop-blocked", "after %d datagrams (%d of them undecodable) the serving loop did not read the next datagram for 90 s; %d handlers had been started and were held by the harness (neither a handler that is still running nor a malformed datagram may stop the loop)", fed, nbad(fed), started)
				stopShard = true
				return
			}
			break
		}
		fed++
	}
	if early {
		close(endCh)
		waitHandlers()
		bad("serve-returned-early", "Serve returned (%v) after %d of %d datagrams although neither a read failed nor the server was closed; the last datagram was of class %s", serveErr, fed, stopAt, items[max(fed-1, 0)].class)
		return
	}
	select {
	case <-serveDone:
		if stopKind == "close" {
			close(endCh)
			waitHandlers()
			bad("serve-returned-early", "Serve returned (%v) before Close was called", serveErr)
			return
		}
	default:
	}
	if stopKind == "close" {
		// all fed datagrams have been read; make sure the loop is back in ReadFrom before closing (a real Close can
		// arrive at any time; datagrams already read must still be dispatched)
		if !conn.WaitReadsTimeout(fed+1, wlimit(15*time.Second)) {
			close(endCh)
			waitHandlers()
			closeSrv()
			if suspect(r, rp, "the serving loop did not return to reading") {
				return
			}
			bad("serve-loop-blocked", "after the last of %d datagrams the serving loop did not return to reading for 90 s while a handler was still running", fed)
			stopShard = true
			return
		}
		closeSrv()
	}
	select {
	case <-serveDone:
	case <-time.After(wlimit(20 * time.Second)):
		close(endCh)
		if suspect(r, rp, "Serve did not return after the stop") {
			return
		}
		bad("serve-stuck", "Serve did not return within 120 s after the %s; goroutines: %v", stopKind, libServeGoroutines())
		return
	}
	// handlers of datagrams read before the stop are started by now or will be shortly: wait until the expected number entered
	expect := map[int]*item{}
	copies := map[int]int{}
	nvalid := 0
	undecided := map[int]bool{}
	for i := 0; i < fed; i++ {
		if items[i].nonUDP {
			undecided[items[i].nonce] = true
			continue
		}
		if items[i].valid {
			nvalid++
			expect[items[i].nonce] = &items[i]
			copies[items[i].nonce]++
		}
	}
	for dl := time.Now().Add(wlimit(10 * time.Second)); ; {
		mu.Lock()
		n := len(recs)
		mu.Unlock()
		if n >= nvalid {
			break
		}
		if !time.Now().Before(dl) {
			if suspect(r, rp, "not every decodable datagram had reached a handler") {
				close(endCh)
				waitHandlers()
				return
			}
			stopShard = true // the missing dispatch is reported below; do not pay this wait again for every further case
			break
		}
		time.Sleep(200 * time.Microsecond)
	}
	close(endCh)
	waitHandlers()
	mu.Lock()
	stillRunning := active
	mu.Unlock()
	if stillRunning > 0 {
		if suspect(r, rp, "released handlers had not returned") {
			return
		}
		bad("handlers-stuck", "%d handlers had not returned 120 s after they were released", stillRunning)
		return
	}
	mu.Lock()
	nc := nilCalls
	mu.Unlock()
	if nc > 0 {
		bad("handler-for-undecodable", "handler invoked %d times with a nil message (%d of the %d datagrams fed were undecodable)", nc, nbad(fed), fed)
		return
	}
	// what Serve returns is not part of C14 (only when it returns): observed, not judged
	switch {
	case serveErr == nil:
		r.Count("serve_returned.nil."+stopKind, 1)
	case errors.Is(serveErr, errScripted):
		r.Count("serve_returned.read-error."+stopKind, 1)
	default:
		r.Count("serve_returned.other-error."+stopKind, 1)
	}
	// conservation with unique ids
	seen := map[int]int{}
	for _, h := range recs {
		seen[h.nonce]++
		if undecided[h.nonce] {
			continue
		}
		it := expect[h.nonce]
		if it == nil {
			bad("handler-for-undecodable", "handler invoked with a message (nonce %d) that corresponds to no decodable datagram read from the socket", h.nonce)
			return
		}
		if h.entry != it.want {
			bad("message-differs", "handler got a message that differs from the independent decoding of datagram %d: %.300s vs %.300s", h.nonce, h.entry, it.want)
			return
		}
		if h.exit != h.entry || h.encIn != h.encOut {
			bad("message-changed-while-handled", "message of datagram %d changed while its handler was running (release plan %s): %.200s -> %.200s", h.nonce, it.release, h.entry, h.exit)
			return
		}
		wantPeer := it.from.String()
		if !v6 && (it.from.IP == nil || it.from.IP.To4().Equal(net.IPv4zero)) {
			wantPeer = (&net.UDPAddr{IP: net.IPv4bcast, Port: it.from.Port}).String()
		}
		if h.peer != wantPeer {
			bad("peer", "datagram %d from %v: handler got peer %s, want %s", h.nonce, it.from, h.peer, wantPeer)
			return
		}
	}
	for nonce, it := range expect {
		if seen[nonce] != copies[nonce] {
			prev := "first"
			for i := range items {
				if items[i].nonce == nonce && i > 0 {
					prev = items[i-1].class
				}
			}
			bad("dispatch-count", "decodable datagram %d (class %s, preceded by a %s datagram) was dispatched %d times, want exactly once per copy read (%d copies; %d of %d datagrams fed, stop by %s)", nonce, it.class, prev, seen[nonce], copies[nonce], fed, len(items), stopKind)
			return
		}
	}
	if g := libServeGoroutines(); len(g) > 0 {
		time.Sleep(5 * time.Millisecond)
		if g = libServeGoroutines(); len(g) > 0 {
			bad("goroutine-leak", "Serve goroutines alive after return: %v", g)
			return
		}
	}
	var sk strings.Builder
	outlive := false
	mix := [2]bool{}
	for i := 0; i < fed && i < 40; i++ {
		sk.WriteString(items[i].class[:2])
		if items[i].valid {
			mix[0] = true
			if items[i].release != "now" {
				outlive = true
			}
		} else {
			mix[1] = true
		}
	}
	r.Shape(fmt.Sprintf("%s/%s/%d/%s", famName, stopKind, min(fed, 50), sk.String()), (mix[0] && mix[1]) || outlive)
	r.Count("datagrams_fed", fed)
	r.Count("handler_invocations", len(recs))
	r.Count("stop."+stopKind, 1)
	if r.NSamples() < 4 && fed >= 3 && fed <= 8 {
		cl := []string{}
		for i := 0; i < fed; i++ {
			cl = append(cl, items[i].class+"/"+items[i].release)
		}
		r.Sample(map[string]any{"fam": famName, "idx": idx, "datagrams": cl, "stop": stopKind, "handlers": len(recs)})
	}
}

func TestCheck(t *testing.T) {
	r := mon.New("C14")
	defer r.Flush()
	typed = v6util.TypedCodes()
	var rr realReplay
	if mon.ReplayCase(&rr) && rr.Real {
		for k := 0; k < 5; k++ {
			caseReal(r, rr.Fam, rr.Idx)
		}
		return
	}
	var rp replay
	if mon.ReplayCase(&rp) {
		runCase(r, rp.Fam, rp.Idx)
		return
	}
	for i := 0; i < r.Pick(400, 20000); i++ {
		if r.Mine(i) && !stopShard {
			caseReal(r, []string{"server4", "server6"}[i%2], i)
		}
	}
	n := r.Pick(3000, 250000)
	for i := 0; i < n; i++ {
		if r.Mine(i) && !stopShard {
			runCase(r, []string{"server4", "server6"}[i%2], i)
		}
	}
}
