package c15

import (
	"fmt"
	"go/ast"
	"go/parser"
	"go/token"
	"math/rand/v2"
	"net"
	"os"
	"path/filepath"
	"sort"
	"strings"
	"testing"
	"time"

	"github.com/insomniacslk/dhcp/dhcpv4"
	"github.com/insomniacslk/dhcp/iana"
	"verif/harness/gen4"
	"verif/harness/mon"
	"verif/harness/proj"
	"verif/harness/ref4"
	"verif/harness/reflabel"
)

// ---- model of the exported With* modifiers (from their documentation) ----

type mod struct {
	name  string
	lib   dhcpv4.Modifier
	model func(m *ref4.P4)
	desc  string
}

func ipv(r *rand.Rand) (net.IP, [4]byte) {
	var w [4]byte
	for i := range w {
		w[i] = byte(r.UintN(256))
	}
	ip := net.IP{w[0], w[1], w[2], w[3]}
	if r.IntN(2) == 0 {
		ip = ip.To16()
	}
	return ip, w
}

func prlAdd(m *ref4.P4, codes ...byte) {
	cur := append([]byte{}, m.Opts[55]...)
	for _, c := range codes {
		has := false
		for _, x := range cur {
			if x == c {
				has = true
			}
		}
		if !has {
			cur = append(cur, c)
		}
	}
	m.Opts[55] = cur
}

var modelled = []string{"WithBroadcast", "WithClientIP", "WithDNS", "WithDomainSearchList", "WithGatewayIP", "WithGeneric", "WithHWType", "WithHwAddr",
	"WithIPv6OnlyPreferred", "WithLeaseTime", "WithMessageType", "WithNetboot", "WithNetmask", "WithOption", "WithOptionCopied", "WithRelay", "WithReply",
	"WithRequestedOptions", "WithRouter", "WithServerIP", "WithTransactionID", "WithUserClass", "WithYourIP", "WithoutOption"}

func drawMod(r *rand.Rand) mod {
	be32 := func(v uint32) []byte { return []byte{byte(v >> 24), byte(v >> 16), byte(v >> 8), byte(v)} }
	switch r.IntN(27) {
	case 26: // WithReply as a modifier of the caller's: the packet becomes the answer to ANOTHER packet, whatever its opcode
		other := &dhcpv4.DHCPv4{OpCode: dhcpv4.OpcodeType([]byte{1, 2, 0, 7, 255, 1}[r.IntN(6)]), HWType: iana.HWType([]uint16{1, 6, 32, 0}[r.IntN(4)]), Options: dhcpv4.Options{}}
		for i := range other.TransactionID {
			other.TransactionID[i] = byte(r.UintN(256))
		}
		hw := gen4.Bytes(r, []int{6, 6, 8, 16, 0}[r.IntN(5)])
		other.ClientHWAddr = net.HardwareAddr(hw)
		other.Flags = []uint16{0, 0x8000, 0xffff, 0x0001}[r.IntN(4)]
		o := *other
		return mod{"WithReply", dhcpv4.WithReply(other), func(m *ref4.P4) {
			m.Op = 1
			if o.OpCode == dhcpv4.OpcodeBootRequest {
				m.Op = 2
			}
			m.HType, m.Xid, m.Flags = byte(o.HWType), o.TransactionID, o.Flags
			m.CHAddr, m.HLen = append([]byte{}, hw...), byte(len(hw))
		}, fmt.Sprintf("reply-to(op=%d xid=%x hw=%x flags=%x)", o.OpCode, o.TransactionID, hw, o.Flags)}
	case 24, 25: // an option copied from another packet (a server echoing what a relay sent): overrides like any other modifier
		code := []byte{82, 61, 54, 55, 12, 60}[r.IntN(6)]
		donor := &dhcpv4.DHCPv4{Options: dhcpv4.Options{}}
		val := []byte("copied-" + string(rune('a'+r.IntN(26))))
		if code == 54 {
			val = []byte{10, 9, 8, byte(r.UintN(256))}
		}
		if r.IntN(5) != 0 {
			donor.Options[code] = val
		} else {
			val = nil // the donor lacks the option: nothing is copied
		}
		return mod{"WithOptionCopied", dhcpv4.WithOptionCopied(donor, dhcpv4.GenericOptionCode(code)), func(m *ref4.P4) {
			if val != nil {
				m.Opts[code] = append([]byte{}, val...)
			}
		}, fmt.Sprintf("copied %d=%x", code, val)}
	case 0:
		var x dhcpv4.TransactionID
		for i := range x {
			x[i] = byte(r.UintN(256))
		}
		switch r.IntN(6) {
		case 0:
			x = dhcpv4.TransactionID{} // a transaction id like any other
		case 1:
			x = dhcpv4.TransactionID{0xff, 0xff, 0xff, 0xff}
		}
		return mod{"WithTransactionID", dhcpv4.WithTransactionID(x), func(m *ref4.P4) { m.Xid = x }, fmt.Sprintf("xid=%x", x)}
	case 1:
		ip, w := ipv(r)
		return mod{"WithClientIP", dhcpv4.WithClientIP(ip), func(m *ref4.P4) { m.CI = w }, fmt.Sprintf("ci=%x", w)}
	case 2:
		ip, w := ipv(r)
		return mod{"WithYourIP", dhcpv4.WithYourIP(ip), func(m *ref4.P4) { m.YI = w }, fmt.Sprintf("yi=%x", w)}
	case 3:
		ip, w := ipv(r)
		return mod{"WithServerIP", dhcpv4.WithServerIP(ip), func(m *ref4.P4) { m.SI = w }, fmt.Sprintf("si=%x", w)}
	case 4:
		ip, w := ipv(r)
		return mod{"WithGatewayIP", dhcpv4.WithGatewayIP(ip), func(m *ref4.P4) { m.GI = w }, fmt.Sprintf("gi=%x", w)}
	case 5:
		h := byte(r.UintN(256))
		return mod{"WithHWType", dhcpv4.WithHWType(iana.HWType(h)), func(m *ref4.P4) { m.HType = h }, fmt.Sprint("htype=", h)}
	case 6:
		b := r.IntN(2) == 0
		return mod{"WithBroadcast", dhcpv4.WithBroadcast(b), func(m *ref4.P4) {
			if b {
				m.Flags |= 0x8000
			} else {
				m.Flags &^= 0x8000
			}
		}, fmt.Sprint("broadcast=", b)}
	case 7:
		hw := gen4.Bytes(r, []int{6, 6, 0, 16, 8}[r.IntN(5)])
		return mod{"WithHwAddr", dhcpv4.WithHwAddr(net.HardwareAddr(hw)), func(m *ref4.P4) { m.CHAddr = append([]byte{}, hw...); m.HLen = byte(len(hw)) }, fmt.Sprintf("hw=%x", hw)}
	case 8, 9:
		c := []byte{53, 61, 82, 54, 50, 55, 51, 1, 200, 12}[r.IntN(10)]
		v := gen4.Bytes(r, 1+r.IntN(8))
		if r.IntN(2) == 0 {
			return mod{"WithOption", dhcpv4.WithOption(dhcpv4.OptGeneric(dhcpv4.GenericOptionCode(c), v)), func(m *ref4.P4) { m.Opts[c] = v }, fmt.Sprintf("opt %d=%x", c, v)}
		}
		return mod{"WithGeneric", dhcpv4.WithGeneric(dhcpv4.GenericOptionCode(c), v), func(m *ref4.P4) { m.Opts[c] = v }, fmt.Sprintf("generic %d=%x", c, v)}
	case 10:
		c := []byte{53, 61, 82, 54, 50, 55, 51, 1, 200}[r.IntN(9)]
		return mod{"WithoutOption", dhcpv4.WithoutOption(dhcpv4.GenericOptionCode(c)), func(m *ref4.P4) { delete(m.Opts, c) }, fmt.Sprint("without ", c)}
	case 11:
		t := byte(1 + r.UintN(8))
		if r.IntN(4) == 0 { // a message type is an octet: the ones without a name too (0 = "none", 255)
			t = []byte{0, 0, 255, 9, 18}[r.IntN(5)]
		}
		return mod{"WithMessageType", dhcpv4.WithMessageType(dhcpv4.MessageType(t)), func(m *ref4.P4) { m.Opts[53] = []byte{t} }, fmt.Sprint("type=", t)}
	case 12:
		var cs []byte
		var lc []dhcpv4.OptionCode
		for i := 0; i < 1+r.IntN(4); i++ {
			// the library's own named constants (OptionCodeList.Add compares OptionCode interface values,
			// so a GenericOptionCode with the same number is a different element; that is not what C15 is about)
			oc := []dhcpv4.OptionCode{dhcpv4.OptionSubnetMask, dhcpv4.OptionRouter, dhcpv4.OptionDomainNameServer, dhcpv4.OptionDomainName,
				dhcpv4.OptionNTPServers, dhcpv4.OptionTFTPServerName, dhcpv4.OptionBootfileName, dhcpv4.OptionDNSDomainSearchList, dhcpv4.OptionClasslessStaticRoute}[r.IntN(9)]
			cs = append(cs, oc.Code())
			lc = append(lc, oc)
		}
		return mod{"WithRequestedOptions", dhcpv4.WithRequestedOptions(lc...), func(m *ref4.P4) { prlAdd(m, cs...) }, fmt.Sprint("prl+", cs)}
	case 13:
		ip, w := ipv(r)
		return mod{"WithRelay", dhcpv4.WithRelay(ip), func(m *ref4.P4) { m.Flags &^= 0x8000; m.GI = w; m.Hops++ }, fmt.Sprintf("relay=%x", w)}
	case 14:
		mk := net.CIDRMask(r.IntN(33), 32)
		return mod{"WithNetmask", dhcpv4.WithNetmask(mk), func(m *ref4.P4) { m.Opts[1] = []byte(mk) }, fmt.Sprintf("mask=%x", []byte(mk))}
	case 15:
		v := r.Uint32()
		return mod{"WithLeaseTime", dhcpv4.WithLeaseTime(v), func(m *ref4.P4) { m.Opts[51] = be32(v) }, fmt.Sprint("lease=", v)}
	case 16:
		v := r.Uint32()
		return mod{"WithIPv6OnlyPreferred", dhcpv4.WithIPv6OnlyPreferred(v), func(m *ref4.P4) { m.Opts[108] = be32(v) }, fmt.Sprint("v6only=", v)}
	case 17, 18:
		var ips []net.IP
		var w []byte
		for i := 0; i < 1+r.IntN(3); i++ {
			ip, b := ipv(r)
			ips = append(ips, ip)
			w = append(w, b[:]...)
		}
		if r.IntN(2) == 0 {
			return mod{"WithRouter", dhcpv4.WithRouter(ips...), func(m *ref4.P4) { m.Opts[3] = w }, fmt.Sprintf("router=%x", w)}
		}
		return mod{"WithDNS", dhcpv4.WithDNS(ips...), func(m *ref4.P4) { m.Opts[6] = w }, fmt.Sprintf("dns=%x", w)}
	case 19:
		names := []string{"example.com", "a.b.c"}[:1+r.IntN(2)]
		return mod{"WithDomainSearchList", dhcpv4.WithDomainSearchList(names...), func(m *ref4.P4) { m.Opts[119] = reflabel.Encode(names) }, fmt.Sprint("search=", names)}
	case 20:
		uc := []string{"linuxboot", "x", "PXEClient"}[r.IntN(3)]
		rfc := r.IntN(2) == 0
		return mod{"WithUserClass", dhcpv4.WithUserClass(uc, rfc), func(m *ref4.P4) {
			if rfc {
				m.Opts[77] = append([]byte{byte(len(uc))}, uc...)
			} else {
				m.Opts[77] = []byte(uc)
			}
		}, fmt.Sprint("userclass=", uc, rfc)}
	case 21:
		return mod{"WithNetboot", dhcpv4.WithNetboot, func(m *ref4.P4) { prlAdd(m, 66, 67) }, "netboot"}
	case 22: // default-colliding: message type again / server id
		ip, w := ipv(r)
		return mod{"WithOption", dhcpv4.WithOption(dhcpv4.OptServerIdentifier(ip)), func(m *ref4.P4) { m.Opts[54] = w[:] }, fmt.Sprintf("serverid=%x", w)}
	default:
		ip, w := ipv(r)
		return mod{"WithOption", dhcpv4.WithOption(dhcpv4.OptRequestedIPAddress(ip)), func(m *ref4.P4) { m.Opts[50] = w[:] }, fmt.Sprintf("reqip=%x", w)}
	}
}

// ---- inputs ----

func normInput(p *dhcpv4.DHCPv4) {
	for c, v := range p.Options {
		if len(v) == 0 {
			p.Options[c] = nil // the decoder's form of an empty value
		}
	}
}

func drawInput(r *rand.Rand) (*dhcpv4.DHCPv4, string) {
	if r.IntN(3) == 0 {
		w, _ := gen4.WirePacket(r, 6)
		p, err := dhcpv4.FromBytes(w)
		if err == nil {
			return p, "decoded"
		}
	}
	p, _ := gen4.Packet(r, 6)
	if r.IntN(2) == 0 {
		p.OpCode = dhcpv4.OpcodeType(1 + r.UintN(2))
	}
	// make the interesting options more likely
	for _, c := range []byte{82, 61, 54, 55} {
		switch r.IntN(4) {
		case 0:
			p.Options[c] = gen4.Bytes(r, 1+r.IntN(12))
			if c == 54 {
				p.Options[c] = gen4.Bytes(r, 4)
			}
			if c == 82 && r.IntN(2) == 0 {
				// what relay agents really send: a run of sub-options, in any order (remote-id before circuit-id, vendor
				// sub-option 9 first), a sub-option twice, trailing pad -- echoed byte for byte, whatever its structure
				var v []byte
				for k := 1 + r.IntN(4); k > 0; k-- {
					sc := []byte{2, 1, 9, 5, 1, 151, 2, 11}[r.IntN(8)]
					d := gen4.Bytes(r, 1+r.IntN(8))
					v = append(append(v, sc, byte(len(d))), d...)
					if sc == 151 && r.IntN(2) == 0 { // with its companion, the empty VSS-control sub-option (RFC 6607)
						v = append(v, 152, 0)
					}
				}
				if r.IntN(4) == 0 {
					v = append(v, 0)
				}
				p.Options[c] = v
			}
			if c == 61 && r.IntN(2) == 0 { // the usual client identifiers: type 1 + MAC, type 255 + IAID + DUID, type 0 + text
				p.Options[c] = [][]byte{append([]byte{1}, gen4.Bytes(r, 6)...), append([]byte{255}, gen4.Bytes(r, 4+10)...), append([]byte{0}, "host-a"...)}[r.IntN(3)]
			}
		case 1:
			delete(p.Options, c)
		case 2:
			p.Options[c] = nil
		}
	}
	// the options that describe the requester's limits and wishes, which a builder has no business acting on: maximum
	// message size (57) from 0 to 65535, parameter request list, requested lease time, overload
	if r.IntN(3) == 0 {
		v := []uint16{0, 1, 240, 300, 548, 576, 1500, 65535}[r.IntN(8)]
		p.Options[57] = []byte{byte(v >> 8), byte(v)}
		if r.IntN(2) == 0 {
			p.Options[82] = gen4.AgentInfo(r, []int{12, 60, 200, 255, 340, 600}[r.IntN(6)])
		}
	}
	if r.IntN(6) == 0 {
		p.Options[52] = []byte{byte(1 + r.UintN(3))}
	}
	normInput(p)
	return p, "generated"
}

type replay struct {
	Idx int `json:"idx"`
}

func cp(e *ref4.P4) *ref4.P4 {
	c := *e
	c.Opts = map[byte][]byte{}
	for k, v := range e.Opts {
		c.Opts[k] = append([]byte{}, v...)
	}
	c.CHAddr = append([]byte{}, e.CHAddr...)
	return &c
}

func ip4(ip net.IP) [4]byte {
	var w [4]byte
	copy(w[:], ip.To4())
	return w
}

type held struct {
	builder string
	p       *dhcpv4.DHCPv4
	canon   string
}

var heldResults []held

func runCase(r *mon.Rec, idx int) {
	rng := r.Rand("c15", idx)
	in, src := drawInput(rng)
	inP, okIn := proj.P4(in)
	if !okIn {
		return
	}
	r.Current(replay{idx})
	r.Eval(1)
	hw := net.HardwareAddr(gen4.Bytes(rng, 6))
	lip, lipw := ipv(rng)
	type builder struct {
		name   string
		build  func(ms ...dhcpv4.Modifier) (*dhcpv4.DHCPv4, error)
		xidDet bool
	}
	builders := []builder{
		{"NewReplyFromRequest", func(ms ...dhcpv4.Modifier) (*dhcpv4.DHCPv4, error) { return dhcpv4.NewReplyFromRequest(in, ms...) }, true},
		{"NewRequestFromOffer", func(ms ...dhcpv4.Modifier) (*dhcpv4.DHCPv4, error) { return dhcpv4.NewRequestFromOffer(in, ms...) }, true},
		{"NewRenewFromAck", func(ms ...dhcpv4.Modifier) (*dhcpv4.DHCPv4, error) { return dhcpv4.NewRenewFromAck(in, ms...) }, true},
		{"NewReleaseFromACK", func(ms ...dhcpv4.Modifier) (*dhcpv4.DHCPv4, error) { return dhcpv4.NewReleaseFromACK(in, ms...) }, false},
		{"NewInform", func(ms ...dhcpv4.Modifier) (*dhcpv4.DHCPv4, error) { return dhcpv4.NewInform(hw, lip, ms...) }, false},
		{"NewDiscovery", func(ms ...dhcpv4.Modifier) (*dhcpv4.DHCPv4, error) { return dhcpv4.NewDiscovery(hw, ms...) }, false},
	}
	b := builders[rng.IntN(len(builders))]
	nm := rng.IntN(5)
	var mods []mod
	for i := 0; i < nm; i++ {
		mods = append(mods, drawMod(rng))
	}
	rp := replay{idx}
	var base, res *dhcpv4.DHCPv4
	var err1, err2 error
	// the caller keeps its modifiers in a list of its own (with or without spare capacity) and hands the same list to
	// another builder first: a builder must neither disturb the caller's list nor the packet it answers
	other := builders[rng.IntN(len(builders))]
	spare := []int{0, 0, 1, 3, 6, 12}[rng.IntN(6)]
	reuse := rng.IntN(2) == 0
	inBefore := inP.Canon()
	pan, val, st := mon.Guard(func() {
		base, err1 = b.build()
		ms := make([]dhcpv4.Modifier, 0, len(mods)+spare)
		for _, m := range mods {
			ms = append(ms, m.lib)
		}
		if reuse {
			other.build(ms...)
		}
		res, err2 = b.build(ms...)
	})
	if pan {
		r.Violate("C15:panic:"+b.name+":"+mon.LibFrame(st), fmt.Sprint(val), rp)
		return
	}
	if err1 != nil || err2 != nil {
		r.Violate("C15:error:"+b.name, fmt.Sprintf("builder failed: %v %v", err1, err2), rp)
		return
	}
	inAfter := "(no longer an IPv4 packet)"
	if ia, ok := proj.P4(in); ok {
		inAfter = ia.Canon()
	}
	if inAfter != inBefore {
		r.Violate("C15:"+b.name+":input-changed", fmt.Sprintf("%s (after %s with the same modifier list): the packet the builders were given changed: %s -> %s", b.name, other.name, trunc(inBefore), trunc(inAfter)), rp)
		return
	}
	bp, ok1 := proj.P4(base)
	rpj, ok2 := proj.P4(res)
	if !ok1 || !ok2 {
		r.Violate("C15:unrepresentable:"+b.name, "built packet has a non-IPv4 address field", rp)
		return
	}
	bad := func(what string, a ...any) {
		r.Violate("C15:"+b.name+":"+what, fmt.Sprintf("%s (input %s op=%d): ", b.name, src, in.OpCode)+fmt.Sprintf(what+" "+strings.Repeat("%v ", len(a)), a...), rp)
	}
	// ---- (1) defaults named by the statement, on the build without user modifiers ----
	has := func(p *ref4.P4, c byte) bool { _, ok := p.Opts[c]; return ok }
	nonEmpty := func(c byte) bool { return len(inP.Opts[c]) > 0 }
	echo := func(c byte) bool {
		if nonEmpty(c) {
			if string(bp.Opts[c]) != string(inP.Opts[c]) {
				bad(fmt.Sprintf("option-%d-not-echoed", c), "want", inP.Opts[c], "got", bp.Opts[c], "present", has(bp, c))
				return false
			}
		} else if has(bp, c) {
			bad(fmt.Sprintf("option-%d-not-omitted", c), "input has it absent/empty, result has", bp.Opts[c])
			return false
		}
		return true
	}
	mt := func(p *ref4.P4) int {
		if len(p.Opts[53]) == 1 {
			return int(p.Opts[53][0])
		}
		return -1
	}
	prlOK := func(p *ref4.P4) bool { return len(p.Opts[55]) > 0 }
	okd := true
	switch b.name {
	case "NewReplyFromRequest":
		if in.OpCode == 1 || in.OpCode == 2 {
			if bp.Op != 3-inP.Op {
				bad("opcode-not-flipped", "request", inP.Op, "reply", bp.Op)
				okd = false
			}
		}
		if bp.Xid != inP.Xid || bp.HType != inP.HType || string(bp.CHAddr) != string(inP.CHAddr) || bp.Flags != inP.Flags || bp.GI != inP.GI {
			bad("correlation-field", "want xid/htype/chaddr/flags/giaddr", inP.Xid, inP.HType, inP.CHAddr, inP.Flags, inP.GI, "got", bp.Xid, bp.HType, bp.CHAddr, bp.Flags, bp.GI)
			okd = false
		}
		okd = echo(82) && okd
		okd = echo(61) && okd
	case "NewRequestFromOffer":
		if bp.Xid != inP.Xid {
			bad("xid", "offer", inP.Xid, "request", bp.Xid)
			okd = false
		}
		if mt(bp) != 3 {
			bad("not-a-request", "message type", mt(bp))
			okd = false
		}
		if in.YourIPAddr != nil {
			if string(bp.Opts[50]) != string(inP.YI[:]) {
				bad("requested-address", "offered", inP.YI, "option 50", bp.Opts[50])
				okd = false
			}
		} else {
			r.Count("unjudged.nil-yiaddr", 1)
		}
		if nonEmpty(54) && string(bp.Opts[54]) != string(inP.Opts[54]) {
			bad("server-identifier", "offer's", inP.Opts[54], "request's", bp.Opts[54])
			okd = false
		}
		if string(bp.CHAddr) != string(inP.CHAddr) {
			bad("chaddr", "offer", inP.CHAddr, "request", bp.CHAddr)
			okd = false
		}
	case "NewRenewFromAck":
		if mt(bp) != 3 || bp.CI != inP.YI || bp.Flags&0x8000 != 0 || !prlOK(bp) || bp.Xid != inP.Xid || string(bp.CHAddr) != string(inP.CHAddr) {
			bad("renew-fields", "type", mt(bp), "ciaddr", bp.CI, "want", inP.YI, "flags", bp.Flags, "prl", bp.Opts[55])
			okd = false
		}
	case "NewReleaseFromACK":
		if mt(bp) != 7 || bp.CI != inP.YI || bp.Flags&0x8000 != 0 || string(bp.CHAddr) != string(inP.CHAddr) {
			bad("release-fields", "type", mt(bp), "ciaddr", bp.CI, "want", inP.YI, "flags", bp.Flags, "chaddr", bp.CHAddr)
			okd = false
		}
		if nonEmpty(54) && string(bp.Opts[54]) != string(inP.Opts[54]) {
			bad("release-server-identifier", "ack's", inP.Opts[54], "release's", bp.Opts[54])
			okd = false
		}
	case "NewInform":
		if mt(bp) != 8 || bp.CI != lipw || string(bp.CHAddr) != string(hw) {
			bad("inform-fields", "type", mt(bp), "ciaddr", bp.CI, "want", lipw, "chaddr", bp.CHAddr)
			okd = false
		}
	case "NewDiscovery":
		if mt(bp) != 1 || string(bp.CHAddr) != string(hw) || !prlOK(bp) || bp.Op != 1 {
			bad("discover-fields", "type", mt(bp), "chaddr", bp.CHAddr, "prl", bp.Opts[55], "op", bp.Op)
			okd = false
		}
	}
	if !okd {
		return
	}
	// ---- (2) user modifiers are applied after the defaults, in order, and prevail ----
	exp := cp(bp)
	xidSet := b.xidDet
	var names []string
	for _, m := range mods {
		m.model(exp)
		names = append(names, m.desc)
		if m.name == "WithTransactionID" {
			xidSet = true
		}
	}
	if !xidSet {
		exp.Xid = rpj.Xid
	}
	if exp.Canon() != rpj.Canon() {
		r.Violate("C15:"+b.name+":modifiers-do-not-prevail", fmt.Sprintf("%s with modifiers %v (list with %d spare slots, handed to %s first: %v): expected %s, got %s", b.name, names, spare, other.name, reuse, exp.Canon(), rpj.Canon()), rp)
		return
	}
	// the built packet is the caller's: it updates options in it (a server filling in its reply); the packet it was
	// built from stays what it was
	merge := rng.IntN(3) == 0
	if merge {
		r.Count("post-build-merge", 1)
	}
	if pan2, _, _ := mon.Guard(func() {
		for _, c := range []uint8{82, 61, 54, 55, 53} {
			if v := res.Options.Get(dhcpv4.GenericOptionCode(c)); len(v) > 0 {
				nv := make([]byte, len(v))
				for i := range nv {
					nv[i] = ^v[i]
				}
				if merge {
					// options taken from elsewhere merged into the built packet: a second instance of a code continues
					// the value already there (RFC 3396)
					_ = res.Options.FromBytes(append([]byte{c, byte(min(len(nv), 3))}, nv[:min(len(nv), 3)]...))
					continue
				}
				res.Options.Update(dhcpv4.OptGeneric(dhcpv4.GenericOptionCode(c), nv))
			}
		}
		if len(res.ClientHWAddr) > 0 && rng.IntN(2) == 0 {
			res.UpdateOption(dhcpv4.OptGeneric(dhcpv4.GenericOptionCode(232), []byte{1}))
		}
	}); pan2 {
		r.Count("post-build-update-panicked", 1)
	}
	if ia, ok := proj.P4(in); !ok || ia.Canon() != inBefore {
		r.Violate("C15:"+b.name+":input-changed", fmt.Sprintf("%s: updating options of the built packet changed the packet it was built from", b.name), rp)
		return
	}
	rpj, _ = proj.P4(res)
	bp, _ = proj.P4(base)
	if rpj == nil || bp == nil {
		return
	}
	// packets built earlier stay what they were while later ones are built (the caller keeps them: an offer it is about
	// to answer, a discover it will retransmit)
	for _, h := range heldResults {
		if g, ok := proj.P4(h.p); !ok || g.Canon() != h.canon {
			now := "(no longer an IPv4 packet)"
			if ok {
				now = g.Canon()
			}
			r.Violate("C15:"+h.builder+":earlier-result-changed", fmt.Sprintf("a packet built earlier by %s changed while %s built another one: %s -> %s", h.builder, b.name, trunc(h.canon), trunc(now)), rp)
			heldResults = nil
			return
		}
	}
	heldResults = append(heldResults, held{b.name, res, rpj.Canon()}, held{b.name, base, bp.Canon()})
	if len(heldResults) > 8 {
		heldResults = heldResults[len(heldResults)-8:]
	}
	var ms []string
	for _, m := range mods {
		ms = append(ms, m.name)
	}
	sort.Strings(ms)
	shape := fmt.Sprintf("%s/%s/op%d/82:%v/61:%v/54:%v/55:%v/%s", b.name, src, min(int(in.OpCode), 3), nonEmpty(82), nonEmpty(61), nonEmpty(54), nonEmpty(55), strings.Join(ms, "+"))
	r.Shape(shape, len(mods) > 0 || nonEmpty(82) || nonEmpty(61))
	r.Count("builder."+b.name, 1)
	if r.NSamples() < 5 && len(mods) == 2 {
		r.Sample(map[string]any{"idx": idx, "builder": b.name, "input": src, "modifiers": names, "result": trunc(rpj.Canon())})
	}
}

func trunc(s string) string {
	if len(s) > 400 {
		return s[:400] + "…"
	}
	return s
}

// exportedWith lists exported With* functions of package dhcpv4 in /repo (source scan at check time).
func exportedWith() []string {
	var out []string
	files, _ := filepath.Glob("/repo/dhcpv4/*.go")
	fs := token.NewFileSet()
	for _, f := range files {
		if strings.HasSuffix(f, "_test.go") {
			continue
		}
		src, err := os.ReadFile(f)
		if err != nil {
			continue
		}
		af, err := parser.ParseFile(fs, f, src, 0)
		if err != nil {
			continue
		}
		for _, d := range af.Decls {
			if fd, ok := d.(*ast.FuncDecl); ok && fd.Recv == nil && strings.HasPrefix(fd.Name.Name, "With") {
				out = append(out, fd.Name.Name)
			}
		}
	}
	sort.Strings(out)
	return out
}

func TestCheck(t *testing.T) {
	_ = time.Second
	r := mon.New("C15")
	defer r.Flush()
	if os.Getenv("VERIF_REPLAY") == "" {
		r.Watchdog(20 * time.Second)
	}
	var rp replay
	if mon.ReplayCase(&rp) {
		runCase(r, rp.Idx)
		return
	}
	known := map[string]bool{}
	for _, n := range modelled {
		known[n] = true
	}
	var unm []string
	for _, n := range exportedWith() {
		if !known[n] {
			unm = append(unm, n)
		}
	}
	r.Set("modifiers_modelled", len(modelled))
	r.Set("modifiers_unmodelled", unm)
	n := r.Pick(100000, 20000000)
	for i := 0; i < n; i++ {
		if r.Mine(i) {
			runCase(r, i)
		}
	}
}
