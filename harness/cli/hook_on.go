//go:build verif

package cli

import (
	"github.com/insomniacslk/dhcp/dhcpv4/nclient4"
	"github.com/insomniacslk/dhcp/dhcpv6/nclient6"
)

func setHook4(h func(string)) { nclient4.VerifHook = h }
func setHook6(h func(string)) { nclient6.VerifHook = h }

const HooksEnabled = true
