// Package cli hides the differences between nclient4 and nclient6 behind one
// adapter so that the client monitors (C10-C12) run the same scripts on both.
package cli

import (
	"bytes"
	"context"
	"encoding/binary"
	"errors"
	"net"
	"os"
	"sync"
	"time"

	"github.com/insomniacslk/dhcp/dhcpv4"
	"github.com/insomniacslk/dhcp/dhcpv4/nclient4"
	"github.com/insomniacslk/dhcp/dhcpv6"
	"github.com/insomniacslk/dhcp/dhcpv6/nclient6"
	"verif/harness/mon"
)

const (
	nonceOpt4 = 224   // site-specific DHCPv4 option carrying the harness nonce
	nonceOpt6 = 65001 // unassigned DHCPv6 option code carrying the harness nonce
	tailOpt4  = 226   // trailer option: nonce-determined payload behind the nonce option, so that a datagram
	tailOpt6  = 65003 // that reached a caller cut short or overwritten is recognised (Resp.Damaged)
	fillOpt4  = 228   // filler that brings a datagram to an exact size
	fillOpt6  = 65005
)

// Req is a request message of either family.
type Req struct {
	V4  *dhcpv4.DHCPv4
	V6  *dhcpv6.Message
	Xid uint32
	// Lib: use the library's own matcher constructor IsMessageType(First, Rest...) for this call instead of the MatchFn
	// (which is then only consulted to observe what the matcher is shown)
	Lib *LibMatch
}

// LibMatch: the arguments of IsMessageType.  Rest is one list that the caller keeps and spreads into every call (a
// slice with spare capacity, as a configuration value would be); it holds one message type no script uses.
type LibMatch struct {
	First int
	Rest  *SharedTypes
}

type SharedTypes struct {
	v4 []dhcpv4.MessageType
	v6 []dhcpv6.MessageType
}

func NewSharedTypes() *SharedTypes {
	s := &SharedTypes{v4: make([]dhcpv4.MessageType, 1, 8), v6: make([]dhcpv6.MessageType, 1, 8)}
	s.v4[0], s.v6[0] = dhcpv4.MessageTypeInform, dhcpv6.MessageTypeInformationRequest
	return s
}

// Edit changes the request IN PLACE (same message object): new transaction id, and an option whose value tells the
// edits apart.  A caller may well keep one message object and re-submit it after changing it.
func (r *Req) Edit(xid uint32, mark byte) {
	if r.V4 != nil {
		r.V4.TransactionID = xid4(xid)
		r.V4.UpdateOption(dhcpv4.OptGeneric(dhcpv4.GenericOptionCode(227), []byte{mark, mark ^ 0xff}))
		r.V4.NumSeconds = uint16(mark)
	} else {
		r.V6.TransactionID = xid6(xid)
		r.V6.UpdateOption(&dhcpv6.OptionGeneric{OptionCode: 65004, OptionData: []byte{mark, mark ^ 0xff}})
	}
	r.Xid = xid & 0xffffff
	if r.V4 != nil {
		r.Xid = xid
	}
}

// SetKind makes the request a message of the k-th kind (DHCPv6: Solicit, Request, Renew, Rebind, Information-request,
// Confirm, Release, Decline; DHCPv4: Discover, Request, Inform, Release, Decline).
func (r Req) SetKind(k int) Req {
	if r.V6 != nil {
		t := []dhcpv6.MessageType{dhcpv6.MessageTypeSolicit, dhcpv6.MessageTypeRequest, dhcpv6.MessageTypeRenew, dhcpv6.MessageTypeRebind,
			dhcpv6.MessageTypeInformationRequest, dhcpv6.MessageTypeConfirm, dhcpv6.MessageTypeRelease, dhcpv6.MessageTypeDecline}
		r.V6.MessageType = t[k%len(t)]
	}
	if r.V4 != nil {
		t := []dhcpv4.MessageType{dhcpv4.MessageTypeDiscover, dhcpv4.MessageTypeRequest, dhcpv4.MessageTypeInform, dhcpv4.MessageTypeRelease, dhcpv4.MessageTypeDecline}
		r.V4.UpdateOption(dhcpv4.OptMessageType(t[k%len(t)]))
	}
	return r
}

func (r Req) Bytes() []byte {
	if r.V4 != nil {
		return r.V4.ToBytes()
	}
	return r.V6.ToBytes()
}

// Resp describes the message a call returned / a matcher saw.
type Resp struct {
	Nil   bool
	Nonce int
	Type  int
	Xid   uint32
	Op    int    // v4 opcode
	HW    string // v4 chaddr
	// Damaged: the message carries a nonce but not the intact trailer of that datagram (it is not the datagram that arrived)
	Damaged bool
	// Again reads the same message object once more (the caller keeps what a call returned; later traffic on the
	// client must not change it).  nil for a nil message.
	Again func() Resp
	// Own: the caller does what it likes with the message it was handed: mode 1 gives it another transaction id,
	// mode 2 overwrites everything in it.  nil for a nil message.
	Own func(mode int, xid uint32)
}

type MatchFn func(Resp) bool

type Client interface {
	SendAndRead(ctx context.Context, dest *net.UDPAddr, req Req, m MatchFn) (resp Resp, gotMsg bool, err error)
	Close() error
}

type Family interface {
	Name() string
	New(conn net.PacketConn, T time.Duration, tries int) (Client, error)
	// NewCfg is New with one of the client's logging configurations (cfg modulo NCfg): plain, dropped-packet
	// logging, summary logger, debug logger.  Log output goes to /dev/null.
	NewCfg(conn net.PacketConn, T time.Duration, tries int, cfg int) (Client, error)
	Request(xid uint32, extra int) Req
	// Datagram builds a datagram of the given class answering xid.
	Datagram(class string, xid uint32, nonce int, msgType int) []byte
	IsNoResponse(err error) bool
	IsInUse(err error) bool
	SetHook(func(point string))
	Classes() []string
	AcceptType() int // a message type that "typed" matchers accept
	OtherType() int  // a message type they reject
}

// NCfg is the number of client logging configurations NewCfg knows.
const NCfg = 4

var (
	stderrMu sync.Mutex
	devNull  *os.File
)

// quietStderr points os.Stderr at /dev/null while a client is constructed: the library's logger options capture
// os.Stderr at that moment, so their output is discarded while the process' real stderr (panics, race reports) is untouched.
func quietStderr() (restore func()) {
	stderrMu.Lock()
	if devNull == nil {
		devNull, _ = os.OpenFile(os.DevNull, os.O_WRONLY, 0)
	}
	old := os.Stderr
	if devNull != nil {
		os.Stderr = devNull
	}
	return func() { os.Stderr = old; stderrMu.Unlock() }
}

// QuietStderr is for checks that construct clients themselves: loggers created until restore() write to /dev/null.
func QuietStderr() (restore func()) { return quietStderr() }

// LogOpts4 / LogOpts6 are the client options of logging configuration cfg (modulo NCfg), as used by NewCfg.
func LogOpts4(cfg int) []nclient4.ClientOpt {
	switch cfg % NCfg {
	case 1, 2:
		return []nclient4.ClientOpt{nclient4.WithSummaryLogger()}
	case 3:
		return []nclient4.ClientOpt{nclient4.WithDebugLogger()}
	}
	return nil
}

func LogOpts6(cfg int) []nclient6.ClientOpt {
	switch cfg % NCfg {
	case 1:
		return []nclient6.ClientOpt{nclient6.WithLogDroppedPackets()}
	case 2:
		return []nclient6.ClientOpt{nclient6.WithLogDroppedPackets(), nclient6.WithSummaryLogger()}
	case 3:
		return []nclient6.ClientOpt{nclient6.WithLogDroppedPackets(), nclient6.WithDebugLogger()}
	}
	return nil
}

// Tail is the trailer payload of the datagram with the given nonce.
func Tail(nonce int) []byte {
	b := make([]byte, 3+nonce%29)
	for i := range b {
		b[i] = byte(nonce*31 + i*7 + 1)
	}
	return b
}

var HW = net.HardwareAddr{0x02, 0x00, 0x5e, 0x10, 0x00, 0x01}

// ---------------- DHCPv4 ----------------

type V4 struct{}

func (V4) Name() string    { return "nclient4" }
func (V4) AcceptType() int { return int(dhcpv4.MessageTypeAck) }
func (V4) OtherType() int  { return int(dhcpv4.MessageTypeNak) }
func (V4) Classes() []string {
	return []string{"matching", "other-type", "wrong-xid", "wrong-hw", "wrong-hw-empty", "wrong-opcode", "undecodable", "empty"}
}
func (V4) SetHook(h func(string)) { setHook4(h) }

type c4 struct{ c *nclient4.Client }

func (f V4) New(conn net.PacketConn, T time.Duration, tries int) (Client, error) {
	return f.NewCfg(conn, T, tries, 0)
}

func (V4) NewCfg(conn net.PacketConn, T time.Duration, tries int, cfg int) (Client, error) {
	opts := []nclient4.ClientOpt{nclient4.WithTimeout(T), nclient4.WithRetry(tries)}
	switch cfg % NCfg {
	case 1, 2:
		opts = append(opts, nclient4.WithSummaryLogger())
	case 3:
		// ... and a server address of its own: where the client's own exchanges go by default; a destination handed to
		// SendAndRead is the destination
		opts = append(opts, nclient4.WithDebugLogger(), nclient4.WithServerAddr(&net.UDPAddr{IP: net.IP{192, 0, 2, 1}, Port: 6767}))
	}
	restore := quietStderr()
	var c *nclient4.Client
	var err error
	if cfg%NCfg == 2 { // the hardware address given through the option instead of the constructor argument
		c, err = nclient4.NewWithConn(conn, nil, append(opts, nclient4.WithHWAddr(HW))...)
	} else {
		c, err = nclient4.NewWithConn(conn, HW, opts...)
	}
	restore()
	if err != nil {
		return nil, err
	}
	return &c4{c}, nil
}

func xid4(x uint32) (t dhcpv4.TransactionID) {
	binary.BigEndian.PutUint32(t[:], x)
	return
}

// OtherHW: the hardware address of the "wrong-hw" datagrams; requests whose transaction id is 3 mod 4 carry it as their
// chaddr (a caller asking on behalf of another machine): replies are still filtered by the CLIENT's hardware address.
var OtherHW = net.HardwareAddr{2, 0, 0x5e, 0x10, 0, 0x02}

func (V4) Request(xid uint32, extra int) Req {
	p := &dhcpv4.DHCPv4{OpCode: dhcpv4.OpcodeBootRequest, HWType: 1, TransactionID: xid4(xid), ClientHWAddr: HW, Options: dhcpv4.Options{}}
	if xid%4 == 3 {
		p.ClientHWAddr = append(net.HardwareAddr{}, OtherHW...)
	}
	p.UpdateOption(dhcpv4.OptMessageType([]dhcpv4.MessageType{dhcpv4.MessageTypeDiscover, dhcpv4.MessageTypeRequest, dhcpv4.MessageTypeDiscover, dhcpv4.MessageTypeInform,
		dhcpv4.MessageTypeRelease, dhcpv4.MessageTypeDecline}[(int(xid%5)+extra)%6]))
	if extra > 0 {
		p.UpdateOption(dhcpv4.OptGeneric(dhcpv4.GenericOptionCode(225), make([]byte, extra%200)))
	}
	return Req{V4: p, Xid: xid}
}

func (V4) Datagram(class string, xid uint32, nonce int, msgType int) []byte {
	p := &dhcpv4.DHCPv4{OpCode: dhcpv4.OpcodeBootReply, HWType: 1, TransactionID: xid4(xid), ClientHWAddr: HW, Options: dhcpv4.Options{}}
	p.UpdateOption(dhcpv4.OptMessageType(dhcpv4.MessageType(msgType)))
	var nb [4]byte
	binary.BigEndian.PutUint32(nb[:], uint32(nonce))
	p.UpdateOption(dhcpv4.OptGeneric(dhcpv4.GenericOptionCode(nonceOpt4), nb[:]))
	p.UpdateOption(dhcpv4.OptGeneric(dhcpv4.GenericOptionCode(tailOpt4), Tail(nonce)))
	switch class {
	case "wrong-xid":
		p.TransactionID = xid4(xid ^ 0x5a5a0000)
	case "wrong-hw":
		p.ClientHWAddr = append(net.HardwareAddr{}, OtherHW...)
	case "wrong-hw-empty":
		p.ClientHWAddr = nil
	case "wrong-opcode":
		p.OpCode = dhcpv4.OpcodeBootRequest
	case "undecodable":
		b := p.ToBytes()
		return b[:200]
	case "empty":
		return []byte{}
	}
	if nonce%9 == 4 || nonce%9 == 7 { // exactly the maximum message size the client announces (1500 octets), and one less
		target := 1500 - (nonce%9-4)/3
		for v := 1150; v < 1270; v++ {
			fill := make([]byte, v)
			for i := range fill {
				fill[i] = byte(nonce+i) | 1
			}
			p.UpdateOption(dhcpv4.OptGeneric(dhcpv4.GenericOptionCode(fillOpt4), fill))
			if len(p.ToBytes()) == target {
				break
			}
			p.Options.Del(dhcpv4.GenericOptionCode(fillOpt4))
		}
	}
	return p.ToBytes()
}

func resp4(p *dhcpv4.DHCPv4) Resp {
	if p == nil {
		return Resp{Nil: true, Nonce: -1}
	}
	r := Resp{Type: int(p.MessageType()), Xid: binary.BigEndian.Uint32(p.TransactionID[:]), Op: int(p.OpCode), HW: string(p.ClientHWAddr), Nonce: -1}
	if v := p.Options.Get(dhcpv4.GenericOptionCode(nonceOpt4)); len(v) == 4 {
		r.Nonce = int(binary.BigEndian.Uint32(v))
		r.Damaged = !bytes.Equal(p.Options.Get(dhcpv4.GenericOptionCode(tailOpt4)), Tail(r.Nonce))
	}
	r.Again = func() Resp { return resp4(p) }
	r.Own = func(mode int, xid uint32) {
		if mode == 2 {
			mon.Scribble(p)
		}
		binary.BigEndian.PutUint32(p.TransactionID[:], xid)
	}
	return r
}

func (c *c4) SendAndRead(ctx context.Context, dest *net.UDPAddr, req Req, m MatchFn) (Resp, bool, error) {
	var mm nclient4.Matcher
	if m != nil {
		mm = func(p *dhcpv4.DHCPv4) bool { return m(resp4(p)) }
	}
	if req.Lib != nil {
		lm := nclient4.IsMessageType(dhcpv4.MessageType(req.Lib.First), req.Lib.Rest.v4...)
		mm = func(p *dhcpv4.DHCPv4) bool {
			if m != nil {
				m(resp4(p))
			}
			return lm(p)
		}
	}
	p, err := c.c.SendAndRead(ctx, dest, req.V4, mm)
	return resp4(p), p != nil, err
}
func (c *c4) Close() error { return c.c.Close() }

func (V4) IsNoResponse(err error) bool { return errors.Is(err, nclient4.ErrNoResponse) }
func (V4) IsInUse(err error) bool {
	var e *nclient4.ErrTransactionIDInUse
	return errors.As(err, &e)
}

// ---------------- DHCPv6 ----------------

type V6 struct{}

func (V6) Name() string    { return "nclient6" }
func (V6) AcceptType() int { return int(dhcpv6.MessageTypeReply) }
func (V6) OtherType() int  { return int(dhcpv6.MessageTypeAdvertise) }
func (V6) Classes() []string {
	return []string{"matching", "other-type", "wrong-xid", "relay-typed", "relay-wrapped", "undecodable", "empty"}
}
func (V6) SetHook(h func(string)) { setHook6(h) }

type c6 struct{ c *nclient6.Client }

func (f V6) New(conn net.PacketConn, T time.Duration, tries int) (Client, error) {
	return f.NewCfg(conn, T, tries, 0)
}

func (V6) NewCfg(conn net.PacketConn, T time.Duration, tries int, cfg int) (Client, error) {
	opts := []nclient6.ClientOpt{nclient6.WithTimeout(T), nclient6.WithRetry(tries)}
	switch cfg % NCfg {
	case 1:
		opts = append(opts, nclient6.WithLogDroppedPackets())
	case 2:
		opts = append(opts, nclient6.WithLogDroppedPackets(), nclient6.WithSummaryLogger())
	case 3:
		opts = append(opts, nclient6.WithLogDroppedPackets(), nclient6.WithDebugLogger(), nclient6.WithBroadcastAddr(&net.UDPAddr{IP: net.ParseIP("2001:db8::547"), Port: 5470}))
	}
	restore := quietStderr()
	c, err := nclient6.NewWithConn(conn, HW, opts...)
	restore()
	if err != nil {
		return nil, err
	}
	return &c6{c}, nil
}

func xid6(x uint32) dhcpv6.TransactionID {
	return dhcpv6.TransactionID{byte(x >> 16), byte(x >> 8), byte(x)}
}

func (V6) Request(xid uint32, extra int) Req {
	// what kind of message is sent is the caller's business (the clients only transport it): by transaction id and size
	// variation the requests are Solicits, Requests, Renews, Rebinds, Information-requests, Confirms, Releases, Declines
	mt := []dhcpv6.MessageType{dhcpv6.MessageTypeSolicit, dhcpv6.MessageTypeRequest, dhcpv6.MessageTypeSolicit, dhcpv6.MessageTypeRenew, dhcpv6.MessageTypeRebind,
		dhcpv6.MessageTypeInformationRequest, dhcpv6.MessageTypeConfirm, dhcpv6.MessageTypeRelease, dhcpv6.MessageTypeDecline}[(int(xid%7)+extra)%9]
	m := &dhcpv6.Message{MessageType: mt, TransactionID: xid6(xid)}
	m.AddOption(dhcpv6.OptElapsedTime(0))
	// options in the order a client adds them, not in ascending code order (what is sent is what the caller built)
	m.AddOption(dhcpv6.OptRequestedOption(dhcpv6.OptionDNSRecursiveNameServer, dhcpv6.OptionDomainSearchList))
	m.AddOption(dhcpv6.OptClientID(&dhcpv6.DUIDLL{HWType: 1, LinkLayerAddr: HW}))
	if extra > 0 {
		m.AddOption(&dhcpv6.OptionGeneric{OptionCode: 65002, OptionData: make([]byte, extra%200)})
	}
	return Req{V6: m, Xid: xid & 0xffffff}
}

func (V6) Datagram(class string, xid uint32, nonce int, msgType int) []byte {
	m := &dhcpv6.Message{MessageType: dhcpv6.MessageType(msgType), TransactionID: xid6(xid)}
	var nb [4]byte
	binary.BigEndian.PutUint32(nb[:], uint32(nonce))
	m.AddOption(&dhcpv6.OptionGeneric{OptionCode: nonceOpt6, OptionData: nb[:]})
	m.AddOption(&dhcpv6.OptionGeneric{OptionCode: tailOpt6, OptionData: Tail(nonce)})
	// identifiers as servers put them in (behind the harness' own options): the client's identifier echoed, another
	// client's (whose reply this is is decided by the transaction id), none; a server identifier
	switch nonce % 5 {
	case 0:
		m.AddOption(dhcpv6.OptClientID(&dhcpv6.DUIDLL{HWType: 1, LinkLayerAddr: HW}))
	case 1:
		m.AddOption(dhcpv6.OptClientID(&dhcpv6.DUIDLL{HWType: 1, LinkLayerAddr: OtherHW}))
		m.AddOption(dhcpv6.OptServerID(&dhcpv6.DUIDEN{EnterpriseNumber: 9, EnterpriseIdentifier: []byte{1, 2, 3}}))
	case 2:
		m.AddOption(dhcpv6.OptServerID(&dhcpv6.DUIDLL{HWType: 1, LinkLayerAddr: OtherHW}))
	}
	switch class {
	case "wrong-xid":
		m.TransactionID = xid6(xid ^ 0x5a0000)
	case "relay-typed":
		b := make([]byte, 34)
		b[0] = 13
		return append(b, 0, 9, 0, byte(len(m.ToBytes())))[:34]
	case "relay-wrapped":
		// a well-formed Relay-reply (nested once or twice) whose innermost message is the matching reply: relay
		// messages are exchanged between relay agents and servers; a client never gets one, and what it carries did
		// not arrive as a datagram for the client
		b := m.ToBytes()
		for k := 0; k <= nonce%2; k++ {
			h := make([]byte, 34)
			h[0], h[1] = 13, byte(k)
			h[17], h[33] = 1, 2
			b = append(append(h, 0, 9, byte(len(b)>>8), byte(len(b))), b...)
		}
		return b
	case "undecodable":
		b := m.ToBytes()
		return b[:len(b)-2]
	case "empty":
		return []byte{}
	}
	if nonce%9 == 4 || nonce%9 == 7 { // as large as the client's receive buffer (1500 octets), and one less
		target := 1500 - (nonce%9-4)/3
		if n := target - len(m.ToBytes()) - 4; n >= 0 {
			fill := make([]byte, n)
			for i := range fill {
				fill[i] = byte(nonce+i) | 1
			}
			m.AddOption(&dhcpv6.OptionGeneric{OptionCode: fillOpt6, OptionData: fill})
		}
	}
	return m.ToBytes()
}

func resp6(m *dhcpv6.Message) Resp {
	if m == nil {
		return Resp{Nil: true, Nonce: -1}
	}
	r := Resp{Type: int(m.MessageType), Xid: uint32(m.TransactionID[0])<<16 | uint32(m.TransactionID[1])<<8 | uint32(m.TransactionID[2]), Nonce: -1}
	if o := m.GetOneOption(nonceOpt6); o != nil {
		if v := o.ToBytes(); len(v) == 4 {
			r.Nonce = int(binary.BigEndian.Uint32(v))
			t := m.GetOneOption(tailOpt6)
			r.Damaged = t == nil || !bytes.Equal(t.ToBytes(), Tail(r.Nonce))
		}
	}
	r.Again = func() Resp { return resp6(m) }
	r.Own = func(mode int, xid uint32) {
		if mode == 2 {
			mon.Scribble(m)
		}
		m.TransactionID = dhcpv6.TransactionID{byte(xid >> 16), byte(xid >> 8), byte(xid)}
	}
	return r
}

func (c *c6) SendAndRead(ctx context.Context, dest *net.UDPAddr, req Req, m MatchFn) (Resp, bool, error) {
	var mm nclient6.Matcher
	if m != nil {
		mm = func(p *dhcpv6.Message) bool { return m(resp6(p)) }
	}
	if req.Lib != nil {
		lm := nclient6.IsMessageType(dhcpv6.MessageType(req.Lib.First), req.Lib.Rest.v6...)
		mm = func(p *dhcpv6.Message) bool {
			if m != nil {
				m(resp6(p))
			}
			return lm(p)
		}
	}
	p, err := c.c.SendAndRead(ctx, dest, req.V6, mm)
	return resp6(p), p != nil, err
}
func (c *c6) Close() error { return c.c.Close() }

func (V6) IsNoResponse(err error) bool { return errors.Is(err, nclient6.ErrNoResponse) }

// IsInUse: nclient6 refuses a pending transaction id with an untyped error; so as not to depend on its text, every
// error that is neither the no-response error, a context error nor a closed-connection error counts as a refusal
// (the checkers additionally require that a refused call transmitted nothing).
func (V6) IsInUse(err error) bool {
	if err == nil || errors.Is(err, nclient6.ErrNoResponse) || errors.Is(err, context.Canceled) || errors.Is(err, context.DeadlineExceeded) {
		return false
	}
	if errors.Is(err, net.ErrClosed) || containsStr(err.Error(), "use of closed network connection") {
		return false
	}
	return true
}

func containsStr(s, sub string) bool {
	for i := 0; i+len(sub) <= len(s); i++ {
		if s[i:i+len(sub)] == sub {
			return true
		}
	}
	return false
}
