//go:build !verif

package cli

func setHook4(h func(string)) {}
func setHook6(h func(string)) {}

const HooksEnabled = false
