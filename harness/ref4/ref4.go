// Package ref4 is an independent DHCPv4 reference decoder and wire-format
// validator written from RFC 2131 §2, RFC 2132 §2, RFC 3396 and RFC 3046 §2.1.
// It imports nothing from the module under test.
package ref4

import (
	"bytes"
	"fmt"
	"sort"
	"strconv"
	"strings"
)

// P4 is the decoded form of a DHCPv4 packet.
type P4 struct {
	Op, HType, HLen, Hops byte
	Xid                   [4]byte
	Secs, Flags           uint16
	CI, YI, SI, GI        [4]byte
	CHAddr                []byte // first min(hlen,16) bytes of chaddr
	SName, File           string // cut at first NUL
	Opts                  map[byte][]byte
	// Order in which option instances appeared (code, len) - used by the validator.
	Instances []Inst
	Pads      int  // pad bytes before End
	Trailing  int  // bytes after End
	TrailNZ   bool // a non-zero byte after End
}

type Inst struct {
	Code byte
	Len  int
}

var Cookie = []byte{99, 130, 83, 99}

// Decode decides acceptance per the C04 statement.  ok=false ⇒ reason says why.
func Decode(b []byte) (p *P4, ok bool, reason string) {
	if len(b) < 236 {
		return nil, false, "short-header"
	}
	if len(b) < 240 {
		return nil, false, "short-cookie"
	}
	if !bytes.Equal(b[236:240], Cookie) {
		return nil, false, "bad-cookie"
	}
	p = &P4{Op: b[0], HType: b[1], HLen: b[2], Hops: b[3], Opts: map[byte][]byte{}}
	copy(p.Xid[:], b[4:8])
	p.Secs = uint16(b[8])<<8 | uint16(b[9])
	p.Flags = uint16(b[10])<<8 | uint16(b[11])
	copy(p.CI[:], b[12:16])
	copy(p.YI[:], b[16:20])
	copy(p.SI[:], b[20:24])
	copy(p.GI[:], b[24:28])
	hl := int(p.HLen)
	if hl > 16 {
		hl = 16
	}
	p.CHAddr = append([]byte{}, b[28:28+hl]...)
	p.SName = cutNul(b[44:108])
	p.File = cutNul(b[108:236])
	area := b[240:]
	if len(area) == 0 {
		return p, true, ""
	}
	i := 0
	for {
		if i >= len(area) {
			return nil, false, "no-end"
		}
		c := area[i]
		i++
		if c == 0 {
			p.Pads++
			continue
		}
		if c == 255 {
			break
		}
		if i >= len(area) {
			return nil, false, "missing-length"
		}
		l := int(area[i])
		i++
		if i+l > len(area) {
			return nil, false, "option-overrun"
		}
		p.Opts[c] = append(p.Opts[c], area[i:i+l]...)
		if p.Opts[c] == nil {
			p.Opts[c] = []byte{}
		}
		p.Instances = append(p.Instances, Inst{c, l})
		i += l
	}
	p.Trailing = len(area) - i
	for _, x := range area[i:] {
		if x != 0 {
			p.TrailNZ = true
		}
	}
	return p, true, ""
}

func cutNul(b []byte) string {
	if i := bytes.IndexByte(b, 0); i >= 0 {
		return string(b[:i])
	}
	return string(b)
}

// Canon renders the semantic content (header fields + option map) canonically.
func (p *P4) Canon() string {
	var sb strings.Builder
	fmt.Fprintf(&sb, "op=%d ht=%d hops=%d xid=%x secs=%d flags=%d ci=%x yi=%x si=%x gi=%x ch=%x sname=%q file=%q opts[",
		p.Op, p.HType, p.Hops, p.Xid, p.Secs, p.Flags, p.CI, p.YI, p.SI, p.GI, p.CHAddr, p.SName, p.File)
	codes := make([]int, 0, len(p.Opts))
	for c := range p.Opts {
		codes = append(codes, int(c))
	}
	sort.Ints(codes)
	for _, c := range codes {
		fmt.Fprintf(&sb, " %d=%x", c, p.Opts[byte(c)])
	}
	sb.WriteString(" ]")
	return sb.String()
}

// Shape is a coarse class of the options area used for distinct counting.
func (p *P4) Shape() string {
	var sb strings.Builder
	for _, in := range p.Instances {
		sb.WriteString(codeClass(in.Code))
		sb.WriteString(lenClass(in.Len))
		sb.WriteByte(',')
	}
	fmt.Fprintf(&sb, "pads=%d trail=%v hlen=%d", min(p.Pads, 3), p.Trailing > 0, len(p.CHAddr))
	return sb.String()
}

func codeClass(c byte) string {
	switch c {
	case 53, 61, 82, 55, 54, 50, 51, 119, 121:
		return strconv.Itoa(int(c))
	}
	return "c"
}

func lenClass(l int) string {
	switch {
	case l == 0:
		return ":0"
	case l < 255:
		return ":s"
	}
	return ":255"
}

// Validate checks the canonical wire layout promised by C07: ≥300 bytes,
// header, cookie, options ascending by code with 82 last, instances of one code
// adjacent, every instance but the last of a code exactly 255 bytes, exactly
// one End, only zero padding after it, no pad before End.
func Validate(b []byte) error {
	if len(b) < 300 {
		return fmt.Errorf("length %d < 300", len(b))
	}
	p, ok, why := Decode(b)
	if !ok {
		return fmt.Errorf("reference decoder rejects: %s", why)
	}
	if p.Pads != 0 {
		return fmt.Errorf("%d pad bytes before End", p.Pads)
	}
	if p.TrailNZ {
		return fmt.Errorf("non-zero byte after End")
	}
	// order and adjacency
	rank := func(c byte) int {
		if c == 82 {
			return 1000
		}
		return int(c)
	}
	seen := map[byte]bool{}
	var prev *Inst
	for k := range p.Instances {
		in := p.Instances[k]
		if prev != nil {
			if in.Code == prev.Code {
				if prev.Len != 255 {
					return fmt.Errorf("option %d split after an instance of %d bytes (must be 255)", in.Code, prev.Len)
				}
			} else {
				if seen[in.Code] {
					return fmt.Errorf("instances of option %d are not adjacent", in.Code)
				}
				if rank(in.Code) < rank(prev.Code) {
					return fmt.Errorf("option %d after option %d: not ascending (82 last)", in.Code, prev.Code)
				}
			}
		}
		if in.Len == 0 && prev != nil && prev.Code == in.Code {
			return fmt.Errorf("empty continuation instance of option %d", in.Code)
		}
		seen[in.Code] = true
		prev = &p.Instances[k]
	}
	return nil
}
