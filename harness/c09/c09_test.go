package c09

import (
	"fmt"
	"math/rand/v2"
	"os"
	"runtime"
	"sort"
	"sync/atomic"
	"testing"
	"time"

	"github.com/insomniacslk/dhcp/dhcpv4"
	"github.com/insomniacslk/dhcp/dhcpv6"
	"verif/harness/gen4"
	"verif/harness/gen6"
	"verif/harness/mon"
	"verif/harness/ref6"
)

type replay struct {
	Family string `json:"family"`
	N      int    `json:"n"`
	Fam    string `json:"fam"`
	Input  string `json:"input,omitempty"` // only for mutated inputs
	// AfterBig > 0: the input was measured right after a large datagram had been decoded in the same process
	// (1, 3: a flat list of 16k options; 2: a long list inside an IA_NA followed by empty IA_NAs; DHCPv4: 21k options)
	AfterBig int `json:"after_big,omitempty"`
}

func tlv(code int, v []byte) []byte {
	return append([]byte{byte(code >> 8), byte(code), byte(len(v) >> 8), byte(len(v))}, v...)
}

func longName() []byte { // 31 labels of 7 bytes: 249 octets + root = 250 octets on the wire
	var v []byte
	for i := 0; i < 31; i++ {
		v = append(v, 7, 'l', 'o', 'n', 'g', 'l', 'b', 'l')
	}
	return append(v, 0)
}

func ptrFan(n int) []byte {
	v := longName()
	for len(v)+2 <= n {
		v = append(v, 0xC0, 0)
	}
	return v
}

// ptrChainFan: links "label + pointer to the previous link" in the first third of the n bytes (the first link ends in a
// root octet), pointers to the last link in the rest.  kind 0: 63-octet labels, kind 1: 3-octet labels.
func ptrChainFan(n, kind int) []byte {
	ll := 63
	if kind == 1 {
		ll = 3
	}
	var v []byte
	prev := -1
	for len(v)+1+ll+2 <= n/3 && len(v) < 0x3f00 {
		start := len(v)
		v = append(v, byte(ll))
		for i := 0; i < ll; i++ {
			v = append(v, byte('a'+i%26))
		}
		if prev < 0 {
			v = append(v, 0)
		} else {
			v = append(v, 0xC0|byte(prev>>8), byte(prev))
		}
		prev = start
	}
	for prev >= 0 && len(v)+2 <= n {
		v = append(v, 0xC0|byte(prev>>8), byte(prev))
	}
	return v
}

func bigFlat6() []byte { // 16k minimal options in one list
	b := []byte{1, 1, 2, 3}
	for len(b)+4 <= 65000 {
		b = append(b, 0, byte(14+len(b)%3), 0, 0)
	}
	return b
}

func bigDeep6() []byte { // a long list nested in an IA_NA, followed by empty IA_NAs
	in := []byte{}
	for len(in)+4 <= 30000 {
		in = append(in, 0, 14, 0, 0)
	}
	b := msg6(tlv(3, append(make([]byte, 12), in...)))
	for len(b)+16 <= 60000 {
		b = append(b, tlv(3, make([]byte, 12))...)
	}
	return b
}

func bigV4() []byte {
	w := make([]byte, 240, 65000)
	w[0], w[1], w[2] = 1, 1, 6
	copy(w[236:], []byte{99, 130, 83, 99})
	for i := 0; len(w)+3 <= 64000; i++ {
		w = append(w, byte(1+i%250), 1, byte(i))
	}
	return append(w, 255)
}

// hdr: the fixed part of a container option, its octets depending on the level (so that no two levels are equal);
// for the IA Prefix layout (25 octets) the prefix length stays within 0..128
func hdr(size, level int) []byte {
	h := make([]byte, size)
	for i := range h {
		h[i] = byte(level>>(8*(i%3))) ^ byte(i*29)
	}
	if size == 25 {
		h[8] = byte(level % 129)
	}
	return h
}

// nest: container options (code, fixed-part size) nested in one another, cycling through kinds, up to n octets
func nest(n int, kinds [][2]int) []byte {
	v := []byte{}
	for l := 0; ; l++ {
		k := kinds[l%len(kinds)]
		if len(v)+4+k[1] > n {
			return v
		}
		v = tlv(k[0], append(hdr(k[1], l), v...))
	}
}

// siblings: options of one code with a fixed part of the given size, every one different, up to n octets
func siblings(n, code, size int) []byte {
	var v []byte
	for l := 0; len(v)+4+size <= n; l++ {
		v = append(v, tlv(code, hdr(size, l+1))...)
	}
	return v
}

// labelChain: one name of n/2 one-octet labels ended by the root octet
func labelChain(n int) []byte {
	var v []byte
	for len(v)+3 <= n {
		v = append(v, 1, 'a')
	}
	return append(v, 0)
}

func msg6(opts []byte) []byte { return append([]byte{1, 0xa, 0xb, 0xc}, opts...) }

type family struct {
	name      string
	fam       string // "v6" | "v4"
	deepening bool   // nesting depth grows with n
	build     func(n int) []byte
}

var families = []family{
	{"ptrfan-domainsearch", "v6", false, func(n int) []byte { return msg6(tlv(24, ptrFan(n-8))) }},
	{"ptrfan-ntp-fqdn", "v6", false, func(n int) []byte { return msg6(tlv(56, tlv(3, ptrFan(n-12)))) }},
	{"ptrfan-fqdn", "v6", false, func(n int) []byte { return msg6(tlv(39, append([]byte{0}, ptrFan(n-9)...))) }},
	{"ptrfan-overlong-name", "v6", false, func(n int) []byte { // a name longer than 255 octets followed by pointers (must be rejected cheaply)
		var v []byte
		for i := 0; i < 40; i++ {
			v = append(v, 7, 'l', 'o', 'n', 'g', 'l', 'b', 'l')
		}
		v = append(v, 0)
		for len(v)+2 <= n-8 {
			v = append(v, 0xC0, 0)
		}
		return msg6(tlv(24, v))
	}},
	// chains of compression pointers: every link is one 63-octet label followed by a pointer to the previous link, then a
	// fan of pointers to the last link.  A decoder that follows chains must carry the 255-octet budget across the hops;
	// one that does not follow them rejects the second link.  Either way the cost stays small.
	{"ptrchain-fan", "v6", false, func(n int) []byte { return msg6(tlv(24, ptrChainFan(n-8, 0))) }},
	{"ptrchain-fan-short-links", "v6", false, func(n int) []byte { return msg6(tlv(56, tlv(3, ptrChainFan(n-12, 1)))) }},
	// a compression pointer whose target is an over-long chain of one-octet labels: forward (pointer first) and backward
	// (chain first, then names that point into it at many offsets)
	{"ptr-to-long-chain-forward", "v6", false, func(n int) []byte {
		v := []byte{0xC0, 2}
		for len(v)+2 <= n-8 {
			v = append(v, 1, 'a')
		}
		return msg6(tlv(24, v))
	}},
	{"ptr-to-long-chain-backward", "v6", false, func(n int) []byte {
		var v []byte
		for len(v)+2 <= (n-8)/2 {
			v = append(v, 1, 'a')
		}
		v = append(v, 0)
		for off := 0; len(v)+4 <= n-8; off = (off + 2) % 0x3ffe {
			v = append(v, 1, 'b', 0xC0|byte(off>>8), byte(off))
		}
		return msg6(tlv(24, v))
	}},
	{"unterminated-label-chain", "v6", false, func(n int) []byte {
		var v []byte
		for len(v)+2 <= n-8 {
			v = append(v, 1, 'a')
		}
		return msg6(tlv(24, v))
	}},
	// name-bearing options the pinned library has no type for (AFTR-Name 64, SIP domain list 21, access domain 57, NIS
	// domain 29): a decoder added for one of them is held to the same bound as the rest -- one terminated chain of
	// thousands of one-octet labels, and thousands of short terminated names
	// thousands of minimal Option Request options naming a high code each (the cost of an option is a matter of its
	// length, not of the numbers in it); a pointer fan spelled with capitals, inside forty relay levels (what is re-encoded
	// is what was received, every level copies it once)
	{"oro-options-high-codes", "v6", false, func(n int) []byte {
		var v []byte
		for i := 0; len(v)+6 <= n-4; i++ {
			c := []int{256, 65535, 0x0100, 0x8000, 300 + i%4000}[i%5]
			v = append(v, tlv(6, []byte{byte(c >> 8), byte(c)})...)
		}
		return msg6(v)
	}},
	{"ptrfan-capitals-in-relays", "v6", true, func(n int) []byte {
		levels := min(40, n/100)
		f := ptrFan(max(16, n-8-levels*38))
		for i := range f {
			if f[i] >= 'a' && f[i] <= 'z' && i%3 == 0 {
				f[i] -= 32
			}
		}
		m := msg6(tlv(24, f))
		for k := 0; k < levels && len(m)+38 <= n; k++ {
			h := make([]byte, 34)
			h[0], h[1] = 12, byte(k)
			m = append(h, tlv(9, m)...)
		}
		return m
	}},
	{"label-chain-aftr-name", "v6", false, func(n int) []byte { return msg6(tlv(64, labelChain(n-8))) }},
	{"label-chain-sip-domains", "v6", false, func(n int) []byte { return msg6(tlv(21, labelChain(n-8))) }},
	{"short-names-untyped-codes", "v6", false, func(n int) []byte {
		var v []byte
		for i := 0; len(v)+4+7 <= n-4; i++ {
			v = append(v, tlv([]int{64, 21, 57, 29, 30, 33, 58, 65}[i%8], []byte{1, 'a', 2, 'b', 'c', 0, 0}[:6+i%2])...)
		}
		return msg6(v)
	}},
	{"many-short-names", "v6", false, func(n int) []byte {
		var v []byte
		for len(v)+3 <= n-8 {
			v = append(v, 1, 'a', 0)
		}
		return msg6(tlv(24, v))
	}},
	{"relay-nesting", "v6", true, func(n int) []byte {
		m := []byte{1, 1, 2, 3}
		for len(m)+38 <= n {
			h := make([]byte, 34)
			h[0] = 12
			m = append(h, tlv(9, m)...)
		}
		return m
	}},
	{"relay-reply-nesting", "v6", true, func(n int) []byte { // the same nest made of Relay-reply headers (type 13)
		m := []byte{7, 1, 2, 3}
		for len(m)+38 <= n {
			h := make([]byte, 34)
			h[0] = 13
			m = append(h, tlv(9, m)...)
		}
		return m
	}},
	{"relay-mixed-nesting", "v6", true, func(n int) []byte { // forward and reply headers alternating, each level with an interface-id
		m := []byte{7, 1, 2, 3}
		for k := 0; len(m)+46 <= n; k++ {
			h := make([]byte, 34)
			h[0] = byte(12 + k%2)
			m = append(h, append(tlv(18, []byte{1, 2, 3, 4}), tlv(9, m)...)...)
		}
		return m
	}},
	// many small identifiers at the front of a large datagram: what is kept per identifier is the identifier, not the
	// rest of the datagram behind it
	{"duid-flood", "v6", false, func(n int) []byte {
		b := []byte{1, 1, 2, 3}
		for i := 0; len(b)+14 <= n; i++ {
			switch i % 4 {
			case 0:
				b = append(b, tlv(1+i%2, []byte{0, 3, 0, 1, 2, 0, 0x5e, 0x10, byte(i >> 8), byte(i)})...) // DUID-LL
			case 1:
				b = append(b, tlv(1+i%2, []byte{0, 1, 0, 1, 9, 9, 9, 9, 2, byte(i)})...) // DUID-LLT
			case 2:
				b = append(b, tlv(1+i%2, []byte{0, 2, 0, 0, 0, 9, 1, 2, 3, byte(i)})...) // DUID-EN
			default:
				b = append(b, tlv(1+i%2, []byte{0, 9, 1, 2, 3, 4, 5, 6, 7, byte(i)})...) // opaque
			}
		}
		return b
	}},
	{"byte-string-flood", "v6", false, func(n int) []byte { // interface-id, remote-id, status, boot file url, client link-layer address: small values, many of them
		b := []byte{1, 1, 2, 3}
		for i := 0; len(b)+12 <= n; i++ {
			code := []int{18, 37, 13, 59, 79}[i%5]
			b = append(b, tlv(code, []byte{0, 0, 0, 9, 'a', 'b', byte(i >> 8), byte(i)})...)
		}
		return b
	}},
	{"ia-nesting", "v6", true, func(n int) []byte {
		v := []byte{}
		for len(v)+8 <= n-4 {
			v = tlv(4, append([]byte{0, 0, 0, 1}, v...))
		}
		return msg6(v)
	}},
	{"iaaddr-nesting", "v6", true, func(n int) []byte {
		v := []byte{}
		for len(v)+28 <= n-4 {
			v = tlv(5, append(make([]byte, 24), v...))
		}
		return msg6(v)
	}},
	{"4rd-nesting", "v6", true, func(n int) []byte {
		v := []byte{}
		for len(v)+4 <= n-4 {
			v = tlv(97, v)
		}
		return msg6(v)
	}},
	// the same nests with a malformed innermost option (elapsed-time of one octet): the decode fails at the bottom
	// and the error travels up through every level -- the cost of a rejected datagram is bounded like any other
	{"relay-nesting-broken", "v6", true, func(n int) []byte {
		m := []byte{1, 1, 2, 3, 0, 8, 0, 1, 0}
		for len(m)+38 <= n {
			h := make([]byte, 34)
			h[0] = 12
			m = append(h, tlv(9, m)...)
		}
		return m
	}},
	{"ia-nesting-broken", "v6", true, func(n int) []byte {
		v := []byte{0, 8, 0, 1, 0}
		for len(v)+8 <= n-4 {
			v = tlv(4, append([]byte{0, 0, 0, 1}, v...))
		}
		return msg6(v)
	}},
	{"iaaddr-nesting-broken", "v6", true, func(n int) []byte {
		v := []byte{0, 8, 0, 1, 0}
		for len(v)+28 <= n-4 {
			v = tlv(5, append(make([]byte, 24), v...))
		}
		return msg6(v)
	}},
	{"4rd-nesting-broken", "v6", true, func(n int) []byte {
		v := []byte{0, 8, 0, 1, 0}
		for len(v)+4 <= n-4 {
			v = tlv(97, v)
		}
		return msg6(v)
	}},
	// every container option nested in itself (and identity associations in their address/prefix options), not only
	// the ones above: IA_NA (3), IA_PD (25), IA Prefix (26), and IA_PD / IA Prefix alternating as in a real delegation
	{"iana-nesting", "v6", true, func(n int) []byte { return msg6(nest(n-4, [][2]int{{3, 12}})) }},
	{"iapd-nesting", "v6", true, func(n int) []byte { return msg6(nest(n-4, [][2]int{{25, 12}})) }},
	{"iaprefix-nesting", "v6", true, func(n int) []byte { return msg6(nest(n-4, [][2]int{{26, 25}})) }},
	{"iapd-iaprefix-nesting", "v6", true, func(n int) []byte { return msg6(nest(n-4, [][2]int{{25, 12}, {26, 25}})) }},
	{"iana-iaaddr-nesting", "v6", true, func(n int) []byte { return msg6(nest(n-4, [][2]int{{3, 12}, {5, 24}})) }},
	{"iaprefix-nesting-broken", "v6", true, func(n int) []byte {
		v := []byte{0, 8, 0, 1, 0}
		for len(v)+29 <= n-4 {
			v = tlv(26, append(hdr(25, len(v)), v...))
		}
		return msg6(v)
	}},
	// many siblings that all differ (distinct IAIDs, addresses, prefixes): what a duplicate check or an index over
	// the siblings would have to work through
	{"iana-siblings", "v6", false, func(n int) []byte { return msg6(siblings(n-4, 3, 12)) }},
	{"iata-siblings", "v6", false, func(n int) []byte { return msg6(siblings(n-4, 4, 4)) }},
	{"iapd-siblings", "v6", false, func(n int) []byte { return msg6(siblings(n-4, 25, 12)) }},
	{"iaaddr-siblings", "v6", false, func(n int) []byte {
		return msg6(tlv(3, append(make([]byte, 12), siblings(n-20, 5, 24)...)))
	}},
	{"iaprefix-siblings", "v6", false, func(n int) []byte {
		return msg6(tlv(25, append(make([]byte, 12), siblings(n-20, 26, 25)...)))
	}},
	{"minimal-options", "v6", false, func(n int) []byte {
		b := []byte{1, 1, 2, 3}
		for len(b)+4 <= n {
			b = append(b, 0, byte(14+len(b)%3), 0, 0)
		}
		return b
	}},
	{"oro-flood", "v6", false, func(n int) []byte {
		v := []byte{}
		for i := 0; len(v)+2 <= n-8; i++ {
			v = append(v, byte(i>>8), byte(i))
		}
		return msg6(tlv(6, v))
	}},
	// class data whose items declare more octets than there are (65535, 4096, one too many), followed by more "items":
	// rejected -- at a cost proportional to what is there, not to what is declared
	{"class-item-overrun", "v6", false, func(n int) []byte {
		v := []byte{}
		for i := 0; len(v)+2 <= n-8; i++ {
			l := []int{0xffff, 0x1000, n, 0x8000}[i%4]
			v = append(v, byte(l>>8), byte(l))
		}
		return msg6(tlv(15, v))
	}},
	{"vendorclass-item-overrun", "v6", false, func(n int) []byte {
		v := []byte{0, 0, 0, 9, 0, 1, 'x'}
		for i := 0; len(v)+2 <= n-8; i++ {
			l := []int{0xffff, 0x1000, 0x7fff}[i%3]
			v = append(v, byte(l>>8), byte(l))
		}
		h := make([]byte, 34)
		h[0] = 12
		return append(h, tlv(9, msg6(tlv(16, v)))...)
	}},
	{"userclass-items", "v6", false, func(n int) []byte {
		v := []byte{}
		for len(v)+2 <= n-8 {
			v = append(v, 0, 0)
		}
		return msg6(tlv(15, v))
	}},
	{"vendorclass-items", "v6", false, func(n int) []byte {
		v := []byte{0, 0, 0, 9}
		for len(v)+3 <= n-8 {
			v = append(v, 0, 1, 'x')
		}
		return msg6(tlv(16, v))
	}},
	// every name-bearing sub-option or item repeated, each with a compressed name of its own (a pointer back into the
	// same sub-option): NTP server FQDN sub-options, and the same names as separate FQDN / search-list options
	{"ntp-fqdn-suboptions-compressed", "v6", false, func(n int) []byte {
		var v []byte
		for len(v)+11 <= n-8 {
			v = append(v, tlv(3, []byte{1, 'x', 0, 1, 'y', 0xC0, 0})...)
		}
		return msg6(tlv(56, v))
	}},
	{"compressed-name-options", "v6", false, func(n int) []byte {
		var v []byte
		for i := 0; len(v)+12 <= n-4; i++ {
			if i%2 == 0 {
				v = append(v, tlv(24, []byte{1, 'x', 0, 1, 'y', 0xC0, 0})...)
			} else {
				v = append(v, tlv(39, []byte{0, 1, 'x', 0, 1, 'y', 0xC0, 0})...)
			}
		}
		return msg6(v)
	}},
	{"bootfileparam-items", "v6", false, func(n int) []byte {
		v := []byte{}
		for len(v)+2 <= n-8 {
			v = append(v, 0, 0)
		}
		return msg6(tlv(60, v))
	}},
	{"vendoropts-suboptions", "v6", false, func(n int) []byte {
		v := []byte{0, 0, 0, 9}
		for len(v)+4 <= n-8 {
			v = append(v, 0, 1, 0, 0)
		}
		return msg6(tlv(17, v))
	}},
	{"ntp-suboptions", "v6", false, func(n int) []byte {
		v := []byte{}
		for len(v)+5 <= n-8 {
			v = append(v, 0, 3, 0, 1, 0)
		}
		return msg6(tlv(56, v))
	}},
	{"dns-addresses", "v6", false, func(n int) []byte { return msg6(tlv(23, make([]byte, (n-8)/16*16))) }},
	{"dhcpv4-in-v6", "v6", false, func(n int) []byte {
		w := make([]byte, 240)
		copy(w[236:], []byte{99, 130, 83, 99})
		for len(w)+3 <= n-9 {
			w = append(w, 1, 1, 'a')
		}
		return msg6(tlv(87, append(w, 255)))
	}},
	{"v4-repeated-option", "v4", false, func(n int) []byte {
		w := make([]byte, 240)
		copy(w[236:], []byte{99, 130, 83, 99})
		for len(w)+3 <= n-1 {
			w = append(w, 7, 1, 'a')
		}
		return append(w, 255)
	}},
	{"v4-repeated-max-option", "v4", false, func(n int) []byte {
		w := make([]byte, 240)
		copy(w[236:], []byte{99, 130, 83, 99})
		for len(w)+257 <= n-1 {
			w = append(w, 7, 255)
			w = append(w, make([]byte, 255)...)
		}
		return append(w, 255)
	}},
	{"v4-empty-options", "v4", false, func(n int) []byte {
		w := make([]byte, 240)
		copy(w[236:], []byte{99, 130, 83, 99})
		for i := 0; len(w)+2 <= n-1; i++ {
			w = append(w, byte(1+i%254), 0)
		}
		return append(w, 255)
	}},
	{"v4-domainsearch-ptrfan", "v4", false, func(n int) []byte {
		w := make([]byte, 240)
		copy(w[236:], []byte{99, 130, 83, 99})
		v := ptrFan(n - 250 - (n/255)*2)
		for len(v) > 0 {
			k := min(len(v), 255)
			w = append(w, 119, byte(k))
			w = append(w, v[:k]...)
			v = v[k:]
		}
		return append(w, 255)
	}},
}

type cost struct {
	n, depth              int
	accepted              bool
	decAlloc, encAlloc    int64
	decMallocs, encMalloc int64
	retained              int64
	outLen                int // length of the re-encoding
}

var sink any

// measure decodes (and, if accepted, re-encodes) one input in this single goroutine and reads the cumulative allocation counters around it.
var curStart atomic.Int64
var curCase atomic.Pointer[replay]

func measure(fam string, b []byte) cost {
	curStart.Store(time.Now().UnixNano())
	defer curStart.Store(0)
	c := cost{n: len(b), depth: 1}
	if fam == "v6" {
		c.depth = max(1, ref6.Decode(b).MaxDepth)
	}
	var m0, m1, m2 runtime.MemStats
	runtime.ReadMemStats(&m0)
	var v4 *dhcpv4.DHCPv4
	var v6 dhcpv6.DHCPv6
	var err error
	if fam == "v4" {
		v4, err = dhcpv4.FromBytes(b)
		if err == nil {
			// the search-domain accessor is where DHCPv4 names are expanded
			sink = v4.DomainSearch()
		}
	} else {
		v6, err = dhcpv6.FromBytes(b)
	}
	runtime.ReadMemStats(&m1)
	c.decAlloc = int64(m1.TotalAlloc - m0.TotalAlloc)
	c.decMallocs = int64(m1.Mallocs - m0.Mallocs)
	if err != nil {
		return c
	}
	c.accepted = true
	var out []byte
	if fam == "v4" {
		out = v4.ToBytes()
	} else {
		out = v6.ToBytes()
	}
	runtime.ReadMemStats(&m2)
	c.encAlloc = int64(m2.TotalAlloc - m1.TotalAlloc)
	c.encMalloc = int64(m2.Mallocs - m1.Mallocs)
	c.outLen = len(out)
	sink = out
	if fam == "v4" {
		c.retained = mon.DeepSize(v4) + mon.DeepSize(sink)
		sink = v4.DomainSearch()
		c.retained += mon.DeepSize(sink)
	} else {
		c.retained = mon.DeepSize(v6)
	}
	return c
}

// judge applies the absolute bounds of bounds.go.
func judge(r *mon.Rec, rp replay, c cost) bool {
	r.Eval(1)
	n, d := int64(c.n), int64(c.depth)
	ka, kd, kr := Ka, Kd, Kr
	if fb, ok := famBounds[rp.Family]; ok {
		ka, kd, kr = fb[0], fb[1], fb[2]
	}
	boundAlloc := ka*n + kd*n*d/100 + Ca
	boundRet := kr*n + Cr
	total := c.decAlloc + c.encAlloc
	r.Max("alloc_per_input_byte_x100."+rp.Family, total*100/max(n, 1))
	r.Max("retained_per_input_byte_x100."+rp.Family, c.retained*100/max(n, 1))
	r.Max("alloc_percent_of_bound", total*100/boundAlloc)
	r.Max("retained_percent_of_bound", c.retained*100/boundRet)
	if total > boundAlloc {
		r.Violate("C09:alloc-bound:"+rp.Family, fmt.Sprintf("family %s n=%d depth=%d: decode allocates %d B + re-encode %d B = %d B, bound %d*n + %d/100*n*d + %d = %d B", rp.Family, c.n, c.depth, c.decAlloc, c.encAlloc, total, ka, kd, Ca, boundAlloc), rp)
		return false
	}
	// the re-encoding of what was decoded is of the size of what was received (a canonical form may add a root octet here,
	// padding there; it does not multiply)
	if c.accepted && int64(c.outLen) > 4*n+1024 {
		r.Violate("C09:reencoding-size:"+rp.Family, fmt.Sprintf("family %s n=%d: the decoded value re-encodes to %d octets, more than 4*n+1024", rp.Family, c.n, c.outLen), rp)
		return false
	}
	if c.retained > boundRet {
		r.Violate("C09:retained-bound:"+rp.Family, fmt.Sprintf("family %s n=%d: decoded value retains %d B, bound %d*n + %d = %d B", rp.Family, c.n, c.retained, kr, Cr, boundRet), rp)
		return false
	}
	lg := 0
	for x := total / max(n, 1); x > 1; x /= 2 {
		lg++
	}
	r.Shape(fmt.Sprintf("%s/n%d/lg%d/acc%v", rp.Family, sizeClass(c.n), lg, c.accepted), total/max(n, 1) >= 64 || c.depth >= 8)
	return true
}

func sizeClass(n int) int {
	k := 0
	for n > 256 {
		n /= 4
		k++
	}
	return k
}

var sizes = []int{64, 128, 256, 1024, 4096, 16384, 65507}

func runFamily(r *mon.Rec, f family) {
	costs := map[int]cost{}
	for _, n := range sizes {
		// ladder: the next rung is run only if the extrapolated cost stays under 8 GB of cumulative allocation
		if prev, ok := costs[n/4]; ok && n > 1024 {
			if pp, ok2 := costs[n/16]; ok2 && pp.decAlloc+pp.encAlloc > 0 {
				growth := float64(prev.decAlloc+prev.encAlloc) / float64(pp.decAlloc+pp.encAlloc)
				if float64(prev.decAlloc+prev.encAlloc)*growth > 8e9 {
					r.Violate("C09:ladder-stop:"+f.name, fmt.Sprintf("family %s: cost grows %.1fx per 4x size at n=%d; next rung would exceed 8 GB", f.name, growth, n/4), replay{Family: f.name, N: n / 4, Fam: f.fam})
					return
				}
			}
		}
		b := f.build(n)
		curCase.Store(&replay{Family: f.name, N: n, Fam: f.fam})
		c := measure(f.fam, b)
		costs[n] = c
		if !judge(r, replay{Family: f.name, N: n, Fam: f.fam}, c) {
			return
		}
		if r.NSamples() < 6 && n == 4096 {
			r.Sample(map[string]any{"family": f.name, "n": c.n, "depth": c.depth, "accepted": c.accepted, "decode_alloc": c.decAlloc, "encode_alloc": c.encAlloc, "retained": c.retained, "decode_mallocs": c.decMallocs})
		}
	}
	// the bound holds for a datagram whatever was decoded before it: the small sizes once more, each right after a
	// 64 kB datagram with thousands of options / a deep nest has been decoded (and dropped) in the same process
	for k, n := range []int{sizes[0], 256, 1024} {
		var big []byte
		if f.fam == "v4" {
			big = bigV4()
		} else if k%2 == 0 {
			big = bigFlat6()
		} else {
			big = bigDeep6()
		}
		if f.fam == "v4" {
			sink, _ = dhcpv4.FromBytes(big)
		} else {
			sink, _ = dhcpv6.FromBytes(big)
		}
		sink = nil
		b := f.build(n)
		rp := replay{Family: f.name, N: n, Fam: f.fam, AfterBig: k + 1}
		curCase.Store(&rp)
		if !judge(r, rp, measure(f.fam, b)) {
			return
		}
		r.Count("measured_after_a_large_datagram", 1)
	}
	// scaling law between n and 16n (independent of the absolute constants)
	for _, pair := range [][2]int{{1024, 16384}, {4096, 65507}} {
		a, okA := costs[pair[0]]
		b, okB := costs[pair[1]]
		if !okA || !okB {
			continue
		}
		ta, tb := a.decAlloc+a.encAlloc, b.decAlloc+b.encAlloc
		factor := int64(64)
		if f.deepening {
			factor = 1024
		}
		r.Max("scaling_16x_x100."+f.name, tb*100/max(ta, 1))
		if tb > factor*ta+Ca {
			r.Violate("C09:scaling:"+f.name, fmt.Sprintf("family %s: allocation grows from %d B at n=%d to %d B at n=%d (x%.0f for 16x input; allowed x%d)", f.name, ta, pair[0], tb, pair[1], float64(tb)/float64(max(ta, 1)), factor), replay{Family: f.name, N: pair[1], Fam: f.fam})
			return
		}
		if b.retained > 64*a.retained+Cr {
			r.Violate("C09:scaling-retained:"+f.name, fmt.Sprintf("family %s: retained size grows from %d B at n=%d to %d B at n=%d", f.name, a.retained, pair[0], b.retained, pair[1]), replay{Family: f.name, N: pair[1], Fam: f.fam})
			return
		}
	}
}

// climb: seeded hill-climb from the family's 4 kB input, fitness = bytes allocated per input byte.
func climb(r *mon.Rec, f family, steps int) {
	rng := r.Rand("climb."+f.name, 0)
	best := f.build(4096)
	bc := measure(f.fam, best)
	fit := func(c cost) float64 { return float64(c.decAlloc+c.encAlloc) / float64(max(c.n, 1)) }
	var spent int64 // cumulative allocation of this climb: a deterministic safety cap (1.5 TB) besides the step count
	for s := 0; s < steps && spent < 1500e9; s++ {
		var cand []byte
		if f.fam == "v4" {
			cand = gen4.Mutate(rng, best, nil)
		} else {
			cand = gen6.Mutate(rng, best, ref6.Decode(best).LenFields, nil)
		}
		if rng.IntN(4) == 0 { // grow: duplicate a random chunk
			if len(cand) > 8 {
				i := rng.IntN(len(cand) - 4)
				j := i + 1 + rng.IntN(min(64, len(cand)-i-1))
				cand = append(cand[:j:j], append(append([]byte{}, cand[i:j]...), cand[j:]...)...)
			}
		}
		if len(cand) > 65507 {
			cand = cand[:65507]
		}
		if len(cand) < 16 {
			continue
		}
		rp := replay{Family: f.name + "+climb", N: len(cand), Fam: f.fam}
		if len(cand) <= 8192 {
			rp.Input = mon.Hex(cand)
		}
		curCase.Store(&rp)
		c := measure(f.fam, cand)
		spent += c.decAlloc + c.encAlloc
		if !judge(r, rp, c) {
			return
		}
		if fit(c) > fit(bc) {
			best, bc = cand, c
		}
	}
	r.Max("climb_best_alloc_per_byte_x100."+f.name, int64(fit(bc)*100))
}

func init() {
	// every family is judged against constants measured for it (bounds.go); the global constants are for inputs found
	// by the hill-climb only
	for _, f := range families {
		if _, ok := famBounds[f.name]; !ok {
			panic("harness: family " + f.name + " has no entry in bounds.go")
		}
	}
}

func TestCheck(t *testing.T) {
	r := mon.New("C09")
	defer r.Flush()
	var rp replay
	if mon.ReplayCase(&rp) {
		var b []byte
		if rp.Input != "" {
			b = mon.UnHex(rp.Input)
		} else {
			for _, f := range families {
				if f.name == rp.Family {
					b = f.build(rp.N)
				}
			}
		}
		if rp.AfterBig > 0 {
			if rp.Fam == "v4" {
				sink, _ = dhcpv4.FromBytes(bigV4())
			} else if rp.AfterBig%2 == 1 {
				sink, _ = dhcpv6.FromBytes(bigFlat6())
			} else {
				sink, _ = dhcpv6.FromBytes(bigDeep6())
			}
			sink = nil
		}
		judge(r, rp, measure(rp.Fam, b))
		return
	}
	if os.Getenv("VERIF_PRINT") != "" {
		names := []string{}
		for _, f := range families {
			for _, n := range sizes {
				c := measure(f.fam, f.build(n))
				names = append(names, fmt.Sprintf("%-26s n=%6d d=%5d acc=%-5v dec=%10d enc=%10d ret=%9d  alloc/n=%8.1f alloc/(n*d)=%6.2f ret/n=%6.1f", f.name, c.n, c.depth, c.accepted, c.decAlloc, c.encAlloc, c.retained,
					float64(c.decAlloc+c.encAlloc)/float64(c.n), float64(c.decAlloc+c.encAlloc)/float64(c.n)/float64(c.depth), float64(c.retained)/float64(c.n)))
			}
		}
		sort.Strings(names)
		for _, s := range names {
			fmt.Println(s)
		}
		// proposed per-family constants {ka, kd (hundredths), kr}: 4x the measured coefficients.  For families whose depth
		// grows with n the per-level coefficient is read at the largest size and the linear one is what remains at any size.
		for _, f := range families {
			var ka, kd, kr float64
			cs := make([]cost, len(sizes))
			for i, n := range sizes {
				cs[i] = measure(f.fam, f.build(n))
			}
			if f.deepening {
				l := cs[len(cs)-1]
				kd = float64(l.decAlloc+l.encAlloc) / float64(l.n) / float64(l.depth)
				if kd*float64(l.depth) < 8 { // no per-level term to speak of
					kd = 0
				}
			}
			for _, c := range cs {
				t := float64(c.decAlloc+c.encAlloc-4096) - kd*float64(c.n)*float64(c.depth)
				ka = max(ka, t/float64(c.n))
				kr = max(kr, float64(c.retained-2048)/float64(c.n))
			}
			fmt.Printf("\t%q: {%d, %d, %d},\n", f.name, int64(4*ka)+64, int64(400*kd+0.99), int64(4*kr)+16)
		}
		return
	}
	// termination watchdog: a measurement running longer than the limit is handed to the driver for a solo re-run
	go func() {
		for {
			time.Sleep(500 * time.Millisecond)
			if s := curStart.Load(); s != 0 && time.Since(time.Unix(0, s)) > 90*time.Second {
				r.Set("suspect_slow", []any{curCase.Load()})
				r.Inconclusive("a measurement exceeded the in-process time limit; shard aborted, input re-run alone by the driver")
				r.Flush()
				os.Exit(0)
			}
		}
	}()
	steps := r.Pick(2000, 30000)
	for i, f := range families {
		if !r.Mine(i) {
			continue
		}
		runFamily(r, f)
		climb(r, f, steps)
	}
	// committed corpus: every entry is metered too and judged with the global constants
	nc := 0
	for _, ce := range [][2]string{{"v6", "v6"}, {"v4", "v4"}} {
		for i, b := range mon.Corpus(ce[0]) {
			nc++
			if !r.Mine(i) {
				continue
			}
			rp := replay{Family: "corpus-" + ce[0], N: len(b), Fam: ce[1]}
			if len(b) <= 8192 {
				rp.Input = mon.Hex(b)
			}
			curCase.Store(&rp)
			judge(r, rp, measure(ce[1], b))
		}
	}
	r.Set("corpus_entries", nc)
	r.Set("families", len(families))
	r.Set("global_bounds", map[string]int64{"Ka": Ka, "Kd": Kd, "Ca": Ca, "Kr": Kr, "Cr": Cr})
	r.Set("family_bounds_ka_kd_kr", famBounds)
}

var _ = rand.Int
