package c09

// Committed constants of the cost bound (never computed at run time):
//
//	alloc(decode) + alloc(re-encode) <= ka*n + (kd/100)*n*d + Ca        retained(decoded value) <= kr*n + Cr
//
// n = input length, d = option nesting depth reported by the reference parser.
// Per family {ka, kd (in hundredths of a copy per level), kr}: 4x the coefficients measured over the size ladder on the repaired tree:
// for families whose depth grows with n, kd is read at the largest size and ka is what remains at any size
// (go1.26.8, linux/amd64; measured with VERIF_PRINT=1, see DESIGN.md C09).  Inputs found by the hill-climb
// are judged with the global constants, which are the maximum over all families.
const (
	Ca int64 = 16384
	Cr int64 = 8192
	Ka int64 = 33000
	Kd int64 = 1600 // hundredths: 16 copies of the input per nesting level
	Kr int64 = 600
)

var famBounds = map[string][3]int64{
	"ptrfan-domainsearch":  {32847, 0, 548},
	"ptrfan-ntp-fqdn":      {32849, 0, 548},
	"ptrfan-fqdn":          {32854, 0, 548},
	"ptrfan-overlong-name": {123, 0, 16},
	// the pinned decoder rejects pointer chains (measured {342, 0, 118}); the bound is the one of a plain pointer fan,
	// which is what a decoder that follows chains within the 255-octet limit would cost
	"ptrchain-fan":                   {32847, 0, 548},
	"ptrchain-fan-short-links":       {32849, 0, 548},
	"ptr-to-long-chain-forward":      {1014, 0, 16},
	"ptr-to-long-chain-backward":     {5427, 0, 47},
	"unterminated-label-chain":       {1030, 0, 16},
	"many-short-names":               {267, 0, 49},
	"relay-nesting":                  {101, 217, 46},
	"relay-reply-nesting":            {101, 217, 46},
	"relay-mixed-nesting":            {98, 217, 43},
	"duid-flood":                     {151, 0, 37},
	"byte-string-flood":              {133, 0, 33},
	"ia-nesting":                     {175, 648, 111},
	"iaaddr-nesting":                 {105, 648, 50},
	"4rd-nesting":                    {291, 217, 199},
	"relay-nesting-broken":           {98, 2, 16},
	"ia-nesting-broken":              {166, 217, 16},
	"iaaddr-nesting-broken":          {92, 217, 16},
	"4rd-nesting-broken":             {262, 2, 16},
	"iana-nesting":                   {125, 648, 67},
	"iapd-nesting":                   {125, 648, 67},
	"iaprefix-nesting":               {112, 649, 55},
	"iapd-iaprefix-nesting":          {119, 649, 59},
	"iana-iaaddr-nesting":            {111, 648, 56},
	"iaprefix-nesting-broken":        {97, 218, 16},
	"iana-siblings":                  {182, 0, 72},
	"iata-siblings":                  {247, 0, 121},
	"iapd-siblings":                  {182, 0, 72},
	"iaaddr-siblings":                {158, 0, 52},
	"iaprefix-siblings":              {164, 0, 58},
	"ntp-fqdn-suboptions-compressed": {171, 0, 55},
	"compressed-name-options":        {176, 0, 57},
	"label-chain-aftr-name":          {75, 0, 19},
	"label-chain-sip-domains":        {75, 0, 19},
	"short-names-untyped-codes":      {122, 0, 39},
	"oro-options-high-codes":         {195, 0, 53},
	"ptrfan-capitals-in-relays":      {3894, 39451, 537},
	"minimal-options":                {64, 0, 16},
	"oro-flood":                      {103, 0, 20},
	"class-item-overrun":             {483, 0, 16},
	"vendorclass-item-overrun":       {479, 0, 16},
	"userclass-items":                {323, 0, 72},
	"vendorclass-items":              {229, 0, 55},
	"bootfileparam-items":            {250, 0, 54},
	"vendoropts-suboptions":          {202, 0, 71},
	"ntp-suboptions":                 {209, 0, 84},
	"dns-addresses":                  {114, 0, 26},
	"dhcpv4-in-v6":                   {78, 0, 17},
	"v4-repeated-option":             {75, 0, 18},
	"v4-repeated-max-option":         {98, 0, 24},
	"v4-empty-options":               {218, 0, 53},
	"v4-domainsearch-ptrfan":         {16304, 0, 551},
}
