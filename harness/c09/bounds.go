package c09

// Committed constants of the cost bound (never computed at run time):
//
//	alloc(decode) + alloc(re-encode) <= ka*n + kd*n*d + Ca        retained(decoded value) <= kr*n + Cr
//
// n = input length, d = option nesting depth reported by the reference parser.
// Per family {ka, kd, kr}: about 4x the worst ratio measured over the size ladder on the repaired tree
// (go1.26.8, linux/amd64; measured with VERIF_PRINT=1, see DESIGN.md C09).  Inputs found by the hill-climb
// are judged with the global constants, which are the maximum over all families.
const (
	Ca int64 = 16384
	Cr int64 = 8192
	Ka int64 = 33000
	Kd int64 = 16
	Kr int64 = 600
)

var famBounds = map[string][3]int64{
	"ptrfan-domainsearch":      {32847, 4, 548},
	"ptrfan-ntp-fqdn":          {32849, 4, 548},
	"ptrfan-fqdn":              {32855, 4, 548},
	"ptrfan-overlong-name":     {123, 4, 16},
	"unterminated-label-chain": {1030, 4, 16},
	"many-short-names":         {267, 4, 49},
	"relay-nesting":            {64, 6, 46},
	"ia-nesting":               {64, 12, 111},
	"iaaddr-nesting":           {64, 11, 50},
	"4rd-nesting":              {64, 10, 199},
	"minimal-options":          {64, 4, 16},
	"oro-flood":                {103, 4, 20},
	"userclass-items":          {323, 4, 72},
	"vendorclass-items":        {229, 4, 55},
	"bootfileparam-items":      {250, 4, 54},
	"vendoropts-suboptions":    {202, 4, 71},
	"ntp-suboptions":           {209, 4, 84},
	"dns-addresses":            {114, 4, 26},
	"dhcpv4-in-v6":             {78, 4, 17},
	"v4-repeated-option":       {75, 4, 18},
	"v4-repeated-max-option":   {98, 4, 24},
	"v4-empty-options":         {218, 4, 53},
	"v4-domainsearch-ptrfan":   {16304, 4, 551},
}
