package c20

import (
	"fmt"
	"io"
	"log"
	"math/rand/v2"
	"net"
	"os"
	"reflect"
	"sort"
	"strings"
	"sync"
	"testing"
	"time"
	"verif/harness/reflabel"

	"github.com/insomniacslk/dhcp/dhcpv4"
	"github.com/insomniacslk/dhcp/dhcpv6"
	"github.com/insomniacslk/dhcp/iana"
	"github.com/insomniacslk/dhcp/rfc1035label"
	"verif/harness/gen4"
	"verif/harness/gen6"
	"verif/harness/mon"
	"verif/harness/obs"
	"verif/harness/v6util"
)

type replay struct {
	Kind string `json:"kind"`
	Idx  int    `json:"idx"`
}

type op struct {
	path string
	fn   func() string
}

// value under test: a fresh, identical copy is produced by mk() each time it is called.
type subject struct {
	desc string
	mk   func() []op
	nt   bool
}

func render(c obs.Call) func() string {
	return func() string { return obs.Render(c.Fn()) }
}

const preReadPath = "encoding-and-print-as-before-any-read"

// preRead: the value's encoding and printed form taken BEFORE anything else has been called on it (the enumeration of
// its operations calls the getters once to find nested values); the operation compares with what they are now.
func preRead(v any) op {
	snap := func() string {
		var b strings.Builder
		if e, ok := v.(interface{ ToBytes() []byte }); ok {
			fmt.Fprintf(&b, "%x|", safe(func() string { return string(e.ToBytes()) }))
		}
		if e, ok := v.(interface{ Summary() string }); ok {
			b.WriteString(safe(e.Summary))
		} else if e, ok := v.(fmt.Stringer); ok {
			b.WriteString(safe(e.String))
		}
		return b.String()
	}
	before := snap()
	return op{preReadPath, func() string {
		if now := snap(); now != before {
			return fmt.Sprintf("CHANGED: before any read %.300q, now %.300q", before, now)
		}
		return "same"
	}}
}

// withPreRead: set by judge for ONE extra copy of the subject.  The snapshot is itself a first call of ToBytes and of the
// printing method; taken on every copy it would hide what a first call changes from all the other comparisons.
var withPreRead bool

func opsOf(v any, extra ...op) []op {
	var out []op
	if withPreRead {
		out = append(out, preRead(v))
	}
	for _, c := range obs.Enumerate(v, 4) {
		out = append(out, op{c.Path, render(c)})
	}
	switch x := v.(type) {
	case *dhcpv4.DHCPv4:
		for _, h := range obs.V4Helpers(x) {
			out = append(out, op{"helper." + h.Name, h.Fn})
		}
	case dhcpv6.DHCPv6:
		for _, h := range obs.V6Helpers(x) {
			out = append(out, op{"helper." + h.Name, h.Fn})
		}
	}
	return append(out, extra...)
}

func stripIdx(s string) string {
	var sb strings.Builder
	skip := false
	for i := 0; i < len(s); i++ {
		switch {
		case s[i] == '[' || s[i] == '#':
			skip = true
		case skip && s[i] == '.':
			skip = false
			sb.WriteByte('.')
		case skip && s[i] == ']':
			skip = false
		case !skip:
			sb.WriteByte(s[i])
		}
	}
	return sb.String()
}

func safe(f func() string) (s string) {
	defer func() {
		if v := recover(); v != nil {
			s = fmt.Sprintf("PANIC(%v)", v)
		}
	}()
	return f()
}

// evaluate runs all operations of a fresh copy in the given order; returns path -> result.
func evaluate(ops []op, order []int, twice bool) map[string]string {
	res := make(map[string]string, len(ops))
	for _, i := range order {
		r1 := safe(ops[i].fn)
		if twice {
			if r2 := safe(ops[i].fn); r2 != r1 {
				res[ops[i].path] = "UNSTABLE: " + r1 + " then " + r2
				continue
			}
		}
		res[ops[i].path] = r1
	}
	return res
}

func compare0(r *mon.Rec, s subject, rp replay, ref map[string]string, ops []op, order []int) bool {
	got := evaluate(ops, order, false)
	for _, i := range order {
		p := ops[i].path
		if got[p] != ref[p] {
			r.Violate("C20:read-changes-result:"+stripIdx(p), fmt.Sprintf("%s: result of %s after other read-only calls (forward order) differs from its result on a pristine copy: %.200s vs %.200s", s.desc, p, ref[p], got[p]), rp)
			return false
		}
	}
	return true
}

// otherSubject builds the operations of the subject (kind, idx) on a fresh value; set by TestCheck.
var otherSubject func(kind string, idx int) []op

func judge(r *mon.Rec, kind string, idx int, s subject, rng *rand.Rand) {
	rp := replay{kind, idx}
	r.Current(rp)
	r.Eval(1)
	base := s.mk()
	n := len(base)
	if n == 0 {
		return
	}
	fwd := make([]int, n)
	for i := range fwd {
		fwd[i] = i
	}
	// Reference results.  Small operation sets (standalone options, DUIDs): every operation is evaluated as the FIRST
	// call on its own fresh copy, so the reference cannot contain the effect of another read-only call.  Large sets
	// (whole messages, hundreds of operations): the reference is the forward pass on one copy; other orders on fresh
	// copies are compared with it (an operation whose result depends on what ran before shows up as a difference).
	ref := make(map[string]string, n)
	if n <= 40 {
		for i := 0; i < n; i++ {
			o := base
			if i > 0 {
				o = s.mk()
			}
			if len(o) != n {
				r.Violate("C20:HARNESS-nondeterministic-subject", s.desc, rp)
				return
			}
			ref[o[i].path] = safe(o[i].fn)
		}
		if !compare0(r, s, rp, ref, s.mk(), fwd) {
			return
		}
		r.Count("subjects_with_pristine_reference", 1)
	} else {
		ref = evaluate(base, fwd, false)
	}
	// one more copy, whose encoding and printed form are taken before anything else is called on it (the enumeration
	// of the operations calls the getters once): after all reads they are what they were
	withPreRead = true
	opsP := s.mk()
	withPreRead = false
	if len(opsP) > 0 && opsP[0].path == preReadPath {
		for _, o := range opsP[1:] {
			safe(o.fn)
		}
		if v := safe(opsP[0].fn); v != "same" {
			r.Violate("C20:read-changes-encoding", fmt.Sprintf("%s: its encoding / printed form is not what it was before any accessor had been called: %s", s.desc, v), rp)
			return
		}
	}
	compare := func(tag string, got map[string]string, ops []op, order []int) bool {
		for _, i := range order {
			p := ops[i].path
			if got[p] != ref[p] {
				// name the calls made before p in this order (candidates for the mutating one): report a short prefix
				r.Violate("C20:read-changes-result:"+stripIdx(p), fmt.Sprintf("%s: result of %s depends on which read-only calls ran before it (%s order): %.200s vs %.200s", s.desc, p, tag, ref[p], got[p]), rp)
				return false
			}
		}
		return true
	}
	// reverse order on a fresh copy
	rev := make([]int, n)
	for i := range rev {
		rev[i] = n - 1 - i
	}
	ops2 := s.mk()
	if len(ops2) != n {
		r.Violate("C20:HARNESS-nondeterministic-subject", s.desc, rp)
		return
	}
	if !compare("reverse", evaluate(ops2, rev, false), ops2, rev) {
		return
	}
	// every call twice in a row (repeated calls return equal results), forward order, fresh copy
	ops3 := s.mk()
	if !compare("repeat", evaluate(ops3, fwd, true), ops3, fwd) {
		return
	}
	// seeded permutations
	for k := 0; k < r.Pick(2, 5); k++ {
		perm := rng.Perm(n)
		opsK := s.mk()
		if !compare("permuted", evaluate(opsK, perm, false), opsK, perm) {
			return
		}
	}
	// other values are read and printed in between (a server logging one packet and then another): what THIS value's
	// operations return does not depend on which other values the process has looked at.  The other value is the
	// previous subject of the same family, preferably (two PXE packets, two relay messages).
	if other := otherSubject; other != nil && idx%2 == 0 {
		// (a value that has NOT been looked at before in this process: state that only ever accumulates would already
		// be part of the reference otherwise)
		oo := other(kind, idx+1000003)
		for i := range oo {
			safe(oo[i].fn)
		}
		opsX := s.mk()
		if len(opsX) == n && !compare("after-reading-another-value", evaluate(opsX, fwd, false), opsX, fwd) {
			return
		}
		r.Count("subjects_reread_after_another_value", 1)
	}
	// exhaustive short sequences: for small operation sets, all sequences of <= 3 calls followed by a full snapshot
	if n <= 12 {
		seqs := 0
		var rec func(prefix []int)
		rec = func(prefix []int) {
			if len(prefix) > 0 {
				o := s.mk()
				for _, i := range prefix {
					safe(o[i].fn)
				}
				seqs++
				if !compare(fmt.Sprintf("after-sequence%v", prefix), evaluate(o, fwd, false), o, fwd) {
					return
				}
			}
			if len(prefix) == 3 {
				return
			}
			for i := 0; i < n; i++ {
				rec(append(prefix, i))
				if r.NViolations() > 0 {
					return
				}
			}
		}
		rec(nil)
		r.Count("exhaustive_sequences", seqs)
	}
	// shape: the subject kind and the set of operation paths it offers (which reflects the option types it holds)
	uniq := map[string]bool{}
	for _, o := range base {
		uniq[stripIdx(o.path)] = true
	}
	ps := make([]string, 0, len(uniq))
	for p := range uniq {
		ps = append(ps, p)
	}
	sort.Strings(ps)
	r.Shape(s.desc+"/"+strings.Join(ps, ","), s.nt)
	r.Count("operations_compared", n*5)
	if r.NSamples() < 6 && n < 30 {
		ps := []string{}
		for _, o := range base[:min(n, 8)] {
			ps = append(ps, o.path)
		}
		r.Sample(map[string]any{"kind": kind, "idx": idx, "subject": s.desc, "operations": n, "first_paths": ps})
	}
}

// genericize replaces some of the options of a list (and of the lists nested in identity associations, addresses,
// prefixes and 4rd containers) by *OptionGeneric values with the same code and octets.
func genericize(rng *rand.Rand, l *dhcpv6.Options) {
	for i, o := range *l {
		switch x := o.(type) {
		case *dhcpv6.OptIANA:
			genericize(rng, &x.Options.Options)
		case *dhcpv6.OptIAPD:
			genericize(rng, &x.Options.Options)
		case *dhcpv6.OptIATA:
			genericize(rng, &x.Options.Options)
		case *dhcpv6.OptIAAddress:
			genericize(rng, &x.Options.Options)
		case *dhcpv6.OptIAPrefix:
			genericize(rng, &x.Options.Options)
		case *dhcpv6.Opt4RD:
			genericize(rng, &x.Options)
		}
		if rng.IntN(2) == 0 {
			if _, isGen := o.(*dhcpv6.OptionGeneric); !isGen && o.Code() != dhcpv6.OptionRelayMsg {
				(*l)[i] = &dhcpv6.OptionGeneric{OptionCode: o.Code(), OptionData: o.ToBytes()}
			}
		}
	}
}

func isTypedFn(typed map[int]string) func(int) bool {
	return func(c int) bool { _, ok := typed[c]; return ok }
}

// subjects
func subjectFor(r *mon.Rec, kind string, idx int, typed map[int]string) subject {
	seedRng := func() *rand.Rand { return r.Rand("c20."+kind, idx) }
	switch kind {
	case "v4gen":
		return subject{"generated DHCPv4 packet", func() []op {
			rng := seedRng()
			p, _ := gen4.Packet(rng, 6)
			for c, v := range p.Options {
				if len(v) > 300 {
					p.Options[c] = v[:300]
				}
			}
			// purity must hold for any value a caller can build, also outside the encodable domain of C01:
			// over-long hardware addresses (e.g. 20-byte IPoIB), 16-byte non-mapped addresses, names beyond capacity
			switch rng.IntN(8) {
			case 0:
				p.ClientHWAddr = gen4.Bytes(rng, 17+rng.IntN(8))
			case 1:
				p.ServerHostName = string(gen4.Bytes(rng, 64+rng.IntN(10)))
				p.BootFileName = string(gen4.Bytes(rng, 128+rng.IntN(10)))
			case 2: // the option map is the caller's: it may hold the codes that are not options, End (255) and Pad (0)
				p.Options[255] = []byte{}
				if rng.IntN(2) == 0 {
					p.Options[82] = gen4.AgentInfo(rng, 12)
				}
			case 3:
				p.Options[0] = gen4.Bytes(rng, rng.IntN(4))
				p.Options[255] = gen4.Bytes(rng, rng.IntN(3))
				p.Options[82] = gen4.AgentInfo(rng, 6)
			}
			return opsOf(p)
		}, true}
	case "v4dec":
		w, _ := gen4.WirePacket(seedRng(), 6)
		return subject{"decoded DHCPv4 packet", func() []op {
			p, err := dhcpv4.FromBytes(append([]byte{}, w...))
			if err != nil {
				return nil
			}
			return opsOf(p)
		}, true}
	case "v6gen":
		return subject{"generated DHCPv6 message", func() []op {
			rng := seedRng()
			g := gen6.New(rng, isTypedFn(typed))
			g.Budget = 3 + rng.IntN(12)
			m, _ := g.Chain(rng.IntN(3), 0)
			if rng.IntN(3) == 0 {
				// an application that builds its options from configuration as code + octets: options of codes the
				// library has types for, held in their generic form, at the top level and inside the containers
				if im, err := m.GetInnerMessage(); err == nil && im != nil {
					genericize(rng, &im.Options.Options)
				}
			}
			if rng.IntN(3) == 0 {
				// values set by hand that no wire form carries exactly: an elapsed time beyond what 16 bits of
				// hundredths hold or finer than a hundredth, lifetimes beyond 32 bits of seconds or with a fraction
				if im, err := m.GetInnerMessage(); err == nil && im != nil {
					im.UpdateOption(dhcpv6.OptElapsedTime([]time.Duration{656 * time.Second, time.Hour, 655360 * time.Millisecond, 655355 * time.Millisecond, 5 * time.Millisecond, 1234567 * time.Microsecond, 49 * 24 * time.Hour}[rng.IntN(7)]))
					big := []time.Duration{1500 * time.Millisecond, (1<<32 + 5) * time.Second, 999 * time.Millisecond, 50000 * 24 * time.Hour}[rng.IntN(4)]
					for _, o := range im.Options.Options {
						switch v := o.(type) {
						case *dhcpv6.OptIANA:
							v.T1, v.T2 = big, big+time.Second
							for _, so := range v.Options.Options {
								if a, ok := so.(*dhcpv6.OptIAAddress); ok {
									a.PreferredLifetime, a.ValidLifetime = big, big+time.Millisecond
								}
							}
						case *dhcpv6.OptIAPD:
							v.T1, v.T2 = big, big+time.Second
							for _, so := range v.Options.Options {
								if a, ok := so.(*dhcpv6.OptIAPrefix); ok {
									a.PreferredLifetime, a.ValidLifetime = big, big+time.Millisecond
								}
							}
						}
					}
				}
			}
			return opsOf(m)
		}, true}
	case "v6dec":
		rng := seedRng()
		g := gen6.New(rng, isTypedFn(typed))
		g.Budget = 3 + rng.IntN(12)
		m, _ := g.Chain(rng.IntN(3), 0)
		w := m.ToBytes()
		return subject{"decoded DHCPv6 message", func() []op {
			d, err := dhcpv6.FromBytes(append([]byte{}, w...))
			if err != nil {
				return nil
			}
			return opsOf(d)
		}, true}
	case "v6dec-nc":
		// decoded from wire bytes the library's own encoder would not have produced (so that "keep what was received"
		// and "encode what is held" differ): bare and relayed
		w := gen6.NonCanonical(seedRng())
		return subject{"decoded non-canonical DHCPv6 message", func() []op {
			d, err := dhcpv6.FromBytes(append([]byte{}, w...))
			if err != nil {
				return nil
			}
			return opsOf(d)
		}, true}
	case "opt6":
		return subject{"standalone DHCPv6 option", func() []op {
			rng := seedRng()
			g := gen6.New(rng, isTypedFn(typed))
			g.Budget = 8
			g.NoV4 = true
			o, _ := g.AnyOption(2)
			return opsOf(o)
		}, true}
	case "v6exch":
		// the messages of an address / prefix exchange, as the builders and the netboot extractors are meant to be fed:
		// SOLICIT, ADVERTISE, REQUEST, REPLY with client and server identifier, IA_NA (address with lifetimes), often an
		// IA_PD, now and then the boot file options.  The read-only operations include the builders and extractors
		// (obs.V6Helpers): building an answer or extracting a configuration leaves the message what it was.
		return subject{"message of a DHCPv6 exchange", func() []op {
			rng := seedRng()
			g := gen6.New(rng, isTypedFn(typed))
			g.Budget = 40
			g.NoV4 = true
			m := &dhcpv6.Message{MessageType: []dhcpv6.MessageType{2, 7, 2, 7, 1, 3}[rng.IntN(6)]}
			copy(m.TransactionID[:], gen4.Bytes(rng, 3))
			for _, c := range []int{1, 2, 3} {
				if rng.IntN(8) != 0 {
					o, _ := g.Option(c, 2)
					m.AddOption(o)
				}
			}
			if rng.IntN(2) == 0 {
				o, _ := g.Option(25, 2)
				m.AddOption(o)
			}
			if rng.IntN(4) == 0 {
				m.AddOption(dhcpv6.OptBootFileURL("tftp://[2001:db8::1]/boot.efi"))
			}
			if rng.IntN(4) == 0 {
				m.AddOption(&dhcpv6.OptionGeneric{OptionCode: dhcpv6.OptionRapidCommit})
			}
			return opsOf(m)
		}, true}
	case "labels":
		// a label set parsed from bytes their encoder would not have written (compressed, partial, many pointers, names
		// at the length limit), possibly edited by its owner.  Besides the read-only methods there is one operation that
		// is the identity on the value: put the parsed names back, encode, re-apply the edit -- what it returns must not
		// depend on which reads were made before it.
		return subject{"parsed label set, edited by its owner", func() []op {
			rng := seedRng()
			var w []byte
			switch rng.IntN(4) {
			case 0:
				w = reflabel.Boundary(rng)
			case 1:
				w = reflabel.ManyPointers(rng)
			case 2:
				w = []byte{3, 'f', 'o', 'o', 3, 'c', 'o', 'm', 0, 3, 'b', 'a', 'r', 0xC0, byte(4 * rng.IntN(2)), 4, 'h', 'o', 's', 't'}
			default:
				w = reflabel.Web(rng)
			}
			l, err := rfc1035label.FromBytes(w)
			if err != nil || len(l.Labels) == 0 {
				return nil
			}
			parsed := append([]string{}, l.Labels...)
			edited := append([]string{}, parsed...)
			switch rng.IntN(4) {
			case 0: // no edit
			case 1:
				edited[rng.IntN(len(edited))] = "edited.example"
			case 2:
				edited = append(edited, "appended.example")
			default:
				edited = edited[:len(edited)-1]
			}
			restore := op{"restore-names+ToBytes+re-edit", func() string {
				l.Labels = append([]string{}, parsed...)
				b := l.ToBytes()
				l.Labels = append([]string{}, edited...)
				return fmt.Sprintf("%x", b)
			}}
			ops := opsOf(l, restore) // enumerated (which calls the getters once) while the set is as parsed; edited afterwards
			l.Labels = append([]string{}, edited...)
			if len(ops) > 0 && ops[0].path == preReadPath {
				ops = ops[1:] // without the pre-read snapshot, which was taken before the edit
			}
			return ops
		}, true}
	case "duid":
		return subject{"standalone DUID", func() []op {
			g := gen6.New(seedRng(), nil)
			d, _ := g.DUID()
			return opsOf(d)
		}, false}
	default: // "opt4": standalone DHCPv4 option values built by the exported constructors, with caller-owned backing slices
		return subject{"standalone DHCPv4 option value", func() []op {
			rng := seedRng()
			return opt4(rng)
		}, true}
	}
}

func ipr(r *rand.Rand) net.IP {
	return net.IP{byte(r.UintN(256)), byte(r.UintN(256)), byte(r.UintN(256)), byte(r.UintN(256))}
}

// opt4 builds one standalone option through its constructor; the caller-owned arguments are observed too.
func opt4(r *rand.Rand) []op {
	var o dhcpv4.Option
	var owned func() string // renders the caller-owned backing data
	switch r.IntN(12) {
	case 0:
		codes := make([]dhcpv4.OptionCode, 1+r.IntN(8))
		for i := range codes {
			codes[i] = dhcpv4.GenericOptionCode(r.UintN(256))
		}
		o = dhcpv4.OptParameterRequestList(codes...)
		owned = func() string {
			s := ""
			for _, c := range codes {
				s += fmt.Sprint(c.Code(), ",")
			}
			return s
		}
	case 1:
		ips := []net.IP{ipr(r), ipr(r), ipr(r)}[:1+r.IntN(3)]
		o = []dhcpv4.Option{dhcpv4.OptRouter(ips...), dhcpv4.OptDNS(ips...), dhcpv4.OptNTPServers(ips...)}[r.IntN(3)]
		owned = func() string { return fmt.Sprint(ips) }
	case 2:
		ip := ipr(r)
		if r.IntN(2) == 0 {
			ip = ip.To16()
		}
		o = []dhcpv4.Option{dhcpv4.OptServerIdentifier(ip), dhcpv4.OptRequestedIPAddress(ip), dhcpv4.OptBroadcastAddress(ip)}[r.IntN(3)]
		owned = func() string { return fmt.Sprintf("%x", []byte(ip)) }
	case 3:
		m := net.CIDRMask(r.IntN(33), 32)
		if r.IntN(3) == 0 {
			m = net.CIDRMask(r.IntN(129), 128)
		}
		o = dhcpv4.OptSubnetMask(m)
		owned = func() string { return fmt.Sprintf("%x", []byte(m)) }
	case 4:
		var rs []*dhcpv4.Route
		for i := 0; i < 1+r.IntN(3); i++ {
			ones := r.IntN(33)
			rs = append(rs, &dhcpv4.Route{Dest: &net.IPNet{IP: ipr(r), Mask: net.CIDRMask(ones, 32)}, Router: ipr(r)})
		}
		o = dhcpv4.OptClasslessStaticRoute(rs...)
		owned = func() string {
			s := ""
			for _, x := range rs {
				s += fmt.Sprintf("%x/%x>%x;", []byte(x.Dest.IP), []byte(x.Dest.Mask), []byte(x.Router))
			}
			return s
		}
	case 5:
		l := &rfc1035label.Labels{Labels: []string{"b.example.com", "a.example.org", "c"}[:1+r.IntN(3)]}
		o = dhcpv4.OptDomainSearch(l)
		owned = func() string { return fmt.Sprintf("%q", l.Labels) }
	case 6:
		as := []iana.Arch{iana.Arch(r.UintN(40)), iana.Arch(r.UintN(40)), iana.Arch(r.UintN(65536))}[:1+r.IntN(3)]
		o = dhcpv4.OptClientArch(as...)
		owned = func() string { return fmt.Sprint(as) }
	case 7:
		uc := []string{"zz", "aa", "mm"}[:1+r.IntN(3)]
		o = dhcpv4.OptRFC3004UserClass(uc)
		owned = func() string { return fmt.Sprint(uc) }
	case 8:
		ids := []dhcpv4.VIVCIdentifier{{EntID: iana.EnterpriseID(r.Uint32()), Data: gen4.Bytes(r, 5)}, {EntID: 9, Data: []byte("x")}}[:1+r.IntN(2)]
		o = dhcpv4.OptVIVC(ids...)
		owned = func() string { return fmt.Sprint(ids) }
	case 9:
		sub1, sub2 := gen4.Bytes(r, 6), gen4.Bytes(r, 3)
		o = dhcpv4.OptRelayAgentInfo(dhcpv4.OptGeneric(dhcpv4.AgentRemoteIDSubOption, sub2), dhcpv4.OptGeneric(dhcpv4.AgentCircuitIDSubOption, sub1))
		owned = func() string { return fmt.Sprintf("%x %x", sub1, sub2) }
	case 10:
		b := gen4.Bytes(r, r.IntN(12))
		o = dhcpv4.OptGeneric(dhcpv4.GenericOptionCode(r.UintN(256)), b)
		owned = func() string { return fmt.Sprintf("%x", b) }
	default:
		o = []dhcpv4.Option{dhcpv4.OptMessageType(dhcpv4.MessageType(r.UintN(10))), dhcpv4.OptMaxMessageSize(uint16(r.UintN(65536))), dhcpv4.OptIPAddressLeaseTime(time.Duration(r.Uint32()) * time.Second),
			dhcpv4.OptAutoConfigure(dhcpv4.AutoConfiguration(r.UintN(3))), dhcpv4.OptHostName("host"), dhcpv4.OptUserClass("uc")}[r.IntN(6)]
		owned = func() string { return "" }
	}
	ops := []op{
		{"Option.String", func() string { return o.String() }},
		{"Option.Value.ToBytes", func() string { return fmt.Sprintf("%x", o.Value.ToBytes()) }},
		{"Option.Value.String", func() string { return o.Value.String() }},
		{"caller-owned-arguments", owned},
		{"packet-with-option.ToBytes", func() string {
			p := &dhcpv4.DHCPv4{Options: dhcpv4.Options{}, ClientHWAddr: make([]byte, 6)}
			p.UpdateOption(o)
			return fmt.Sprintf("%x", p.ToBytes()[240:])
		}},
	}
	// further niladic methods of the value type (Has etc. need arguments and are skipped)
	for _, c := range obs.Enumerate(o.Value, 2) {
		ops = append(ops, op{"Value:" + c.Path, render(c)})
	}
	_ = reflect.TypeOf(o)
	return ops
}

var kinds = []string{"v4gen", "v4dec", "v6gen", "v6dec", "v6dec-nc", "opt6", "duid", "opt4", "opt4", "labels", "v6exch"}

// raceRun: two goroutines run the same read-only call list on one value concurrently (only meaningful under -race).
func raceRun(s subject) {
	ops := s.mk()
	var wg sync.WaitGroup
	for g := 0; g < 2; g++ {
		wg.Add(1)
		go func() {
			defer wg.Done()
			for _, o := range ops {
				if strings.HasPrefix(o.path, "restore-") {
					continue // writes by design (and puts everything back): not for two goroutines at once
				}
				safe(o.fn)
			}
		}()
	}
	wg.Wait()
}

func TestCheck(t *testing.T) {
	log.SetOutput(io.Discard)
	r := mon.New("C20")
	defer r.Flush()
	typed := v6util.TypedCodes()
	var rp replay
	if mon.ReplayCase(&rp) {
		judge(r, rp.Kind, rp.Idx, subjectFor(r, rp.Kind, rp.Idx, typed), r.Rand("perm", rp.Idx))
		return
	}
	r.Watchdog(60 * time.Second)
	otherSubject = func(kind string, idx int) []op { return subjectFor(r, kind, idx, typed).mk() }
	n := r.Pick(12000, 300000)
	if os.Getenv("VERIF_STAGE") == "race" {
		// reader-writes detector: any race report names a write performed by a "read-only" method
		m := r.Pick(1500, 30000)
		for i := 0; i < m; i++ {
			if r.Mine(i) {
				k := kinds[r.Rand("kind", i).IntN(len(kinds))]
				raceRun(subjectFor(r, k, i, typed))
				r.Eval(1)
				r.Shape(fmt.Sprint("race/", k, "/", i%50), true)
			}
		}
		return
	}
	for i := 0; i < n; i++ {
		if r.Mine(i) {
			k := kinds[r.Rand("kind", i).IntN(len(kinds))]
			judge(r, k, i, subjectFor(r, k, i, typed), r.Rand("perm", i))
		}
	}
}
