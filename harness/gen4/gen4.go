// Package gen4 generates DHCPv4 packet values over the C01 domain together
// with the reference form (ref4.P4) of what was put in.
package gen4

import (
	"bytes"
	"math/rand/v2"
	"net"

	"github.com/insomniacslk/dhcp/dhcpv4"
	"github.com/insomniacslk/dhcp/iana"
	"verif/harness/ref4"
	"verif/harness/reflabel"
)

// Boundary lengths around every 255-byte split point and the ends of the domain.
var BoundaryLens = func() []int {
	var l []int
	for _, r := range [][2]int{{0, 3}, {252, 258}, {507, 513}, {762, 768}, {1017, 1023}, {4090, 4096}} {
		for i := r[0]; i <= r[1]; i++ {
			l = append(l, i)
		}
	}
	return l
}()

// Text: n octets of printable ASCII the way clients and servers write their strings: bare, or ended by one or
// several NULs, a blank or a line end, now and then with a NUL in front or in the middle.
// LargeTotal adds options to p (and its reference form e) until the option area is large: totals just below and above
// 64 KiB (what a 16-bit offset can name), around 128 KiB, and up to all 254 codes with 4096 octets each (1 MB).
func LargeTotal(r *rand.Rand, p *dhcpv4.DHCPv4, e *ref4.P4) {
	target := []int{60000, 65000, 65536 + r.IntN(600), 70000, 131072 + r.IntN(600), 200000, 400000, 1040000}[r.IntN(8)]
	per := []int{300, 1000, 4096, 4096, 255, 510}[r.IntN(6)]
	codes := r.Perm(254)
	total := 0
	for _, c := range codes {
		if total >= target {
			break
		}
		code := byte(c + 1)
		l := per
		if r.IntN(3) == 0 {
			l = 1 + r.IntN(4096)
		}
		v := make([]byte, l)
		x := byte(r.UintN(256))
		for i := range v { // every octet depends on its position in the value and on the code: a copy from the wrong place shows
			v[i] = x + byte(i) + byte(i>>8)*31 + code
		}
		p.Options[code] = v
		e.Opts[code] = append([]byte{}, v...)
		total += l + 2*(l/255+1)
	}
}

// ClientID: a client identifier (option 61) in one of the forms clients send: the hardware type followed by the hardware
// address (the packet's own, or another one of 1..16 octets), type 0 followed by a serial number, the RFC 4361 form
// (255, IAID, DUID), a lone type octet.
func ClientID(r *rand.Rand, htype byte, chaddr []byte) []byte {
	switch r.IntN(6) {
	case 0, 1:
		if len(chaddr) > 0 {
			return append([]byte{htype}, chaddr...)
		}
		fallthrough
	case 2:
		a := make([]byte, 1+r.IntN(16))
		if r.IntN(2) == 0 {
			a = make([]byte, 6)
		}
		for i := range a {
			a[i] = byte(r.UintN(256))
		}
		return append([]byte{htype}, a...)
	case 3:
		return append([]byte{0}, "FOC1234X5YZ"...)
	case 4:
		v := []byte{255, 0, 0, 0, byte(r.UintN(4)), 0, 3, 0, 1}
		for i := 0; i < 6; i++ {
			v = append(v, byte(r.UintN(256)))
		}
		return v
	}
	return []byte{htype}
}

// options whose value is text (RFC 2132 strings, class identifiers, the RFC 3004/4578/5970-style names ...)
var textCodes = []byte{12, 14, 15, 17, 18, 40, 47, 56, 60, 62, 64, 66, 67, 86, 87, 98, 100, 101, 114, 12, 15, 66, 67}

func Text(r *rand.Rand, n int) []byte {
	if n > 3 && r.IntN(4) == 0 {
		// text in other scripts: UTF-8 with two-, three- and four-octet characters (many octets, few characters), filled
		// up to n octets with ASCII
		src := []rune("地址已分配给客户端租约续订成功Адрес назначен клиенту аренда продлена عنوان مخصص للعميل 🙂🚀émetteur réseau")
		var out []byte
		off := r.IntN(len(src))
		for i := 0; ; i++ {
			c := string(src[(off+i)%len(src)])
			if len(out)+len(c) > n {
				break
			}
			out = append(out, c...)
		}
		for len(out) < n {
			out = append(out, '.')
		}
		return out
	}
	b := make([]byte, n)
	words := "DESKTOP-4F2K9 example.org /tftpboot/pxelinux.0 MSFT 5.0 udhcp 1.36.1 android-dhcp-13 host_7 "
	off := r.IntN(len(words))
	for i := range b {
		if r.IntN(2) == 0 {
			b[i] = words[(off+i)%len(words)]
		} else {
			b[i] = byte(0x20 + r.UintN(0x5f))
		}
	}
	tail := []string{"", "\x00", "\x00\x00\x00", " ", "\r\n", "\n", "\x00 ", ".", "\t"}[r.IntN(9)]
	if len(tail) < n {
		copy(b[n-len(tail):], tail)
	}
	if n > 2 {
		switch r.IntN(12) {
		case 0:
			b[0] = 0
		case 1:
			b[r.IntN(n)] = 0
		case 2:
			b[0] = ' '
		}
	}
	return b
}

func Bytes(r *rand.Rand, n int) []byte {
	if r.IntN(8) == 0 {
		return Text(r, n)
	}
	b := make([]byte, n)
	mode := r.IntN(4)
	if n > 255 && r.IntN(5) == 0 {
		mode = 4 // period 255: every option instance of the value carries the same octets
	}
	for i := range b {
		switch mode {
		case 4:
			b[i] = byte(i%255*7 + 1)
		case 0:
			b[i] = byte(r.UintN(256))
		case 1:
			b[i] = byte(i)
		case 2:
			b[i] = 0xff
		default:
			b[i] = byte(r.UintN(3)) * 0x7f // 0, 0x7f, 0xfe: includes zeros and End-like bytes
		}
	}
	return b
}

func nameNoNul(r *rand.Rand, max int) string {
	n := 0
	switch r.IntN(4) {
	case 0:
		n = 0
	case 1:
		n = max
	default:
		n = r.IntN(max + 1)
	}
	b := make([]byte, n)
	for i := range b {
		b[i] = byte(1 + r.UintN(255))
	}
	return string(b)
}

// ip picks nil / 4-byte / IPv4-mapped 16-byte form and returns the 4 wire bytes.
func ip(r *rand.Rand) (net.IP, [4]byte) {
	var w [4]byte
	switch r.IntN(4) {
	case 0:
		return nil, w
	case 1:
		for i := range w {
			w[i] = byte(r.UintN(256))
		}
		return net.IP{w[0], w[1], w[2], w[3]}, w
	case 2:
		for i := range w {
			w[i] = byte(r.UintN(256))
		}
		return net.IPv4(w[0], w[1], w[2], w[3]), w // 16-byte mapped form
	default:
		return net.IPv4zero.To4(), w
	}
}

// OptLen draws an option value length with emphasis on split boundaries.
func OptLen(r *rand.Rand) int {
	switch r.IntN(10) {
	case 0:
		return 0
	case 1, 2:
		return BoundaryLens[r.IntN(len(BoundaryLens))]
	case 3:
		return r.IntN(4097)
	case 4:
		return 255 * (1 + r.IntN(4))
	default:
		return 1 + r.IntN(64)
	}
}

func cloneIP(ip net.IP) net.IP {
	if ip == nil {
		return nil
	}
	return append(net.IP{}, ip...)
}

// Packet draws one packet of the C01 domain. maxOpts bounds the option count.
func Packet(r *rand.Rand, maxOpts int) (*dhcpv4.DHCPv4, *ref4.P4) {
	p := &dhcpv4.DHCPv4{Options: dhcpv4.Options{}}
	e := &ref4.P4{Opts: map[byte][]byte{}}
	p.OpCode = dhcpv4.OpcodeType(r.UintN(256))
	if r.IntN(2) == 0 {
		p.OpCode = dhcpv4.OpcodeType(1 + r.UintN(2))
	}
	e.Op = byte(p.OpCode)
	p.HWType = iana.HWType(r.UintN(256))
	e.HType = byte(p.HWType)
	p.HopCount = uint8(r.UintN(256))
	e.Hops = p.HopCount
	for i := range p.TransactionID {
		p.TransactionID[i] = byte(r.UintN(256))
	}
	p.NumSeconds = uint16(r.UintN(65536))
	p.Flags = uint16(r.UintN(65536))
	if r.IntN(5) == 0 { // single bits (0x8000 is the broadcast bit; 0x0080 is what it looks like in the wrong byte order)
		p.Flags = 1 << r.UintN(16)
	}
	if r.IntN(2) == 0 {
		p.Flags &= 0x8000
	}
	// the edges of every scalar's range are values like any other (a transaction id of 00000000, all-ones fields)
	switch r.IntN(12) {
	case 0:
		p.TransactionID = dhcpv4.TransactionID{}
	case 1:
		p.TransactionID = dhcpv4.TransactionID{0xff, 0xff, 0xff, 0xff}
	case 2:
		p.OpCode, p.HWType, p.HopCount, p.NumSeconds, p.Flags = 0, 0, 0, 0, 0
		if r.IntN(2) == 0 {
			p.TransactionID = dhcpv4.TransactionID{}
		}
	case 3:
		p.OpCode, p.HWType, p.HopCount, p.NumSeconds, p.Flags = 255, 255, 255, 0xffff, 0xffff
	}
	e.Op, e.HType, e.Hops = byte(p.OpCode), byte(p.HWType), p.HopCount
	e.Xid = p.TransactionID
	e.Secs = p.NumSeconds
	e.Flags = p.Flags
	p.ClientIPAddr, e.CI = ip(r)
	p.YourIPAddr, e.YI = ip(r)
	p.ServerIPAddr, e.SI = ip(r)
	p.GatewayIPAddr, e.GI = ip(r)
	hl := 6
	switch r.IntN(5) {
	case 0:
		hl = r.IntN(17)
	case 1:
		hl = 16
	case 2:
		hl = 0
	}
	if r.IntN(5) == 0 {
		// the (hardware type, address length) pairs that exist: Ethernet, IEEE 802, EUI-64, InfiniBand (which sends hlen 0,
		// RFC 4390, or its 8-octet GUID / the first 16 octets of its 20-octet address), IEEE 1394, frame relay, serial line
		pr := [][2]int{{1, 6}, {6, 6}, {27, 8}, {32, 0}, {32, 0}, {32, 16}, {32, 8}, {24, 8}, {15, 2}, {20, 1}, {1, 0}}[r.IntN(11)]
		p.HWType, e.HType, hl = iana.HWType(pr[0]), byte(pr[0]), pr[1]
		if r.IntN(2) == 0 {
			p.Flags &^= 0x8000
			e.Flags = p.Flags
		}
	}
	// related header addresses: the address a server hands out is the one the client already holds (ciaddr = yiaddr), the
	// relay is the server (giaddr = siaddr)
	switch r.IntN(12) {
	case 0:
		p.ClientIPAddr, e.CI = cloneIP(p.YourIPAddr), e.YI
	case 1:
		p.GatewayIPAddr, e.GI = cloneIP(p.ServerIPAddr), e.SI
	}
	hw := make([]byte, hl)
	for i := range hw {
		hw[i] = byte(r.UintN(256))
	}
	if hl == 0 && r.IntN(2) == 0 {
		p.ClientHWAddr = nil
	} else {
		p.ClientHWAddr = net.HardwareAddr(hw)
	}
	e.HLen = byte(hl)
	e.CHAddr = append([]byte{}, hw...)
	p.ServerHostName = nameNoNul(r, 63)
	if r.IntN(12) == 0 {
		// a server name spelled as an address (PXE setups do that), a next-server field left unset, in a reply
		p.ServerHostName = []string{"10.0.0.1", "192.168.1.254", "255.255.255.255", "0.0.0.0", "2001:db8::1", "tftp.example.org"}[r.IntN(6)]
		if r.IntN(3) != 0 {
			p.ServerIPAddr, e.SI = nil, [4]byte{}
		}
		if r.IntN(3) != 0 {
			p.OpCode, e.Op = dhcpv4.OpcodeBootReply, 2
		}
	}
	e.SName = p.ServerHostName
	p.BootFileName = nameNoNul(r, 127)
	e.File = p.BootFileName
	n := 0
	if maxOpts > 0 {
		n = r.IntN(maxOpts + 1)
	}
	big := 0
	for i := 0; i < n; i++ {
		var code byte
		switch r.IntN(6) {
		case 0:
			code = 82
		case 1:
			code = []byte{53, 61, 55, 54, 50, 51, 1, 3, 6, 119, 121, 254, 1}[r.IntN(13)]
		case 2:
			code = textCodes[r.IntN(len(textCodes))]
		default:
			code = byte(1 + r.UintN(254))
		}
		l := OptLen(r)
		if l > 600 {
			big++
			if big > 2 {
				l = l % 300
			}
		}
		v := Bytes(r, l)
		if bytes.IndexByte(textCodes, code) >= 0 && r.IntN(3) != 0 {
			v = Text(r, l)
		}
		if l == 0 && r.IntN(2) == 0 {
			v = nil
		}
		if code == 82 && l > 2 && r.IntN(2) == 0 {
			v = AgentInfo(r, l)
		}
		if code == 61 && r.IntN(3) != 0 {
			v = ClientID(r, byte(p.HWType), hw)
		}
		if code == 119 && r.IntN(2) == 0 { // a search list as servers send it: names, compressed or not (RFC 3397)
			switch r.IntN(4) {
			case 0:
				v = reflabel.ManyPointers(r)
			case 1:
				v = reflabel.Web(r)
			case 2:
				v = []byte{3, 'e', 'n', 'g', 7, 'e', 'x', 'a', 'm', 'p', 'l', 'e', 3, 'o', 'r', 'g', 0, 3, 'l', 'a', 'b', 0xC0, 4, 0xC0, 0}
			default:
				v = reflabel.Encode([]string{"example.org", "corp.example.org"})
			}
		}
		p.Options[code] = v
		e.Opts[code] = append([]byte{}, v...)
	}
	if maxOpts > 0 && r.IntN(10) == 0 {
		// the clients there are: their vendor class identifiers, as whole values, with seconds fields as such clients
		// write them (multiples of 256 are what a byte-order slip looks like)
		ci := []string{"MSFT 5.0", "MSFT 98", "udhcp 1.36.1", "android-dhcp-13", "dhcpcd-9.4.1:Linux-6.1:x86_64", "Cisco Systems, Inc. IP Phone", "docsis3.0:"}[r.IntN(7)]
		p.Options[60], e.Opts[60] = []byte(ci), []byte(ci)
		if r.IntN(2) == 0 {
			p.NumSeconds = []uint16{0x0100, 0x0300, 0xff00, 0x0001, 0x8000}[r.IntN(5)]
			e.Secs = p.NumSeconds
		}
		if r.IntN(2) == 0 {
			p.OpCode, e.Op = dhcpv4.OpcodeBootRequest, 1
		}
	}
	if maxOpts > 0 && r.IntN(8) == 0 {
		// a PXE client/server: class identifier "PXEClient...", vendor-specific information (43) made of PXE tags
		ci := []string{"PXEClient:Arch:00007:UNDI:003016", "PXEClient", "PXEClient:Arch:00000:UNDI:002001", "HTTPClient:Arch:00016:UNDI:003001"}[r.IntN(4)]
		var v []byte
		for k := 1 + r.IntN(5); k > 0; k-- {
			tag := []byte{1, 2, 3, 6, 7, 8, 9, 10, 71, 128}[r.IntN(10)]
			d := Bytes(r, 1+r.IntN(6))
			v = append(append(v, tag, byte(len(d))), d...)
		}
		if r.IntN(2) == 0 {
			v = append(v, 255)
		}
		p.Options[60], e.Opts[60] = []byte(ci), []byte(ci)
		p.Options[43], e.Opts[43] = v, append([]byte{}, v...)
	}
	if maxOpts > 0 && r.IntN(8) == 0 {
		// the classic PXE reply: the server name and boot file are given in the header fields AND as options 66/67
		if p.ServerHostName != "" {
			p.Options[66] = []byte(p.ServerHostName)
			e.Opts[66] = []byte(p.ServerHostName)
		}
		if p.BootFileName != "" && r.IntN(4) != 0 {
			p.Options[67] = []byte(p.BootFileName)
			e.Opts[67] = []byte(p.BootFileName)
		}
	}
	return p, e
}

// AgentInfo builds a relay-agent-information value of exactly n octets (n >= 2) that is a well-formed run of
// sub-options: small ones, and now and then one with a payload of 254 or 255 octets (the largest a sub-option can
// carry) when there is room.
func AgentInfo(r *rand.Rand, n int) []byte {
	var v []byte
	for len(v) < n {
		rest := n - len(v)
		if rest == 1 { // cannot hold a sub-option header: grow the previous payload by one octet if possible
			return append(v, 0)[:n] // (an all-zero tail octet: still exactly n octets; sub-option code 0 without length)
		}
		l := r.IntN(min(20, rest-1))
		if rest-2 >= 254 && r.IntN(4) == 0 {
			l = 254 + r.IntN(min(2, rest-2-253))
		}
		if rest-2-l == 1 {
			l++
			if l > 255 || 2+l > rest {
				l -= 2
			}
		}
		l = max(0, min(l, rest-2, 255))
		if l >= 1 && rest-2-l >= 4 && r.IntN(5) == 0 { // virtual subnet selection with its empty control sub-option (RFC 6607)
			v = append(v, 151, byte(l))
			for i := 0; i < l; i++ {
				v = append(v, byte('a'+r.UintN(26)))
			}
			v = append(v, 152, 0)
			continue
		}
		v = append(v, byte(1+r.UintN(12)), byte(l))
		for i := 0; i < l; i++ {
			v = append(v, byte('a'+r.UintN(26)))
		}
	}
	return v[:n]
}
