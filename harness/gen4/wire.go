package gen4

import (
	"bytes"
	"math/rand/v2"

	"verif/harness/ref4"
)

// WirePacket builds DHCPv4 wire bytes directly (no library code), deliberately
// non-canonical: options in random order, values split into arbitrary
// instances, pad bytes, optional trailing bytes after End, hlen 0..255, names
// with or without NUL.  It returns the bytes and the RFC reading of them.
func WirePacket(r *rand.Rand, maxOpts int) ([]byte, *ref4.P4) {
	e := &ref4.P4{Opts: map[byte][]byte{}}
	b := make([]byte, 240, 600)
	e.Op = byte(r.UintN(256))
	if r.IntN(2) == 0 {
		e.Op = byte(1 + r.UintN(2))
	}
	e.HType = byte(r.UintN(256))
	switch r.IntN(4) {
	case 0:
		e.HLen = byte(r.UintN(256))
	case 1:
		e.HLen = byte(r.UintN(18))
	default:
		e.HLen = 6
	}
	if r.IntN(6) == 0 { // the (hardware type, address length) pairs that exist, incl. the ones longer than chaddr
		pr := [][2]byte{{1, 6}, {6, 6}, {27, 8}, {32, 20}, {32, 8}, {24, 8}, {15, 2}, {20, 1}, {1, 20}, {32, 16}, {32, 17}, {32, 0}, {1, 0}}[r.IntN(13)] // hlen 0: what RFC 4390 has IPoIB clients send
		e.HType, e.HLen = pr[0], pr[1]
	}
	e.Hops = byte(r.UintN(256))
	b[0], b[1], b[2], b[3] = e.Op, e.HType, e.HLen, e.Hops
	for i := 4; i < 44; i++ {
		b[i] = byte(r.UintN(256))
	}
	if r.IntN(5) == 0 { // flags with a single bit set
		f := uint16(1) << r.UintN(16)
		b[10], b[11] = byte(f>>8), byte(f)
	}
	copy(e.Xid[:], b[4:8])
	e.Secs = uint16(b[8])<<8 | uint16(b[9])
	e.Flags = uint16(b[10])<<8 | uint16(b[11])
	copy(e.CI[:], b[12:16])
	copy(e.YI[:], b[16:20])
	copy(e.SI[:], b[20:24])
	copy(e.GI[:], b[24:28])
	hl := int(e.HLen)
	if hl > 16 {
		hl = 16
	}
	e.CHAddr = append([]byte{}, b[28:28+hl]...)
	overload := byte(0) // RFC 2131 option-overload bits for the fields that were filled with an option area
	fill := func(dst []byte, bit byte) string {
		n := len(dst)
		switch r.IntN(5) {
		case 4: // a well-formed option area ended by End (what a sender using option overload puts there); as a name
			// (the only reading C04 gives these fields) it is the bytes up to the first NUL
			k := 0
			for k+3 < n-1 && r.IntN(4) != 0 {
				code := []byte{12, 6, 15, 53, 82, 1, 3, 119, byte(1 + r.UintN(254))}[r.IntN(9)]
				l := 1 + r.IntN(min(12, n-1-k-2))
				dst[k], dst[k+1] = code, byte(l)
				for i := 0; i < l; i++ {
					dst[k+2+i] = byte(1 + r.UintN(255))
				}
				k += 2 + l
			}
			dst[k] = 255
			overload |= bit
			return string(dst[:k+1])
		case 0: // full, no NUL
			for i := range dst {
				dst[i] = byte(1 + r.UintN(255))
			}
			return string(dst)
		case 1: // empty
			return ""
		default:
			k := r.IntN(n)
			for i := 0; i < k; i++ {
				dst[i] = byte(1 + r.UintN(255))
			}
			// garbage after the NUL must be ignored
			if r.IntN(2) == 0 {
				for i := k + 1; i < n; i++ {
					dst[i] = byte(r.UintN(256))
				}
			}
			return string(dst[:k])
		}
	}
	e.SName = fill(b[44:108], 2)
	e.File = fill(b[108:236], 1)
	copy(b[236:240], ref4.Cookie)
	if maxOpts < 0 {
		return b, e // empty options area
	}
	n := r.IntN(maxOpts + 1)
	if maxOpts >= 4 && r.IntN(12) == 0 {
		n = 20 + r.IntN(50) // a long options area: dozens of options, hence dozens of instances and codes that come back late
		if r.IntN(3) == 0 {
			n = 165 + r.IntN(140) // ... or hundreds (more instances than there are codes, or than fit a 576-octet packet)
		}
	}
	type inst struct {
		c byte
		v []byte
	}
	var insts []inst
	for i := 0; i < n; i++ {
		var code byte
		switch r.IntN(5) {
		case 0:
			code = 82
		case 1:
			code = []byte{53, 61, 55, 54, 50, 51, 1, 3, 6, 119, 121, 254, 77, 124}[r.IntN(14)]
		case 2:
			code = textCodes[r.IntN(len(textCodes))]
		default:
			code = byte(1 + r.UintN(254))
		}
		l := OptLen(r)
		if l > 700 {
			l %= 700
		}
		if n > 12 { // many options: short values, codes from a small pool so that instances of one code are far apart
			l = r.IntN(6)
			code = byte(60 + r.UintN(30))
		}
		v := Bytes(r, l)
		if bytes.IndexByte(textCodes, code) >= 0 && r.IntN(3) != 0 {
			v = Text(r, l)
		}
		if code == 61 && r.IntN(3) != 0 && n <= 12 {
			v = ClientID(r, e.HType, e.CHAddr)
			l = len(v)
		}
		// split into instances
		if l == 0 {
			insts = append(insts, inst{code, nil})
			continue
		}
		for len(v) > 0 {
			k := len(v)
			if k > 255 {
				k = 255
			}
			if r.IntN(3) == 0 {
				k = r.IntN(k + 1) // arbitrary split, may be an empty instance
			}
			insts = append(insts, inst{code, v[:k]})
			v = v[k:]
		}
	}
	if maxOpts > 0 && r.IntN(6) == 0 {
		// a fixed-size option sent twice, each instance of its nominal length (relays and buggy servers do this); by
		// RFC 3396 the value is the concatenation, like for any other code
		sc := [][2]int{{53, 1}, {54, 4}, {51, 4}, {1, 4}, {58, 4}, {59, 4}, {50, 4}, {57, 2}, {28, 4}, {116, 1}, {2, 4}}[r.IntN(11)]
		for k := 0; k < 2+r.IntN(2); k++ {
			insts = append(insts, inst{byte(sc[0]), Bytes(r, sc[1])})
		}
	}
	if overload != 0 && r.IntN(4) != 0 {
		// option 52 announcing the overloaded fields (sometimes a value that names a field holding a plain name)
		v := overload
		if r.IntN(4) == 0 {
			v = byte(1 + r.UintN(3))
		}
		insts = append(insts, inst{52, []byte{v}})
	}
	if r.IntN(2) == 0 {
		r.Shuffle(len(insts), func(i, j int) { insts[i], insts[j] = insts[j], insts[i] })
	}
	for _, in := range insts {
		for r.IntN(8) == 0 {
			b = append(b, 0)
			e.Pads++
		}
		b = append(b, in.c, byte(len(in.v)))
		b = append(b, in.v...)
		e.Opts[in.c] = append(e.Opts[in.c], in.v...)
		if e.Opts[in.c] == nil {
			e.Opts[in.c] = []byte{}
		}
		e.Instances = append(e.Instances, ref4.Inst{Code: in.c, Len: len(in.v)})
	}
	b = append(b, 255)
	switch r.IntN(5) {
	case 4: // what follows End looks like more options (a relay agent appending option 82 behind the client's End): ignored
		t0 := len(b)
		for k := 1 + r.IntN(3); k > 0; k-- {
			code := []byte{82, 82, 53, 54, 12, 61}[r.IntN(6)]
			l := 1 + r.IntN(12)
			b = append(b, code, byte(l))
			b = append(b, Bytes(r, l)...)
		}
		b = append(b, 255)
		e.Trailing = len(b) - t0
	case 0:
		t := r.IntN(40)
		for i := 0; i < t; i++ {
			b = append(b, byte(r.UintN(256)))
		}
		e.Trailing = t
	case 1:
		for len(b) < 300 {
			b = append(b, 0)
			e.Trailing++
		}
	}
	return b, e
}

// Mutate applies one structure-aware mutation to wire bytes (deterministic in r).
func Mutate(r *rand.Rand, b []byte, other []byte) []byte {
	out := append([]byte{}, b...)
	switch r.IntN(9) {
	case 0: // truncate
		if len(out) > 0 {
			out = out[:r.IntN(len(out))]
		}
	case 1: // extend
		for i, n := 0, 1+r.IntN(20); i < n; i++ {
			out = append(out, byte(r.UintN(256)))
		}
	case 2: // flip a byte anywhere
		if len(out) > 0 {
			out[r.IntN(len(out))] ^= byte(1 << r.UintN(8))
		}
	case 3: // perturb a byte in the options area
		if len(out) > 241 {
			i := 240 + r.IntN(len(out)-240)
			out[i] = []byte{0, 1, 255, out[i] + 1, out[i] - 1, 82, 53}[r.IntN(7)]
		}
	case 4: // perturb a real length byte
		if p, ok, _ := ref4.Decode(out); ok && len(p.Instances) > 0 {
			k := r.IntN(len(p.Instances))
			pos := 240
			area := out[240:]
			i, seen := 0, 0
			for i < len(area) {
				if area[i] == 0 {
					i++
					continue
				}
				if area[i] == 255 {
					break
				}
				if seen == k {
					pos = 240 + i + 1
					break
				}
				i += 2 + int(area[i+1])
				seen++
			}
			if pos < len(out) && pos > 240 {
				out[pos] = []byte{0, 255, out[pos] + 1, out[pos] - 1}[r.IntN(4)]
			}
		}
	case 5: // splice with other
		if len(other) > 0 && len(out) > 0 {
			i, j := r.IntN(len(out)), r.IntN(len(other))
			out = append(out[:i:i], other[j:]...)
		}
	case 6: // remove End markers
		for i := 240; i < len(out); i++ {
			if out[i] == 255 && r.IntN(2) == 0 {
				out[i] = byte(r.UintN(255))
			}
		}
	case 7: // cookie damage
		if len(out) >= 240 {
			out[236+r.IntN(4)] = byte(r.UintN(256))
		}
	case 8: // insert bytes in the options area
		if len(out) > 240 {
			i := 240 + r.IntN(len(out)-240)
			ins := Bytes(r, 1+r.IntN(6))
			out = append(out[:i:i], append(ins, out[i:]...)...)
		}
	}
	return out
}
