package v6util

import "fmt"

func sprintT(v any) string { return fmt.Sprintf("%T", v) }
