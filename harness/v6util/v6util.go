// Package v6util has helpers shared by the DHCPv6 checks.
package v6util

import (
	"sort"

	"github.com/insomniacslk/dhcp/dhcpv6"
)

// TypedCodes discovers at run time the option codes the library has a typed parser for:
// ParseOption(code, nil) returns the concrete type even when parsing fails.
func TypedCodes() map[int]string {
	out := map[int]string{}
	for c := 0; c < 65536; c++ {
		func() {
			defer func() { recover() }()
			o, _ := dhcpv6.ParseOption(dhcpv6.OptionCode(c), nil)
			if o == nil {
				return
			}
			if _, ok := o.(*dhcpv6.OptionGeneric); !ok {
				out[c] = typeName(o)
			}
		}()
	}
	return out
}

func typeName(o dhcpv6.Option) string {
	return sprintT(o)
}

func SortedCodes(m map[int]string) []int {
	var l []int
	for c := range m {
		l = append(l, c)
	}
	sort.Ints(l)
	return l
}
