package c11

import (
	"context"
	"fmt"
	"sync/atomic"
	"testing"
	"testing/synctest"
	"time"

	"verif/harness/cli"
	"verif/harness/mon"
	"verif/harness/sconn"
)

// dcloseT: Close is called from two goroutines at once (a shutdown path and a deferred Close); the first call is still
// inside the connection's Close when the second one is made.  Both return, nothing panics, a call in flight returns
// the no-response error at that instant, no goroutine is left behind.
type dcloseT struct {
	DClose   bool   `json:"double_close"`
	Fam      string `json:"fam"`
	InFlight bool   `json:"in_flight"`
	Third    bool   `json:"third_close_afterwards"`
	Cfg      int    `json:"cfg"`
}

func judgeDClose(r *mon.Rec, t *testing.T, sc dcloseT) {
	r.Current(sc)
	r.Eval(1)
	f := fam(sc.Fam)
	var pan1, pan2 any
	var ret1, ret2, callRet bool
	var callErr error
	var callAt, closeAt time.Duration
	var e3 error
	pan, val, st := mon.Guard(func() {
		synctest.Test(t, func(t *testing.T) {
			conn := sconn.New(0)
			gate := make(chan struct{})
			var n atomic.Int32
			conn.OnClose = func() {
				if n.Add(1) == 1 {
					<-gate // the first Close call stays inside conn.Close until the second Close call has been made
				}
			}
			c, e := f.NewCfg(conn, time.Hour, 1, sc.Cfg)
			if e != nil {
				t.Fatal(e)
			}
			start := time.Now()
			cdone := make(chan struct{})
			if sc.InFlight {
				go func() {
					defer close(cdone)
					_, _, callErr = c.SendAndRead(context.Background(), dest, f.Request(0x00beef01, 0), nil)
					callAt = time.Since(start)
					callRet = true
				}()
			} else {
				close(cdone)
			}
			time.Sleep(10 * time.Millisecond)
			synctest.Wait()
			closeAt = time.Since(start)
			d1, d2 := make(chan struct{}), make(chan struct{})
			go func() {
				defer close(d1)
				defer func() { pan1 = recover() }()
				c.Close()
				ret1 = true
			}()
			synctest.Wait()
			go func() {
				defer close(d2)
				defer func() { pan2 = recover() }()
				c.Close()
				ret2 = true
			}()
			synctest.Wait()
			close(gate)
			synctest.Wait()
			time.Sleep(time.Second)
			synctest.Wait()
			if ret1 && ret2 && sc.Third {
				e3 = c.Close()
			}
			if !callRet && sc.InFlight {
				conn.Close() // unblock whatever can still be unblocked so that the bubble can end
			}
			<-d1
			<-d2
			<-cdone
		})
	})
	bad := func(key, msg string, a ...any) {
		r.Violate("C11:double-close:"+key, fmt.Sprintf("%s, two overlapping Close calls (call in flight: %v): ", sc.Fam, sc.InFlight)+fmt.Sprintf(msg, a...), sc)
	}
	if pan1 != nil || pan2 != nil {
		bad("close-panics", "Close panicked: %v / %v", pan1, pan2)
		return
	}
	if pan {
		s := fmt.Sprint(val)
		key := "panic"
		if len(s) >= 8 && s[:8] == "deadlock" {
			key = "deadlock"
		}
		bad(key+":"+mon.LibFrame(st), "%s (first Close returned: %v, second: %v, call returned: %v)", s, ret1, ret2, callRet)
		return
	}
	if !ret1 || !ret2 {
		bad("close-stuck", "first Close returned: %v, second Close returned: %v", ret1, ret2)
		return
	}
	if e3 != nil {
		bad("close-result", "a third Close afterwards returned %v", e3)
		return
	}
	if sc.InFlight && (!callRet || !f.IsNoResponse(callErr) || callAt != closeAt) {
		bad("call-not-ended", "the call in flight returned=%v err=%v at %v; the client was closed at %v", callRet, callErr, callAt, closeAt)
		return
	}
	r.Shape(fmt.Sprintf("dclose/%s/%v/%v", sc.Fam, sc.InFlight, sc.Third), true)
	r.Count("double_close_scenarios", 1)
}

func dcloseGrid() []dcloseT {
	var out []dcloseT
	for _, fm := range []string{"nclient4", "nclient6"} {
		for _, inf := range []bool{false, true} {
			for _, third := range []bool{false, true} {
				for k := 0; k < 4; k++ {
					out = append(out, dcloseT{true, fm, inf, third, len(out) % cli.NCfg})
				}
			}
		}
	}
	return out
}
