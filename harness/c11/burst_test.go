package c11

import (
	"context"
	"fmt"
	"testing"
	"testing/synctest"
	"time"

	"verif/harness/cli"
	"verif/harness/mon"
	"verif/harness/sconn"
)

// burstT: one caller whose matcher is slow (it takes S of virtual time per datagram), and a burst of same-transaction
// datagrams that arrive back to back: Pre datagrams of a type the matcher rejects, then two acceptable ones.  The
// per-transaction buffer fills up and the receive loop has to wait for the caller, for as long as the caller needs.
// C11's clause: the call returns with the response as soon as an acceptable one arrives, also when it arrives behind a
// burst that fills the transaction's buffer (the same scenario decides "first acceptable in arrival order" in C10).
type burstT struct {
	Burst bool          `json:"burst"`
	Fam   string        `json:"fam"`
	S     time.Duration `json:"s"`
	Pre   int           `json:"pre"`
	Cfg   int           `json:"cfg"`
	Post  int           `json:"post"` // acceptable same-transaction datagrams behind the first acceptable one (>= 1); with 7 or more the receive loop is parked on the full buffer when the call returns
}

func judgeBurst(r *mon.Rec, t *testing.T, b burstT) {
	r.Current(b)
	r.Eval(1)
	f := fam(b.Fam)
	var seenBy []int
	var got cli.Resp
	var gotMsg bool
	var err error
	var at time.Duration
	returned := false
	var fGot, follow bool
	var fErr, reuseErr error
	var fNonce int
	var fAt time.Duration
	pan, val, st := mon.Guard(func() {
		synctest.Test(t, func(t *testing.T) {
			conn := sconn.New(0)
			c, e := f.NewCfg(conn, time.Hour, 1, b.Cfg)
			if e != nil {
				t.Fatal(e)
			}
			start := time.Now()
			const xid = uint32(7)
			accept := f.AcceptType()
			m := func(rp cli.Resp) bool {
				if rp.Nil {
					seenBy = append(seenBy, -1)
					return false
				}
				seenBy = append(seenBy, rp.Nonce)
				time.Sleep(b.S)
				return rp.Type == accept
			}
			done := make(chan struct{})
			go func() {
				defer close(done)
				got, gotMsg, err = c.SendAndRead(context.Background(), dest, f.Request(xid, 0), m)
				at = time.Since(start)
				returned = true
				// its transaction id is reusable at once, also while the receive loop is still parked on the full buffer of
				// the call that has just returned (the new call may end with its context's error or with one of the stragglers
				// of the burst: both are in order; being refused is not)
				cctx, cc := context.WithCancel(context.Background())
				cc()
				_, _, reuseErr = c.SendAndRead(cctx, dest, f.Request(xid, 0), nil)
			}()
			synctest.Wait()
			fed := make(chan struct{})
			go func() {
				defer close(fed)
				for i := 1; i <= b.Pre+1+max(b.Post, 1); i++ {
					typ := f.OtherType()
					if i > b.Pre {
						typ = accept
					}
					if !conn.Inject(sconn.Datagram{B: f.Datagram("matching", xid, i, typ), From: dest, Nonce: i, Class: "matching"}) {
						return
					}
				}
			}()
			time.Sleep(time.Duration(b.Pre+4+b.Post)*b.S + time.Second)
			synctest.Wait()
			// afterwards the client is a client like before: a second call (alone on the client, another transaction id)
			// gets the reply that arrives for it
			if returned {
				fdone := make(chan struct{})
				fstart := time.Now()
				go func() {
					defer close(fdone)
					var rp cli.Resp
					rp, fGot, fErr = c.SendAndRead(context.Background(), dest, f.Request(xid+1, 0), func(rp cli.Resp) bool { return !rp.Nil && rp.Type == accept })
					fNonce = rp.Nonce
					fAt = time.Since(fstart)
				}()
				synctest.Wait()
				time.Sleep(time.Second)
				synctest.Wait()
				conn.Inject(sconn.Datagram{B: f.Datagram("matching", xid+1, 900, accept), From: dest, Nonce: 900, Class: "matching"})
				synctest.Wait()
				time.Sleep(2 * time.Hour) // beyond the client's single try
				synctest.Wait()
				follow = true
				c.Close()
				<-fdone
			} else {
				c.Close()
			}
			<-fed
			<-done
		})
	})
	bad := func(key, msg string, a ...any) {
		r.Violate("C11:burst:"+key, fmt.Sprintf("%s slow matcher (%v per datagram), %d rejected + %d acceptable datagrams back to back: ", b.Fam, b.S, b.Pre, 1+max(b.Post, 1))+fmt.Sprintf(msg, a...), b)
	}
	if pan {
		bad("panic:"+mon.LibFrame(st), "%v", val)
		return
	}
	if !returned {
		bad("never-returned", "the call did not return")
		return
	}
	for i, n := range seenBy {
		if n != i+1 {
			bad("matcher-order", "the matcher was shown datagrams %v; arrival order is 1..%d without a gap", seenBy, b.Pre+1)
			return
		}
	}
	if err != nil || !gotMsg || got.Nonce != b.Pre+1 || got.Damaged {
		bad("not-first-acceptable", "datagram %d is the first the matcher accepts, the call returned nonce=%d err=%v (at %v; matcher saw %v)", b.Pre+1, got.Nonce, err, at, seenBy)
		return
	}
	if len(seenBy) != b.Pre+1 {
		bad("matcher-order", "the matcher was shown %d datagrams, want %d", len(seenBy), b.Pre+1)
		return
	}
	if want := time.Duration(b.Pre+1) * b.S; at != want {
		bad("return-instant", "the call returned at %v, the matcher was done with datagram %d at %v", at, b.Pre+1, want)
		return
	}
	if f.IsInUse(reuseErr) {
		bad("xid-not-reusable", "a call with the same transaction id right after the return was refused: %v", reuseErr)
		return
	}
	if follow && (fErr != nil || !fGot || fNonce != 900 || fAt != time.Second) {
		bad("followup-call", "a second call on the same client after the burst (alone, another transaction id, its reply injected 1 s after its start) returned nonce=%d msg=%v err=%v at %v", fNonce, fGot, fErr, fAt)
		return
	}
	r.Shape(fmt.Sprintf("burst/%s/%v/%d/%d", b.Fam, b.S, b.Pre, b.Post), b.Pre >= 5)
	r.Count("burst.datagrams", b.Pre+2)
}

func burstGrid() []burstT {
	var out []burstT
	for _, fm := range []string{"nclient4", "nclient6"} {
		for _, s := range []time.Duration{time.Millisecond, 30 * time.Millisecond, 150 * time.Millisecond, 2 * time.Second, time.Minute} {
			for pre := 0; pre <= 12; pre++ {
				out = append(out, burstT{true, fm, s, pre, len(out) % cli.NCfg, []int{1, 8, 2, 11}[pre%4]})
			}
		}
	}
	return out
}
