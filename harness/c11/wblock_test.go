package c11

import (
	"context"
	"fmt"
	"testing"
	"testing/synctest"
	"time"

	"verif/harness/cli"
	"verif/harness/mon"
	"verif/harness/sconn"
)

// wblockT: two calls on one client.  Call A's first transmission stays inside WriteTo for Block (a socket whose send
// buffer is full, a slow tunnel device).  While it is parked there, call B -- another transaction id -- is made at
// instant StartB and is a call like any other: with silence it fails with the no-response error one budget after its
// start, with its context cancelled at TC it returns at TC, with an acceptable response at TA it returns that at TA.
// Nothing about A's write may hold B up.  Afterwards A completes too (its own schedule starts when its write returns).
type wblockT struct {
	WBlock bool          `json:"wblock"`
	Fam    string        `json:"fam"`
	Block  time.Duration `json:"block"`
	StartB time.Duration `json:"start_b"`
	Mode   string        `json:"mode"` // silence | cancel | response | close (Close is called at At, while A is still parked)
	At     time.Duration `json:"at"`   // instant of the cancel / of the response
	Cfg    int           `json:"cfg"`
}

func judgeWBlock(r *mon.Rec, t *testing.T, sc wblockT) {
	r.Current(sc)
	r.Eval(1)
	f := fam(sc.Fam)
	const T = 100 * time.Millisecond
	const N = 2
	budget := T * time.Duration((1<<N)-1)
	xidA, xidB := uint32(0x00a0a0a0), uint32(0x00b0b0b1)
	var atB, atA time.Duration
	var errB, errA error
	var gotB, retB, retA, closed, closeRet bool
	var closeAt time.Duration
	var respB cli.Resp
	pan, val, st := mon.Guard(func() {
		synctest.Test(t, func(t *testing.T) {
			conn := sconn.New(0)
			first := true
			conn.OnWrite = func(w sconn.Write) {
				if first { // A's first transmission: parked inside WriteTo (until the connection is closed, at the latest)
					first = false
					select {
					case <-time.After(sc.Block):
					case <-conn.Done():
					}
				}
			}
			c, e := f.NewCfg(conn, T, N, sc.Cfg)
			if e != nil {
				t.Fatal(e)
			}
			start := time.Now()
			match := func(rp cli.Resp) bool { return !rp.Nil && rp.Type == f.AcceptType() }
			doneA, doneB := make(chan struct{}), make(chan struct{})
			go func() {
				defer close(doneA)
				_, _, errA = c.SendAndRead(context.Background(), dest, f.Request(xidA, 0), match)
				atA = time.Since(start)
				retA = true
			}()
			synctest.Wait() // A is inside WriteTo
			time.Sleep(sc.StartB)
			ctxB, cancelB := context.WithCancel(context.Background())
			defer cancelB()
			go func() {
				defer close(doneB)
				respB, gotB, errB = c.SendAndRead(ctxB, dest, f.Request(xidB, 0), match)
				atB = time.Since(start)
				retB = true
			}()
			synctest.Wait()
			switch sc.Mode {
			case "cancel":
				time.Sleep(sc.At - time.Since(start))
				cancelB()
			case "response":
				time.Sleep(sc.At - time.Since(start))
				conn.Inject(sconn.Datagram{B: f.Datagram("matching", xidB, 1, f.AcceptType()), From: dest, Nonce: 1, Class: "matching"})
			case "close":
				time.Sleep(sc.At - time.Since(start))
				cdone := make(chan struct{})
				go func() {
					c.Close()
					closeAt = time.Since(start)
					closeRet = true
					close(cdone)
				}()
				synctest.Wait()
				_ = cdone
			}
			synctest.Wait()
			time.Sleep(sc.Block + 20*T)
			synctest.Wait()
			if retA && retB {
				c.Close()
				closed = true
				<-doneA
				<-doneB
				return
			}
			// something is stuck: unblock what can be unblocked so that the bubble can end
			cancelB()
			go c.Close()
			time.Sleep(time.Second)
			synctest.Wait()
		})
	})
	bad := func(key, msg string, a ...any) {
		r.Violate("C11:wblock:"+key, fmt.Sprintf("%s another call's write is parked for %v; call B (mode %s at %v) started at %v: ", sc.Fam, sc.Block, sc.Mode, sc.At, sc.StartB)+fmt.Sprintf(msg, a...), sc)
	}
	if pan {
		s := fmt.Sprint(val)
		if !retB {
			bad("held-up", "call B never returned (%.200s)", s)
			return
		}
		bad("panic-or-deadlock:"+mon.LibFrame(st), "%.300s", s)
		return
	}
	if !retB || !retA || !closed {
		bad("held-up", "returned: B=%v A=%v, Close=%v", retB, retA, closed)
		return
	}
	wantAt, what := sc.StartB+budget, "noresp"
	if sc.Mode == "close" {
		// Close does not wait for a transmission in flight: it returns at once, and both calls end there
		if !closeRet || closeAt != sc.At {
			bad("close-held-up", "Close called at %v returned=%v at %v", sc.At, closeRet, closeAt)
			return
		}
		if sc.At < wantAt {
			wantAt = sc.At
		}
		if atB != wantAt || !f.IsNoResponse(errB) && errB == nil {
			bad("held-up", "call B returned at %v with err=%v, expected it to end at %v", atB, errB, wantAt)
			return
		}
		if atA > sc.At || errA == nil {
			bad("blocked-call", "call A, parked in its write when Close was called at %v, returned at %v with err=%v", sc.At, atA, errA)
			return
		}
		r.Shape(fmt.Sprintf("wblock/%s/%v/%v/%s", sc.Fam, sc.Block, sc.StartB, sc.Mode), true)
		r.Count("wblock.scenarios", 1)
		return
	}
	switch sc.Mode {
	case "cancel":
		if sc.At < wantAt {
			wantAt, what = sc.At, "ctx"
		}
	case "response":
		if sc.At < wantAt {
			wantAt, what = sc.At, "response"
		}
	}
	if atB != wantAt {
		bad("held-up", "call B returned at %v with err=%v, expected %s at %v", atB, errB, what, wantAt)
		return
	}
	switch what {
	case "noresp":
		if !f.IsNoResponse(errB) || gotB {
			bad("result", "call B returned err=%v msg=%v, want the no-response error", errB, gotB)
			return
		}
	case "ctx":
		if errB != context.Canceled || gotB {
			bad("result", "call B returned err=%v msg=%v, want the context's error", errB, gotB)
			return
		}
	case "response":
		if errB != nil || !gotB || respB.Nonce != 1 || respB.Damaged {
			bad("result", "call B returned err=%v msg=%v nonce=%d, want the response", errB, gotB, respB.Nonce)
			return
		}
	}
	// A: its transmission took Block; it then waits one try, retransmits, waits two more: Block + budget
	if !f.IsNoResponse(errA) || atA != sc.Block+budget {
		bad("blocked-call", "call A (whose first write took %v) returned at %v with err=%v, expected the no-response error at %v", sc.Block, atA, errA, sc.Block+budget)
		return
	}
	r.Shape(fmt.Sprintf("wblock/%s/%v/%v/%s", sc.Fam, sc.Block, sc.StartB, sc.Mode), true)
	r.Count("wblock.scenarios", 1)
}

func wblockGrid() []wblockT {
	var out []wblockT
	const T = 100 * time.Millisecond
	for _, fm := range []string{"nclient4", "nclient6"} {
		for _, block := range []time.Duration{5 * T, 50 * T} {
			for _, sb := range []time.Duration{0, T / 3, 2 * T} {
				out = append(out, wblockT{true, fm, block, sb, "silence", 0, len(out) % cli.NCfg})
				for _, at := range []time.Duration{sb + 1, sb + T/2, sb + T + T/2} {
					out = append(out, wblockT{true, fm, block, sb, "close", at, len(out) % cli.NCfg})
					out = append(out, wblockT{true, fm, block, sb, "cancel", at, len(out) % cli.NCfg})
					out = append(out, wblockT{true, fm, block, sb, "response", at, len(out) % cli.NCfg})
				}
			}
		}
	}
	return out
}
