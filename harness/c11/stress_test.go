package c11

import (
	"fmt"
	"testing"
	"time"

	"verif/harness/cli"
	"verif/harness/cstress"
	"verif/harness/mon"
)

type sreplay struct {
	Stress int    `json:"stress_idx"`
	Fam    string `json:"fam"`
}

// TestStress: real time, built with -race. Close races in-flight calls and arriving datagrams.
func TestStress(t *testing.T) {
	r := mon.New("C11")
	defer r.Flush()
	n := r.Pick(1000, 100000)
	var srp sreplay
	only := -2
	if mon.ReplayCase(&srp) { // re-run one recorded history (schedules differ from run to run: it is repeated 50 times)
		only = srp.Stress
		n = 50
	}
	for j := 0; j < n; j++ {
		i := j
		if only >= 0 {
			i = only
		} else if !r.Mine(i) {
			continue
		}
		fm := []string{"nclient4", "nclient6"}[i%2]
		rng := r.Rand("stress", i)
		o := cstress.Opts{Callers: 8, PerCaller: 3 + rng.IntN(4), XidPool: 2 + rng.IntN(9), CloseMid: i%4 != 3, T: time.Duration(2+rng.IntN(6)) * time.Millisecond, Cfg: rng.IntN(cli.NCfg), Tries: []int{1, 1, 2, 3, 1, 1}[i%6]}
		h := cstress.Run(fam(fm), rng, o)
		r.Eval(1)
		if len(h.Stuck) > 0 && only < 0 {
			// first stage: the wait expired among the other cases of a (possibly loaded) machine -- the driver re-runs
			// this history alone with a six-fold limit, and only that verdict counts
			r.Set("suspect_slow", []any{sreplay{i, fm}})
			r.Inconclusive("client goroutines still blocked 20 s after Close; history re-run alone by the driver")
			break
		}
		fs := cstress.CheckC11(h)
		for _, f := range fs {
			r.Violate("C11:stress:"+f.Key, f.Msg, sreplay{i, fm})
		}
		if len(h.Stuck) > 0 {
			break // do not pay the 20 s watchdog again for every further history of this shard
		}
		if len(fs) > 0 {
			continue
		}
		kinds := map[string]int{}
		for _, c := range h.Calls {
			kinds[c.ErrKind]++
			r.Count("stress.call."+c.ErrKind, 1)
		}
		r.Count("stress.events", h.Events)
		r.Count("stress.hook_hits", h.HookHits)
		r.Shape(fmt.Sprintf("%s/%x", fm, h.OrderHash), len(h.Calls) >= 2)
		if r.NSamples() < 3 {
			r.Sample(map[string]any{"stress_history": i, "fam": fm, "calls": len(h.Calls), "datagrams": len(h.Dgrams), "events": h.Events, "outcomes": kinds, "close_mid": o.CloseMid, "hook_hits": h.HookHits})
		}
	}
}
