package c11

import (
	"context"
	"errors"
	"fmt"
	"io"
	"net"
	"os"
	"sort"
	"syscall"
	"testing"
	"testing/synctest"
	"time"

	"verif/harness/cli"
	"verif/harness/mon"
	"verif/harness/sconn"
)

type scenario struct {
	Fam     string        `json:"fam"`
	T       time.Duration `json:"T"`
	N       int           `json:"n"`
	Traffic string        `json:"traffic"` // silence | accept | reject-T/7 | reject-T/2 | reject-T-1 | burst | mixture | reject+accept
	TA      time.Duration `json:"ta"`      // instant of the acceptable response / of the burst (-1: none)
	Event   string        `json:"event"`   // none | cancel | deadline | close | close2
	TC      time.Duration `json:"tc"`
	Cfg     int           `json:"cfg"` // client logging configuration (cli.NewCfg)
	// Fault > 0: at that instant the pending read on the connection fails (a passing error: an ICMP error reported on
	// the socket, an expired read deadline, the interface going down); nothing is read afterwards, so later traffic of
	// the script is left out.  The call goes on like any other.
	Fault time.Duration `json:"fault,omitempty"`
}

func fam(name string) cli.Family {
	if name == "nclient4" {
		return cli.V4{}
	}
	return cli.V6{}
}

var dest = &net.UDPAddr{IP: net.IPv4bcast, Port: 67}

var errScriptedClose = errors.New("scripted error from conn.Close")

type outcome struct {
	returned   bool
	at         time.Duration
	err        error
	resp       cli.Resp
	gotMsg     bool
	reuseErr   error // result of an immediate second call with the same transaction id
	closeErr   error
	close2Err  error
	closeAt    time.Duration
	injected   int
	matcherNil int
	// a further complete call on the same client, started right after the first one returned
	follow       bool
	followStart  time.Duration
	followAt     time.Duration
	followErr    error
	followGotMsg bool
}

type timed struct {
	at   time.Duration
	kind string // inject:<class>:<type> | cancel | close
	ord  int
}

func script(sc scenario, f cli.Family, budget time.Duration) []timed {
	var ev []timed
	add := func(at time.Duration, kind string) { ev = append(ev, timed{at, kind, len(ev)}) }
	reject := func(delta time.Duration) {
		if delta <= 0 {
			delta = 1
		}
		end := 3*budget + 3*sc.T
		cnt := 0
		for t := delta; t < end && cnt < 400; t += delta {
			if t != sc.TC && t != sc.TA {
				add(t, "inject:other-type")
			}
			cnt++
		}
	}
	switch sc.Traffic {
	case "accept":
		add(sc.TA, "inject:matching")
	case "reject-T/7":
		reject(sc.T / 7)
	case "reject-T/2":
		reject(sc.T / 2)
	case "reject-T-1":
		reject(sc.T - 1)
	case "burst":
		for i := 0; i < 8; i++ { // bufferCap (5) + 3 rejected datagrams at one instant
			add(sc.TA, "inject:other-type")
		}
	case "mixture":
		for i, t := 0, sc.T/5; t < 3*budget && i < 200; i, t = i+1, t+sc.T/5+time.Duration(i) {
			if t == sc.TC {
				continue
			}
			add(t, "inject:"+[]string{"other-type", "wrong-xid", "undecodable", "other-type", "empty"}[i%5])
		}
	case "reject+accept":
		reject(sc.T / 3)
		add(sc.TA, "inject:matching")
	case "junk+accept": // malformed datagrams of three kinds first (what the client does with them is C10's business; that it
		// goes on reading whole datagrams afterwards is the point here), then the acceptable response
		for i, k := range []string{"undecodable", "empty", "wrong-xid", "undecodable"} {
			if at := sc.T/7 + time.Duration(i)*sc.T/11; at != sc.TA && at != sc.TC {
				add(at, "inject:"+k)
			}
		}
		add(sc.TA, "inject:matching")
	}
	switch sc.Event {
	case "cancel":
		add(sc.TC, "cancel")
	case "close", "close2", "close-err":
		add(sc.TC, "close")
	}
	if sc.Fault > 0 {
		kept := ev[:0]
		for _, e := range ev {
			if len(e.kind) < 6 || e.kind[:6] != "inject" || e.at < sc.Fault {
				kept = append(kept, e)
			}
		}
		ev = kept
		add(sc.Fault, "fault")
	}
	sort.SliceStable(ev, func(i, j int) bool { return ev[i].at < ev[j].at })
	return ev
}

func faultErr(k int) error {
	switch k % 4 {
	case 0:
		return &net.OpError{Op: "read", Net: "udp", Err: os.NewSyscallError("recvfrom", syscall.ECONNREFUSED)}
	case 1:
		return os.ErrDeadlineExceeded
	case 2:
		return &net.OpError{Op: "read", Net: "packet", Err: syscall.ENETDOWN}
	}
	return io.ErrUnexpectedEOF
}

func run(t *testing.T, sc scenario) (out outcome) {
	f := fam(sc.Fam)
	budget := sc.T * time.Duration((int64(1)<<uint(sc.N))-1)
	synctest.Test(t, func(t *testing.T) {
		conn := sconn.New(0)
		if sc.Event == "close-err" {
			// the connection reports an error from Close (e.g. its owner closed it first): the client is closed all the same
			conn.CloseErr = errScriptedClose
		}
		c, err := f.NewCfg(conn, sc.T, sc.N, sc.Cfg)
		if err != nil {
			t.Fatal(err)
		}
		start := time.Now()
		xid := uint32(0x00c0ffee)
		if sc.Traffic == "instant-reply" {
			// a server that answers at once: the reply is read and routed by the receive loop
			// before the client's WriteTo returns
			first := true
			conn.OnWrite = func(w sconn.Write) {
				if !first {
					return
				}
				first = false
				n := conn.Reads()
				conn.Inject(sconn.Datagram{B: f.Datagram("matching", xid, 1, f.AcceptType()), From: dest, Nonce: 1, Class: "matching"})
				out.injected++
				conn.WaitReads(n + 1) // the receive loop has routed the reply and is reading again
			}
		}
		req := f.Request(xid, 0)
		ctx, cancel := context.WithCancel(context.Background())
		if sc.Event == "deadline" {
			var c2 context.CancelFunc
			ctx, c2 = context.WithDeadline(ctx, start.Add(sc.TC))
			defer c2()
		}
		defer cancel()
		match := func(r cli.Resp) bool {
			if r.Nil {
				out.matcherNil++
				return false
			}
			return r.Type == f.AcceptType()
		}
		done := make(chan struct{})
		go func() {
			defer close(done)
			out.resp, out.gotMsg, out.err = c.SendAndRead(ctx, dest, req, match)
			out.at = time.Since(start)
			out.returned = true
			// immediately afterwards the transaction id must be reusable
			cctx, cc := context.WithCancel(context.Background())
			cc()
			if !conn.Closed() {
				_, _, out.reuseErr = c.SendAndRead(cctx, dest, req, match)
			}
			if !conn.Closed() {
				out.follow = true
				out.followStart = time.Since(start)
				_, out.followGotMsg, out.followErr = c.SendAndRead(context.Background(), dest, req, match)
				out.followAt = time.Since(start)
			}
		}()
		synctest.Wait()
		nonce := 0
		closed := false
		for _, e := range script(sc, f, budget) {
			if d := e.at - time.Since(start); d > 0 {
				time.Sleep(d)
			}
			synctest.Wait()
			switch {
			case e.kind == "fault":
				if !closed {
					conn.Inject(sconn.Datagram{Err: faultErr(sc.Cfg + sc.N)})
				}
			case e.kind == "cancel":
				cancel()
			case e.kind == "close":
				out.closeErr = c.Close()
				out.closeAt = time.Since(start)
				closed = true
				if sc.Event == "close2" {
					out.close2Err = c.Close()
				}
			default:
				if closed {
					continue
				}
				nonce++
				cls := e.kind[len("inject:"):]
				typ := f.OtherType()
				if cls == "matching" {
					typ = f.AcceptType()
				}
				b := f.Datagram(cls, xid, nonce, typ)
				if cls == "other-type" {
					b = f.Datagram("matching", xid, nonce, typ) // same transaction id, a type the matcher rejects
				}
				conn.Inject(sconn.Datagram{B: b, From: dest, Nonce: nonce, Class: cls})
				out.injected++
			}
			synctest.Wait()
		}
		// let everything that is still pending run to its end
		time.Sleep(8*budget + 8*sc.T)
		synctest.Wait()
		if !out.returned {
			cancel()
			synctest.Wait()
		}
		if !closed {
			out.closeErr = c.Close()
			out.close2Err = c.Close()
		}
		<-done
	})
	return out
}

func judge(r *mon.Rec, t *testing.T, sc scenario) {
	r.Current(sc)
	r.Eval(1)
	f := fam(sc.Fam)
	budget := sc.T * time.Duration((int64(1)<<uint(sc.N))-1)
	var o outcome
	pan, val, st := mon.Guard(func() { o = run(t, sc) })
	bad := func(key, msg string, a ...any) {
		r.Violate("C11:"+key, fmt.Sprintf("%s T=%v n=%d traffic=%s(ta=%v) event=%s(tc=%v): ", sc.Fam, sc.T, sc.N, sc.Traffic, sc.TA, sc.Event, sc.TC)+fmt.Sprintf(msg, a...), sc)
	}
	if pan {
		s := fmt.Sprint(val)
		key := "panic"
		if len(s) >= 8 && s[:8] == "deadlock" {
			key = "deadlock"
		}
		bad(key+":"+mon.LibFrame(st), "%s", s)
		return
	}
	// expected outcome from the statement
	type exp struct {
		at   time.Duration
		what string // response | ctx | closed | noresp
	}
	e := exp{budget, "noresp"}
	hasAccept := (sc.Traffic == "accept" || sc.Traffic == "reject+accept" || sc.Traffic == "junk+accept") && (sc.Fault == 0 || sc.TA < sc.Fault)
	if hasAccept && sc.TA < e.at {
		e = exp{sc.TA, "response"}
	}
	if sc.Traffic == "instant-reply" {
		e = exp{0, "response"}
	}
	switch sc.Event {
	case "cancel", "deadline":
		if sc.TC < e.at {
			e = exp{sc.TC, "ctx"}
		}
	case "close", "close2", "close-err":
		if sc.TC < e.at {
			e = exp{sc.TC, "closed"}
		}
	}
	if !o.returned {
		bad("never-returned", "call did not return before the context was finally cancelled (budget %v)", budget)
		return
	}
	if o.matcherNil > 0 {
		bad("matcher-got-nil", "matcher invoked with a nil message %d times", o.matcherNil)
		return
	}
	if o.at > budget && e.what == "noresp" || o.at > e.at {
		bad("late-return:"+e.what, "call returned at %v, allowed at most %v (%s); retry budget T*(2^n-1) = %v; %d datagrams injected", o.at, e.at, e.what, budget, o.injected)
		return
	}
	if o.at < e.at {
		bad("early-return:"+e.what, "call returned at %v with err=%v, expected %s at %v", o.at, o.err, e.what, e.at)
		return
	}
	switch e.what {
	case "response":
		if o.err != nil || !o.gotMsg || o.resp.Type != f.AcceptType() {
			bad("response-lost", "acceptable response arrived at %v; call returned err=%v msg=%v", sc.TA, o.err, o.gotMsg)
			return
		}
		if o.resp.Damaged {
			bad("response-damaged", "the call returned the response that arrived at %v, but not all of it (its trailer option is missing or changed)", sc.TA)
			return
		}
	case "ctx":
		want := context.Canceled
		if sc.Event == "deadline" {
			want = context.DeadlineExceeded
		}
		if o.err != want || o.gotMsg {
			bad("context-error", "context ended at %v; call returned err=%v (want %v)", sc.TC, o.err, want)
			return
		}
	case "closed":
		if !f.IsNoResponse(o.err) || o.gotMsg {
			bad("close-error", "client closed at %v; call returned err=%v (want the no-response error)", sc.TC, o.err)
			return
		}
	case "noresp":
		if !f.IsNoResponse(o.err) || o.gotMsg {
			bad("timeout-error", "no acceptable response; call returned err=%v msg=%v", o.err, o.gotMsg)
			return
		}
	}
	if e.what != "closed" && o.reuseErr != context.Canceled {
		bad("xid-not-reusable", "a call with the same transaction id immediately after the return got %v", o.reuseErr)
		return
	}
	if sc.Event == "close-err" {
		o.closeErr = nil // what Close returns when the connection reported an error is not laid down: passed on, wrapped or dropped
	}
	if o.follow {
		// the follow-up call starts when the first one has returned and is a call like any other: it ends with the
		// acceptable response if that is still to come, with the no-response error when the client is closed, and
		// otherwise exactly one retry budget after its start
		fe := exp{o.followStart + budget, "noresp"}
		if hasAccept && sc.TA > o.followStart && sc.TA < fe.at {
			fe = exp{sc.TA, "response"}
		}
		if (sc.Event == "close" || sc.Event == "close2" || sc.Event == "close-err") && sc.TC > o.followStart && sc.TC < fe.at {
			fe = exp{sc.TC, "closed"}
		}
		if o.followStart != o.at {
			bad("followup-start", "follow-up call started at %v, the first call returned at %v", o.followStart, o.at)
			return
		}
		if o.followAt != fe.at {
			bad("followup-return:"+fe.what, "a second call on the same client, started at %v, returned at %v with err=%v; expected %s at %v (budget %v)", o.followStart, o.followAt, o.followErr, fe.what, fe.at, budget)
			return
		}
		if fe.what == "response" && (o.followErr != nil || !o.followGotMsg) || fe.what != "response" && (!f.IsNoResponse(o.followErr) || o.followGotMsg) {
			bad("followup-result:"+fe.what, "a second call on the same client returned err=%v msg=%v, expected %s", o.followErr, o.followGotMsg, fe.what)
			return
		}
		r.Count("followup_calls_checked", 1)
	}
	if o.closeErr != nil || o.close2Err != nil {
		bad("close-result", "Close returned %v, second Close %v", o.closeErr, o.close2Err)
		return
	}
	pos := func(x time.Duration) string {
		switch {
		case x < 0:
			return "-"
		case x < sc.T:
			return "try0"
		case x < budget:
			return "later"
		}
		return "after"
	}
	r.Shape(fmt.Sprintf("%s/%v/%d/%s/%s/%s/%s/%s", sc.Fam, sc.T, sc.N, sc.Traffic, pos(sc.TA), sc.Event, pos(sc.TC), pos(sc.Fault-1)), sc.Traffic != "silence" || sc.Event != "none")
	if sc.Fault > 0 {
		r.Count("scenarios_with_a_read_fault", 1)
	}
	r.Count("datagrams_injected", o.injected)
	r.Count("outcome."+e.what, 1)
	if r.NSamples() < 6 && sc.N == 3 && sc.Traffic != "silence" && sc.Event != "none" {
		r.Sample(map[string]any{"scenario": sc, "returned_at": o.at.String(), "err": fmt.Sprint(o.err), "expected": e.what, "injected": o.injected})
	}
}

func grid(quick bool) []scenario {
	var out []scenario
	Ts := []time.Duration{time.Millisecond, 7 * time.Millisecond, 100 * time.Millisecond, 5 * time.Second}
	if !quick {
		Ts = append(Ts, 3*time.Microsecond, 33*time.Millisecond, 250*time.Millisecond, time.Second, 64*time.Second)
	}
	for _, fm := range []string{"nclient4", "nclient6"} {
		for _, T := range Ts {
			for n := 1; n <= 5; n++ {
				B := T * time.Duration((int64(1)<<uint(n))-1)
				instants := []time.Duration{1, T / 3, T - 1, T + 1, 2*T + T/2, B - 1, B + T}
				for _, tr := range []string{"instant-reply", "silence", "accept", "reject-T/7", "reject-T/2", "reject-T-1", "burst", "mixture", "reject+accept", "junk+accept"} {
					tas := []time.Duration{-1}
					if tr == "accept" || tr == "burst" || tr == "reject+accept" || tr == "junk+accept" {
						tas = instants[:6]
					}
					for _, ta := range tas {
						if ta >= B {
							continue
						}
						for _, ev := range []string{"none", "cancel", "deadline", "close", "close2", "close-err"} {
							tcs := []time.Duration{-1}
							if ev != "none" {
								tcs = instants
							}
							for _, tc := range tcs {
								if tc == ta && tc >= 0 {
									continue
								}
								if quick && ev != "none" && tr != "silence" && (int(tc)+int(ta)+n)%3 != 0 {
									continue // quick: a deterministic third of the (traffic x event instant) products
								}
								out = append(out, scenario{Fam: fm, T: T, N: n, Traffic: tr, TA: ta, Event: ev, TC: tc, Cfg: len(out) % cli.NCfg})
								// the same with a read fault at some instant (not for every product: silence, one
								// acceptable response, rejected streams; no event, cancel, close)
								if (tr == "silence" || tr == "accept" || tr == "reject-T/2" || tr == "instant-reply") && (ev == "none" || ev == "cancel" || ev == "close") {
									tf := instants[(len(out)+n)%len(instants)]
									if tf != ta && tf != tc && (!quick || len(out)%2 == 0) {
										out = append(out, scenario{Fam: fm, T: T, N: n, Traffic: tr, TA: ta, Event: ev, TC: tc, Cfg: len(out) % cli.NCfg, Fault: tf})
									}
								}
							}
						}
					}
				}
			}
		}
	}
	return out
}

func TestCheck(t *testing.T) {
	r := mon.New("C11")
	defer r.Flush()
	if os.Getenv("VERIF_REPLAY") == "" {
		r.Watchdog(60 * time.Second)
	}
	var sc scenario
	var wf wfailT
	if mon.ReplayCase(&wf) && wf.WFail {
		judgeWFail(r, t, wf)
		return
	}
	var bt burstT
	if mon.ReplayCase(&bt) && bt.Burst {
		judgeBurst(r, t, bt)
		return
	}
	var lh lockheldT
	if mon.ReplayCase(&lh) && lh.LockHeld {
		judgeLockHeld(r, t, lh)
		return
	}
	var wb wblockT
	if mon.ReplayCase(&wb) && wb.WBlock {
		judgeWBlock(r, t, wb)
		return
	}
	var dc dcloseT
	if mon.ReplayCase(&dc) && dc.DClose {
		judgeDClose(r, t, dc)
		return
	}
	var so slowtoT
	if mon.ReplayCase(&so) && so.SlowTO {
		for k := 0; k < 20; k++ { // the scenario depends on a random choice inside the call
			judgeSlowTO(r, t, so)
		}
		return
	}
	if mon.ReplayCase(&sc) {
		judge(r, t, sc)
		return
	}
	for i, dc := range dcloseGrid() {
		if r.Mine(i) {
			judgeDClose(r, t, dc)
		}
	}
	for i, so := range slowtoGrid(r.Quick()) {
		if r.Mine(i) {
			judgeSlowTO(r, t, so)
		}
	}
	for i, b := range burstGrid() {
		if r.Mine(i) {
			judgeBurst(r, t, b)
		}
	}
	for i, wf := range wfailGrid() {
		if r.Mine(i) {
			judgeWFail(r, t, wf)
		}
	}
	for i, lh := range lockheldGrid() {
		if r.Mine(i) {
			judgeLockHeld(r, t, lh)
		}
	}
	for i, wb := range wblockGrid() {
		if r.Mine(i) {
			judgeWBlock(r, t, wb)
		}
	}
	g := grid(r.Quick())
	for i, sc := range g {
		if r.Mine(i) {
			judge(r, t, sc)
		}
	}
	r.Set("grid_size", len(g))
}
