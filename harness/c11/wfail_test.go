package c11

import (
	"context"
	"errors"
	"fmt"
	"net"
	"os"
	"syscall"
	"testing"
	"testing/synctest"
	"time"

	"verif/harness/cli"
	"verif/harness/mon"
	"verif/harness/sconn"
)

// wfailT: the call's transmission blocks inside WriteTo, Burst same-transaction datagrams arrive meanwhile (the
// transaction is registered before the write, so they are routed to it; with 6 the buffer is full and the receive
// loop waits for the caller), and then the write fails.  Property: the call returns (at once, with an error -- a
// failed transmission is neither a response nor a timeout), its transaction id is reusable, Close returns, nothing
// is left behind.  FailTry: the try whose write fails (0 = the first, 1 = the retransmission after T).
type wfailT struct {
	WFail   bool   `json:"wfail"`
	Fam     string `json:"fam"`
	Burst   int    `json:"nburst"`
	FailTry int    `json:"fail_try"`
	Cfg     int    `json:"cfg"`
}

var errScriptedWrite = errors.New("scripted write error")

// writeErrOf: the errors a datagram socket's write fails with: an expired write deadline, no buffer space, a firewall
// rule, no route -- and an error of the harness' own
func writeErrOf(k int) error {
	switch k % 7 {
	case 5: // the link is not ready yet
		return &net.OpError{Op: "write", Net: "udp", Err: os.NewSyscallError("sendto", syscall.EADDRNOTAVAIL)}
	case 6:
		return &net.OpError{Op: "write", Net: "udp", Err: os.NewSyscallError("sendto", syscall.EHOSTUNREACH)}
	case 0:
		return errScriptedWrite
	case 1:
		return &net.OpError{Op: "write", Net: "udp", Err: os.ErrDeadlineExceeded}
	case 2:
		return &net.OpError{Op: "write", Net: "udp", Err: os.NewSyscallError("sendto", syscall.ENOBUFS)}
	case 3:
		return &net.OpError{Op: "write", Net: "udp", Err: os.NewSyscallError("sendto", syscall.EPERM)}
	}
	return &net.OpError{Op: "write", Net: "udp", Err: os.NewSyscallError("sendto", syscall.ENETUNREACH)}
}

func judgeWFail(r *mon.Rec, t *testing.T, sc wfailT) {
	r.Current(sc)
	r.Eval(1)
	f := fam(sc.Fam)
	const T = 100 * time.Millisecond
	var at, reuseAt time.Duration
	var err, reuseErr error
	var gotMsg, returned, closed bool
	pan, val, st := mon.Guard(func() {
		synctest.Test(t, func(t *testing.T) {
			conn := sconn.New(0)
			xid := uint32(0x00c0ffee)
			conn.OnWrite = func(w sconn.Write) {
				if len(conn.Writes()) != sc.FailTry+1 {
					return
				}
				for i := 1; i <= sc.Burst; i++ {
					conn.Inject(sconn.Datagram{B: f.Datagram("matching", xid, i, f.OtherType()), From: dest, Nonce: i, Class: "other-type"})
				}
				synctest.Wait() // every datagram has been routed (or the receive loop is parked on the full buffer) before the write fails
			}
			conn.WriteErr = func(k int) error {
				if k == sc.FailTry {
					return writeErrOf(sc.Cfg + sc.Burst)
				}
				return nil
			}
			c, e := f.NewCfg(conn, T, 3, sc.Cfg)
			if e != nil {
				t.Fatal(e)
			}
			start := time.Now()
			match := func(rp cli.Resp) bool { return !rp.Nil && rp.Type == f.AcceptType() }
			done := make(chan struct{})
			go func() {
				defer close(done)
				_, gotMsg, err = c.SendAndRead(context.Background(), dest, f.Request(xid, 0), match)
				at = time.Since(start)
				returned = true
				cctx, cc := context.WithCancel(context.Background())
				cc()
				_, _, reuseErr = c.SendAndRead(cctx, dest, f.Request(xid, 0), match)
				reuseAt = time.Since(start)
			}()
			time.Sleep(20 * T)
			synctest.Wait()
			if returned {
				c.Close()
				closed = true
				<-done
				return
			}
			// stuck: the bubble would never end; get the goroutines out of the way as far as possible
			conn.Close()
			go c.Close()
			time.Sleep(T)
			synctest.Wait()
		})
	})
	bad := func(key, msg string, a ...any) {
		r.Violate("C11:wfail:"+key, fmt.Sprintf("%s write #%d blocks, %d same-transaction datagrams arrive meanwhile, then the write fails: ", sc.Fam, sc.FailTry, sc.Burst)+fmt.Sprintf(msg, a...), sc)
	}
	if pan {
		s := fmt.Sprint(val)
		key := "panic"
		if len(s) >= 8 && s[:8] == "deadlock" {
			key = "deadlock"
		}
		if !returned {
			bad("never-returned:"+key, "the call did not return within 20 T (%s)", s)
			return
		}
		bad(key+":"+mon.LibFrame(st), "%s", s)
		return
	}
	if !returned || !closed {
		bad("never-returned", "the call did not return within 20 T (returned=%v, Close returned=%v)", returned, closed)
		return
	}
	wantAt := time.Duration(0)
	if sc.FailTry == 1 {
		wantAt = T
	}
	if at != wantAt {
		bad("late-return", "the call returned at %v with err=%v, the write failed at %v", at, err, wantAt)
		return
	}
	if err == nil || gotMsg || f.IsNoResponse(err) || errors.Is(err, context.Canceled) {
		bad("write-error-lost", "the call returned msg=%v err=%v: a failed transmission is neither a response nor a timeout", gotMsg, err)
		return
	}
	if reuseErr != context.Canceled || reuseAt != at {
		bad("xid-not-reusable", "a call with the same transaction id right afterwards returned %v at %v", reuseErr, reuseAt)
		return
	}
	r.Shape(fmt.Sprintf("wfail/%s/%d/%d", sc.Fam, sc.Burst, sc.FailTry), true)
	r.Count("wfail.scenarios", 1)
}

func wfailGrid() []wfailT {
	var out []wfailT
	for _, fm := range []string{"nclient4", "nclient6"} {
		for burst := 0; burst <= 6; burst++ {
			for ft := 0; ft <= 1; ft++ {
				out = append(out, wfailT{true, fm, burst, ft, len(out) % cli.NCfg})
			}
		}
	}
	return out
}
