package c11

import (
	"context"
	"fmt"
	"testing"
	"testing/synctest"
	"time"

	"verif/harness/cli"
	"verif/harness/mon"
	"verif/harness/sconn"
)

// slowtoT: the try's deadline passes while the caller is busy in its matcher and further same-transaction datagrams
// (all of a type the matcher rejects) are waiting in the transaction's buffer.  Whatever order the call then looks at
// "deadline passed" and "datagram waiting" in, it returns with the no-response error once the waiting datagrams have
// been shown to the matcher at the latest: no later than T + (Pre+1)*S.  (The time spent inside the matcher is the
// caller's own; nothing arrives after instant 0.)
type slowtoT struct {
	SlowTO bool          `json:"slow_timeout"`
	Fam    string        `json:"fam"`
	S      time.Duration `json:"s"`
	Pre    int           `json:"pre"`
	N      int           `json:"n"`
	Cfg    int           `json:"cfg"`
}

func judgeSlowTO(r *mon.Rec, t *testing.T, sc slowtoT) {
	r.Current(sc)
	r.Eval(1)
	f := fam(sc.Fam)
	T := sc.S*5/2 + time.Nanosecond
	budget := T * time.Duration((int64(1)<<uint(sc.N))-1)
	limit := budget + time.Duration(sc.Pre+1)*sc.S
	var at time.Duration
	var err error
	var gotMsg, returned bool
	seen := 0
	pan, val, st := mon.Guard(func() {
		synctest.Test(t, func(t *testing.T) {
			conn := sconn.New(0)
			c, e := f.NewCfg(conn, T, sc.N, sc.Cfg)
			if e != nil {
				t.Fatal(e)
			}
			start := time.Now()
			const xid = uint32(0x00abc123)
			accept := f.AcceptType()
			done := make(chan struct{})
			go func() {
				defer close(done)
				_, gotMsg, err = c.SendAndRead(context.Background(), dest, f.Request(xid, 0), func(rp cli.Resp) bool {
					seen++
					time.Sleep(sc.S)
					return !rp.Nil && rp.Type == accept
				})
				at = time.Since(start)
				returned = true
			}()
			synctest.Wait()
			fed := make(chan struct{})
			go func() {
				defer close(fed)
				for i := 1; i <= sc.Pre; i++ {
					if !conn.Inject(sconn.Datagram{B: f.Datagram("matching", xid, i, f.OtherType()), From: dest, Nonce: i, Class: "other-type"}) {
						return
					}
				}
			}()
			time.Sleep(limit + 10*T)
			synctest.Wait()
			c.Close()
			<-fed
			<-done
		})
	})
	bad := func(key, msg string, a ...any) {
		r.Violate("C11:slow-matcher-timeout:"+key, fmt.Sprintf("%s T=%v n=%d, matcher needs %v per datagram, %d rejected same-transaction datagrams at instant 0: ", sc.Fam, T, sc.N, sc.S, sc.Pre)+fmt.Sprintf(msg, a...), sc)
	}
	if pan {
		bad("panic:"+mon.LibFrame(st), "%v", val)
		return
	}
	if !returned {
		bad("never-returned", "the call did not return")
		return
	}
	if at > limit {
		bad("late-return", "the call returned at %v (err=%v, matcher calls %d); its schedule ends at %v and the last waiting datagram has been shown to the matcher by %v at the latest", at, err, seen, budget, limit)
		return
	}
	if gotMsg || !f.IsNoResponse(err) {
		bad("timeout-error", "the call returned msg=%v err=%v, want the no-response error", gotMsg, err)
		return
	}
	r.Shape(fmt.Sprintf("slowto/%s/%v/%d/%d", sc.Fam, sc.S, sc.Pre, sc.N), true)
	r.Count("slow_matcher_timeouts", 1)
}

func slowtoGrid(quick bool) []slowtoT {
	var out []slowtoT
	reps := 3
	if !quick {
		reps = 40
	}
	for _, fm := range []string{"nclient4", "nclient6"} {
		for _, s := range []time.Duration{time.Millisecond, 40 * time.Millisecond, 3 * time.Second} {
			for pre := 2; pre <= 12; pre++ {
				for n := 1; n <= 2; n++ {
					for k := 0; k < reps; k++ { // the order in which the call looks at deadline and buffer is its own (random) choice: repeat
						out = append(out, slowtoT{true, fm, s, pre, n, len(out) % cli.NCfg})
					}
				}
			}
		}
	}
	return out
}
