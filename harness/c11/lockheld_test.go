package c11

import (
	"context"
	"fmt"
	"runtime"
	"testing"
	"testing/synctest"
	"time"

	"verif/harness/cli"
	"verif/harness/mon"
	"verif/harness/sconn"
)

// lockheldT: call B's matcher is held at a gate while a burst for B fills its buffer, so that the receive loop is parked
// on that buffer (with whatever it holds while it delivers).  Meanwhile call A -- another transaction id -- is ended
// by its context.  Then the gate opens.  No virtual time passes in between (a goroutine waiting for a mutex would stall
// the bubble's clock), the schedule is driven by the gate alone.  Property: A returns with its context's error, and its
// transaction id is reusable when it has returned; B then gets its response; Close returns; nothing is left behind.
type lockheldT struct {
	LockHeld bool   `json:"lockheld"`
	Fam      string `json:"fam"`
	Burst    int    `json:"nburst"`
	Cfg      int    `json:"cfg"`
	// CloseGated: no call A; instead Close is called while B's matcher is at the gate and a backlog of Burst datagrams
	// for B stands behind it (in B's buffer, in the receive side's hands, in the connection).  Close may wait for the
	// matcher; once the gate opens, B returns, Close returns, and no goroutine of the client is left.
	CloseGated bool `json:"close_while_gated,omitempty"`
}

func judgeCloseGated(r *mon.Rec, t *testing.T, sc lockheldT) {
	f := fam(sc.Fam)
	var errB error
	var retB, closed bool
	pan, val, st := mon.Guard(func() {
		synctest.Test(t, func(t *testing.T) {
			conn := sconn.New(0)
			c, e := f.NewCfg(conn, time.Hour, 1, sc.Cfg)
			if e != nil {
				t.Fatal(e)
			}
			xidB := uint32(0x00b00b02)
			gate := make(chan struct{})
			mB := func(rp cli.Resp) bool {
				<-gate
				return false
			}
			doneB, doneC := make(chan struct{}), make(chan struct{})
			go func() {
				defer close(doneB)
				_, _, errB = c.SendAndRead(context.Background(), dest, f.Request(xidB, 0), mB)
				retB = true
			}()
			synctest.Wait()
			fed := make(chan struct{})
			go func() {
				defer close(fed)
				for i := 1; i <= sc.Burst; i++ {
					if !conn.Inject(sconn.Datagram{B: f.Datagram("matching", xidB, i, f.AcceptType()), From: dest, Nonce: i, Class: "matching"}) {
						return
					}
				}
			}()
			synctest.Wait() // the matcher is at the gate; everything behind it is as far as it gets
			go func() {
				defer close(doneC)
				c.Close()
				closed = true
			}()
			synctest.Wait()
			close(gate)
			<-doneB
			<-doneC
			<-fed
		})
	})
	bad := func(key, msg string, a ...any) {
		r.Violate("C11:close-gated:"+key, fmt.Sprintf("%s Close while a matcher is busy and %d datagrams for its call stand behind it: ", sc.Fam, sc.Burst)+fmt.Sprintf(msg, a...), sc)
	}
	if pan {
		bad("panic-or-deadlock:"+mon.LibFrame(st), "%.300v (call returned: %v, Close returned: %v)", val, retB, closed)
		return
	}
	if !retB || !closed {
		bad("not-returned", "call returned: %v, Close returned: %v", retB, closed)
		return
	}
	if errB == nil {
		bad("response-after-refusal", "the call whose matcher refuses everything returned a response and no error")
		return
	}
	r.Shape(fmt.Sprintf("close-gated/%s/%d", sc.Fam, sc.Burst), true)
	r.Count("closegated.scenarios", 1)
}

func judgeLockHeld(r *mon.Rec, t *testing.T, sc lockheldT) {
	r.Current(sc)
	r.Eval(1)
	if sc.CloseGated {
		judgeCloseGated(r, t, sc)
		return
	}
	f := fam(sc.Fam)
	var errA, reuseA, errB error
	var gotB, retA, retB bool
	pan, val, st := mon.Guard(func() {
		synctest.Test(t, func(t *testing.T) {
			conn := sconn.New(0)
			c, e := f.NewCfg(conn, time.Hour, 1, sc.Cfg)
			if e != nil {
				t.Fatal(e)
			}
			xidA, xidB := uint32(0x00a00a01), uint32(0x00b00b02)
			gate := make(chan struct{})
			accept := f.AcceptType()
			mB := func(rp cli.Resp) bool {
				<-gate
				return !rp.Nil && rp.Type == accept && rp.Nonce == sc.Burst
			}
			doneA, doneB := make(chan struct{}), make(chan struct{})
			go func() {
				defer close(doneB)
				_, gotB, errB = c.SendAndRead(context.Background(), dest, f.Request(xidB, 0), mB)
				retB = true
			}()
			synctest.Wait()
			ctxA, cancelA := context.WithCancel(context.Background())
			go func() {
				defer close(doneA)
				_, _, errA = c.SendAndRead(ctxA, dest, f.Request(xidA, 0), nil)
				retA = true
				cctx, cc := context.WithCancel(context.Background())
				cc()
				_, _, reuseA = c.SendAndRead(cctx, dest, f.Request(xidA, 0), nil)
			}()
			synctest.Wait() // both calls are registered and waiting
			fed := make(chan struct{})
			go func() {
				defer close(fed)
				for i := 1; i <= sc.Burst; i++ {
					if !conn.Inject(sconn.Datagram{B: f.Datagram("matching", xidB, i, accept), From: dest, Nonce: i, Class: "matching"}) {
						return
					}
				}
			}()
			synctest.Wait() // the matcher is at the gate with datagram 1, the buffer is full, the receive loop is parked
			cancelA()
			for i := 0; i < 2000; i++ { // let A run as far as it gets while the receive loop is parked
				runtime.Gosched()
			}
			close(gate)
			<-doneA
			<-doneB
			<-fed
			c.Close()
		})
	})
	bad := func(key, msg string, a ...any) {
		r.Violate("C11:lockheld:"+key, fmt.Sprintf("%s receive loop parked on another call's full buffer (%d datagrams): ", sc.Fam, sc.Burst)+fmt.Sprintf(msg, a...), sc)
	}
	if pan {
		bad("panic-or-deadlock:"+mon.LibFrame(st), "%.300v (A returned: %v, B returned: %v)", val, retA, retB)
		return
	}
	if errA != context.Canceled {
		bad("context-error", "the call whose context ended returned %v", errA)
		return
	}
	if f.IsInUse(reuseA) || reuseA != context.Canceled {
		bad("xid-not-reusable", "a call with the same transaction id right after the return got %v", reuseA)
		return
	}
	if errB != nil || !gotB {
		bad("other-call", "the call with the gated matcher returned msg=%v err=%v, want the last datagram of its burst", gotB, errB)
		return
	}
	r.Shape(fmt.Sprintf("lockheld/%s/%d", sc.Fam, sc.Burst), true)
	r.Count("lockheld.scenarios", 1)
}

func lockheldGrid() []lockheldT {
	var out []lockheldT
	for _, fm := range []string{"nclient4", "nclient6"} {
		for _, b := range []int{1, 3, 6, 7, 8, 12} {
			for cfg := 0; cfg < cli.NCfg; cfg++ {
				out = append(out, lockheldT{LockHeld: true, Fam: fm, Burst: b, Cfg: cfg})
			}
		}
		for _, b := range []int{0, 1, 5, 6, 7, 23, 24, 25, 40, 100} {
			for cfg := 0; cfg < cli.NCfg; cfg++ {
				out = append(out, lockheldT{LockHeld: true, Fam: fm, Burst: b, Cfg: cfg, CloseGated: true})
			}
		}
	}
	return out
}
