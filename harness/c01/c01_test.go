package c01

import (
	"bytes"
	"fmt"
	"os"
	"sort"
	"testing"
	"time"

	"github.com/insomniacslk/dhcp/dhcpv4"
	"verif/harness/gen4"
	"verif/harness/mon"
	"verif/harness/proj"
	"verif/harness/ref4"
)

type replay struct {
	Stream string `json:"stream"`
	Idx    int    `json:"idx"`
	Wire   string `json:"wire,omitempty"`
}

func lenClass(l int) string {
	switch {
	case l == 0:
		return "0"
	case l < 255:
		return "s"
	case l == 255:
		return "255"
	case l < 510:
		return "m"
	case l == 510:
		return "510"
	}
	return "L"
}

func check(r *mon.Rec, stream string, idx int, p *dhcpv4.DHCPv4, e *ref4.P4) {
	r.Current(replay{stream, idx, ""})
	r.Eval(1)
	want := e.Canon()
	var wire []byte
	var q *dhcpv4.DHCPv4
	var err error
	pan, val, st := mon.Guard(func() {
		wire = p.ToBytes()
		q, err = dhcpv4.FromBytes(wire)
	})
	rp := replay{stream, idx, ""}
	if len(wire) <= 2048 {
		rp.Wire = mon.Hex(wire)
	}
	if pan {
		r.Violate("C01:panic:"+mon.LibFrame(st), fmt.Sprintf("panic %v", val), rp)
		return
	}
	if err != nil {
		r.Violate("C01:decode-error", fmt.Sprintf("FromBytes(ToBytes(p)) failed: %v; p=%s", err, trunc(want)), rp)
		return
	}
	g, ok := proj.P4(q)
	if !ok {
		r.Violate("C01:unrepresentable", "decoded packet has a non-IPv4 address field", rp)
		return
	}
	if got := g.Canon(); got != want {
		r.Violate("C01:mismatch:"+diffField(e, g), "decoded packet differs from the value encoded: "+diffMsg(e, g), rp)
		return
	}
	// the decoded packet is the caller's: write all over it.  What a LATER decode returns must not depend on that (shared
	// tables of small values, interned addresses); no process-wide value may change either.
	mon.Scribble(q)
	if ch := mon.CanariesChanged(); len(ch) > 0 {
		r.Violate("C01:result-aliases-global", fmt.Sprintf("writing into the decoded packet changed process-wide values %v", ch), rp)
		return
	}
	// Options-only round trip (Options.ToBytes -> Options.FromBytes).
	ob := p.Options.ToBytes()
	o2 := dhcpv4.Options{}
	if err := o2.FromBytes(ob); err != nil {
		r.Violate("C01:options-decode-error", fmt.Sprintf("Options.FromBytes(Options.ToBytes()) failed: %v", err), rp)
		return
	}
	e2 := &ref4.P4{Opts: map[byte][]byte{}}
	for c, v := range o2 {
		e2.Opts[c] = v
	}
	e1 := &ref4.P4{Opts: e.Opts}
	if e1.Canon() != e2.Canon() {
		r.Violate("C01:options-mismatch", "Options round trip differs: "+diffMsg(e1, e2), rp)
		return
	}
	// shape
	shape := fmt.Sprintf("h%d s%s f%s", len(e.CHAddr), lenClass(len(e.SName)), lenClass(len(e.File)))
	nt := len(e.CHAddr) != 6
	for c, v := range e.Opts {
		cc := "c"
		if c == 82 || c == 53 || c == 61 {
			cc = fmt.Sprint(c)
		}
		shape += " " + cc + ":" + lenClass(len(v))
		if len(v) == 0 || len(v) > 255 {
			nt = true
		}
	}
	for _, ip := range [][]byte{p.ClientIPAddr, p.YourIPAddr, p.ServerIPAddr, p.GatewayIPAddr} {
		if len(ip) == 16 {
			nt = true
			shape += " ip16"
			break
		}
	}
	r.Shape(shape, nt)
	if r.NSamples() < 6 && len(wire) < 400 {
		r.Sample(map[string]any{"stream": stream, "idx": idx, "packet": trunc(want), "wire_len": len(wire)})
	}
}

func trunc(s string) string {
	if len(s) > 600 {
		return s[:600] + "…"
	}
	return s
}

func diffField(a, b *ref4.P4) string {
	switch {
	case a.Op != b.Op:
		return "op"
	case a.HType != b.HType:
		return "htype"
	case a.Hops != b.Hops:
		return "hops"
	case a.Xid != b.Xid:
		return "xid"
	case a.Secs != b.Secs:
		return "secs"
	case a.Flags != b.Flags:
		return "flags"
	case a.CI != b.CI, a.YI != b.YI, a.SI != b.SI, a.GI != b.GI:
		return "ip"
	case string(a.CHAddr) != string(b.CHAddr):
		return "chaddr"
	case a.SName != b.SName:
		return "sname"
	case a.File != b.File:
		return "file"
	}
	for c := range a.Opts {
		if _, ok := b.Opts[c]; !ok {
			return "opt-lost"
		}
	}
	for c := range b.Opts {
		if _, ok := a.Opts[c]; !ok {
			return "opt-extra"
		}
	}
	return "opt-value"
}

func diffMsg(a, b *ref4.P4) string {
	for c, v := range a.Opts {
		w, ok := b.Opts[c]
		if !ok {
			return fmt.Sprintf("option %d (len %d) lost", c, len(v))
		}
		if string(v) != string(w) {
			return fmt.Sprintf("option %d: want %d bytes, got %d bytes (first diff at %d)", c, len(v), len(w), firstDiff(v, w))
		}
	}
	for c := range b.Opts {
		if _, ok := a.Opts[c]; !ok {
			return fmt.Sprintf("option %d appeared", c)
		}
	}
	return "want " + trunc(a.Canon()) + " got " + trunc(b.Canon())
}

func firstDiff(a, b []byte) int {
	i := 0
	for i < len(a) && i < len(b) && a[i] == b[i] {
		i++
	}
	return i
}

func TestCheck(t *testing.T) {
	r := mon.New("C01")
	defer r.Flush()
	if os.Getenv("VERIF_REPLAY") == "" {
		r.Watchdog(20 * time.Second)
	}
	var rp replay
	if mon.ReplayCase(&rp) {
		runCase(r, rp.Stream, rp.Idx)
		return
	}
	// (1) exhaustive boundary lengths: for each chosen code one packet per boundary length.
	codes := []int{1, 53, 61, 82, 119, 121, 254, 128}
	if !r.Quick() {
		codes = codes[:0]
		for c := 1; c <= 254; c++ {
			codes = append(codes, c)
		}
	}
	k := 0
	for _, c := range codes {
		for li := range gen4.BoundaryLens {
			if r.Mine(k) {
				runCase(r, "boundary", c*100+li)
			}
			k++
		}
	}
	r.Set("boundary_cases", k)
	r.Set("boundary_lengths", gen4.BoundaryLens)
	// (1b) large totals: many options of several hundred to 4096 octets each, option areas of 60 kB to 1 MB (the domain
	//      bounds each value, not their sum)
	nl := r.Pick(64, 3000)
	for i := 0; i < nl; i++ {
		if r.Mine(i) {
			runCase(r, "large", i)
		}
	}
	r.Set("large_total_cases", nl)
	// (1c) decoded packets edited by their owner
	ne := r.Pick(20000, 1000000)
	for i := 0; i < ne; i++ {
		if r.Mine(i) {
			runCase(r, "edited", i)
		}
	}
	r.Set("edited_cases", ne)
	// (2) generated packets
	n := r.Pick(100000, 6000000)
	for i := 0; i < n; i++ {
		if r.Mine(i) {
			runCase(r, "gen", i)
		}
	}
}

func runCase(r *mon.Rec, stream string, idx int) {
	switch stream {
	case "boundary":
		code, li := idx/100, idx%100
		rng := r.Rand(stream, idx)
		p, e := gen4.Packet(rng, 3)
		l := gen4.BoundaryLens[li]
		v := gen4.Bytes(rng, l)
		p.Options[uint8(code)] = v
		e.Opts[byte(code)] = append([]byte{}, v...)
		check(r, stream, idx, p, e)
	case "edited":
		// a packet value that was decoded from the wire and then changed by its owner, through the exported option map,
		// the Options methods or the packet's methods (same number of options or not): it encodes as what it now holds
		rng := r.Rand(stream, idx)
		p0, e := gen4.Packet(rng, 6)
		var p *dhcpv4.DHCPv4
		pan, val, st := mon.Guard(func() {
			var err error
			if p, err = dhcpv4.FromBytes(p0.ToBytes()); err != nil {
				panic(err)
			}
		})
		if pan {
			r.Violate("C01:panic:"+mon.LibFrame(st), fmt.Sprint(val), replay{Stream: stream, Idx: idx})
			return
		}
		codes := []byte{}
		for c := range e.Opts {
			codes = append(codes, c)
		}
		sort.Slice(codes, func(i, j int) bool { return codes[i] < codes[j] })
		for k := 1 + rng.IntN(3); k > 0; k-- {
			v := gen4.Bytes(rng, []int{0, 1, 4, 7, 255, 256, 300}[rng.IntN(7)])
			fresh := byte(1 + rng.UintN(254))
			kind := rng.IntN(6)
			if len(codes) == 0 && kind < 4 {
				kind = 4
			}
			switch kind {
			case 0: // same code, another value, stored in the map
				c := codes[rng.IntN(len(codes))]
				p.Options[c] = v
				e.Opts[c] = append([]byte{}, v...)
			case 1: // ... through Options.Update
				c := codes[rng.IntN(len(codes))]
				p.Options.Update(dhcpv4.OptGeneric(dhcpv4.GenericOptionCode(c), v))
				e.Opts[c] = append([]byte{}, v...)
			case 2: // one option out, another in: the count stays
				c := codes[rng.IntN(len(codes))]
				if _, ok := e.Opts[fresh]; ok || fresh == c {
					continue
				}
				p.Options.Del(dhcpv4.GenericOptionCode(c))
				delete(e.Opts, c)
				p.Options.Update(dhcpv4.OptGeneric(dhcpv4.GenericOptionCode(fresh), v))
				e.Opts[fresh] = append([]byte{}, v...)
				codes = append(codes[:0], fresh)
				for cc := range e.Opts {
					if cc != fresh {
						codes = append(codes, cc)
					}
				}
				sort.Slice(codes, func(i, j int) bool { return codes[i] < codes[j] })
			case 3: // the value's own octets are changed in place
				c := codes[rng.IntN(len(codes))]
				if len(p.Options[c]) > 0 {
					p.Options[c][0] ^= 0x5a
					e.Opts[c][0] ^= 0x5a
				}
			case 4: // through the packet's method
				p.UpdateOption(dhcpv4.OptGeneric(dhcpv4.GenericOptionCode(fresh), v))
				e.Opts[fresh] = append([]byte{}, v...)
			case 5: // a header field
				p.HopCount ^= 0x11
				e.Hops ^= 0x11
				p.TransactionID[2] ^= 0xff
				e.Xid[2] ^= 0xff
			}
		}
		check(r, stream, idx, p, e)
	case "large":
		rng := r.Rand(stream, idx)
		p, e := gen4.Packet(rng, 2)
		gen4.LargeTotal(rng, p, e)
		check(r, stream, idx, p, e)
	default:
		rng := r.Rand(stream, idx)
		p, e := gen4.Packet(rng, 12)
		if rng.IntN(4) == 0 && len(p.Options) > 0 {
			// the packet's byte slices are windows of ONE buffer of the caller's (fields cut out of a received frame, a
			// record of a lease table): hardware address, then the addresses, then an option's value, back to back, each
			// slice's capacity reaching over what follows.  Encoding reads them; it has no business writing there.
			var codes []int
			for c := range p.Options {
				codes = append(codes, int(c))
			}
			sort.Ints(codes)
			c := uint8(codes[rng.IntN(len(codes))])
			var buf []byte
			cut := func(b []byte) (int, int) {
				o := len(buf)
				buf = append(buf, b...)
				return o, len(buf)
			}
			h0, h1 := cut(p.ClientHWAddr)
			y0, y1 := cut(p.YourIPAddr)
			v0, v1 := cut(p.Options[c])
			buf = append(buf, 0xa5, 0x5a, 0xa5)
			if p.ClientHWAddr != nil {
				p.ClientHWAddr = buf[h0:h1]
			}
			if p.YourIPAddr != nil {
				p.YourIPAddr = buf[y0:y1]
			}
			if p.Options[c] != nil {
				p.Options[c] = buf[v0:v1]
			}
			keep := append([]byte{}, buf...)
			check(r, stream, idx, p, e)
			if !bytes.Equal(buf, keep) {
				r.Violate("C01:encoding-writes-into-the-packets-storage", "after encoding, the caller's buffer that holds the packet's hardware address, address and an option value back to back has changed", replay{Stream: stream, Idx: idx})
			}
			return
		}
		check(r, stream, idx, p, e)
	}
}
