package c01

import (
	"os"
	"strconv"
	"sync"
	"testing"
	"time"

	"verif/harness/mon"
)

// TestConc is the same round-trip monitor driven from 16 goroutines at once, every goroutine on values of its own.
// "Encoding any packet and decoding the result" does not depend on what other goroutines of the program encode and
// decode at the same moment: the codec has no business sharing mutable state between unrelated values (scratch
// buffers handed back to a pool before the bytes have been copied out, memo tables, interned values).  The oracle is
// unchanged; run once plain and once under the race detector (a sample, VERIF_SAMPLE).
func TestConc(t *testing.T) {
	r := mon.New("C01")
	defer r.Flush()
	if os.Getenv("VERIF_REPLAY") == "" {
		r.Watchdog(30 * time.Second)
	}
	var rp replay
	if mon.ReplayCase(&rp) {
		runCase(r, rp.Stream, rp.Idx)
		return
	}
	n := r.Pick(40000, 2000000)
	if v, err := strconv.Atoi(os.Getenv("VERIF_SAMPLE")); err == nil && v > 1 {
		n /= v
	}
	work := make(chan int, 256)
	var wg sync.WaitGroup
	const G = 16
	for g := 0; g < G; g++ {
		wg.Add(1)
		go func() {
			defer wg.Done()
			for i := range work {
				switch i % 8 {
				case 0:
					runCase(r, "edited", 7000000+i)
				case 1:
					if i%64 == 1 {
						runCase(r, "large", 7000000+i)
					}
				default:
					runCase(r, "gen", 7000000+i)
				}
			}
		}()
	}
	for i := 0; i < n; i++ {
		if r.Mine(i) {
			work <- i
		}
	}
	close(work)
	wg.Wait()
	r.Set("concurrent_goroutines", G)
	r.Count("conc.cases", n)
}
