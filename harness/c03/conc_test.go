package c03

import (
	"fmt"
	"io"
	"log"
	"os"
	"sync"
	"testing"
	"time"

	"github.com/insomniacslk/dhcp/dhcpv4"
	"github.com/insomniacslk/dhcp/dhcpv6"
	"verif/harness/gen4"
	"verif/harness/gen6"
	"verif/harness/mon"
	"verif/harness/obs"
	"verif/harness/v6util"
)

type concReplay struct {
	Conc bool `json:"conc"`
	Idx  int  `json:"idx"`
}

// TestConc: 16 goroutines decode and read their OWN messages at the same time (a server handling datagrams in
// parallel, each handler logging its message).  "Every read-only operation returns normally" for every value does
// not depend on what the program does with other values meanwhile: a panic, a fatal error ("concurrent map
// writes" cannot be recovered) or a race on a runtime map inside the library is a crash waiting for its schedule.
// Inputs lean on what read-only code might be tempted to memoise: unknown option codes, message types, enterprise
// numbers, hardware types, vendor strings.
func TestConc(t *testing.T) {
	log.SetOutput(io.Discard)
	r := mon.New("C03")
	defer r.Flush()
	if os.Getenv("VERIF_REPLAY") == "" {
		r.Watchdog(30 * time.Second)
	}
	typed = v6util.TypedCodes()
	isTyped := func(c int) bool { _, ok := typed[c]; return ok }
	one := func(i int) {
		rng := r.Rand("conc", i)
		rp := concReplay{true, i}
		var v any
		var hs []obs.Named
		var err error
		pan, val, st := mon.Guard(func() {
			switch i % 5 {
			case 0:
				p, _ := gen4.Packet(rng, 8)
				for c, x := range p.Options {
					if len(x) > 300 {
						p.Options[c] = x[:300]
					}
				}
				var q *dhcpv4.DHCPv4
				q, err = dhcpv4.FromBytes(p.ToBytes())
				if err == nil {
					v, hs = q, obs.V4Helpers(q)
				}
			case 1:
				var q *dhcpv4.DHCPv4
				q, err = dhcpv4.FromBytes(special4(rng))
				if err == nil {
					v, hs = q, obs.V4Helpers(q)
				}
			case 2:
				var m dhcpv6.DHCPv6
				m, err = dhcpv6.FromBytes(special6(rng))
				if err == nil {
					v, hs = m, obs.V6Helpers(m)
				}
			case 3:
				var m dhcpv6.DHCPv6
				m, err = dhcpv6.FromBytes(gen6.NonCanonical(rng))
				if err == nil {
					v, hs = m, obs.V6Helpers(m)
				}
			default:
				g := gen6.New(rng, isTyped)
				g.Budget = 3 + rng.IntN(14)
				mm, _ := g.Chain(rng.IntN(3), 0)
				w := mm.ToBytes()
				if len(w) > 4096 {
					return
				}
				var m dhcpv6.DHCPv6
				m, err = dhcpv6.FromBytes(w)
				if err == nil {
					v, hs = m, obs.V6Helpers(m)
				}
			}
		})
		r.Eval(1)
		if pan {
			r.Violate("C03:conc:panic:"+mon.LibFrame(st), fmt.Sprintf("decoding in one of 16 goroutines panicked: %v", val), rp)
			return
		}
		if v == nil {
			r.Shape(fmt.Sprintf("conc/%d/rejected", i%5), false)
			return
		}
		n := 0
		for _, c := range obs.Enumerate(v, 3) {
			c := c
			if pan, val, st := mon.Guard(func() { _ = obs.Render(c.Fn()) }); pan {
				r.Violate("C03:conc:panic:"+mon.LibFrame(st), fmt.Sprintf("%s panicked while other goroutines were reading other messages: %v", c.Path, val), rp)
				return
			}
			n++
		}
		for _, h := range hs {
			h := h
			if pan, val, st := mon.Guard(func() { _ = h.Fn() }); pan {
				r.Violate("C03:conc:panic:"+mon.LibFrame(st), fmt.Sprintf("%s panicked while other goroutines were reading other messages: %v", h.Name, val), rp)
				return
			}
			n++
		}
		r.Count("conc.observer_invocations", n)
		r.Shape(fmt.Sprintf("conc/%d/%d", i%5, min(n/20, 20)), true)
	}
	var rp concReplay
	if mon.ReplayCase(&rp) && rp.Conc {
		// a schedule cannot be replayed from an index; run the case's neighbourhood concurrently
		var wg sync.WaitGroup
		for g := 0; g < 16; g++ {
			wg.Add(1)
			go func(g int) {
				defer wg.Done()
				for k := 0; k < 200; k++ {
					one(rp.Idx + (k*16+g)%64 - 32)
				}
			}(g)
		}
		wg.Wait()
		return
	}
	n := r.Pick(24000, 1000000)
	work := make(chan int, 256)
	var wg sync.WaitGroup
	for g := 0; g < 16; g++ {
		wg.Add(1)
		go func() {
			defer wg.Done()
			for i := range work {
				one(i)
			}
		}()
	}
	for i := 0; i < n; i++ {
		if r.Mine(i) {
			work <- i
		}
	}
	close(work)
	wg.Wait()
	r.Set("concurrent_goroutines", 16)
}
