package c03

import (
	"fmt"
	"io"
	"log"
	"os"
	"sync"
	"testing"
	"time"

	"github.com/insomniacslk/dhcp/dhcpv4"
	"github.com/insomniacslk/dhcp/dhcpv6"
	"verif/harness/gen4"
	"verif/harness/gen6"
	"verif/harness/mon"
	"verif/harness/obs"
	"verif/harness/v6util"
)

type concReplay struct {
	Conc bool `json:"conc"`
	Idx  int  `json:"idx"`
}

// TestConc: 16 goroutines decode and read their OWN messages at the same time (a server handling datagrams in
// parallel, each handler logging its message).  "Every read-only operation returns normally" for every value does
// not depend on what the program does with other values meanwhile: a panic, a fatal error ("concurrent map
// writes" cannot be recovered) or a race on a runtime map inside the library is a crash waiting for its schedule.
// Inputs lean on what read-only code might be tempted to memoise: unknown option codes, message types, enterprise
// numbers, hardware types, vendor strings.
func TestConc(t *testing.T) {
	log.SetOutput(io.Discard)
	r := mon.New("C03")
	defer r.Flush()
	if os.Getenv("VERIF_REPLAY") == "" {
		r.Watchdog(30 * time.Second)
	}
	// cold start: the very first uses of the library in this process happen in 16 goroutines at once (a server whose
	// first datagrams arrive together): tables built on first use must be built safely.  Every goroutine decodes and
	// prints the same two canned messages; all must read the same.
	if os.Getenv("VERIF_REPLAY") == "" {
		v6 := []byte{1, 0xaa, 0xbb, 0xcc, 0, 1, 0, 10, 0, 3, 0, 1, 2, 0, 0x5e, 0x10, 0, 1, 0, 6, 0, 4, 0, 23, 0, 24, 0, 8, 0, 2, 0, 9,
			0, 3, 0, 12, 1, 2, 3, 4, 0, 0, 0, 100, 0, 0, 0, 200, 0, 99, 0, 4, 0x80, 1, 2, 3, 0, 16, 0, 7, 0, 0, 0, 9, 0, 1, 'x', 0xff, 0xfe, 0, 2, 7, 7}
		v4 := make([]byte, 240, 300)
		v4[0], v4[1], v4[2] = 1, 1, 6
		copy(v4[236:], []byte{99, 130, 83, 99})
		v4 = append(v4, 53, 1, 1, 55, 3, 1, 3, 6, 61, 7, 1, 2, 0, 0x5e, 1, 2, 3, 255)
		out := make([]string, 16)
		var wg sync.WaitGroup
		gate := make(chan struct{})
		for g := 0; g < 16; g++ {
			wg.Add(1)
			go func(g int) {
				defer wg.Done()
				<-gate
				pan, val, st := mon.Guard(func() {
					m, e6 := dhcpv6.FromBytes(v6)
					p, e4 := dhcpv4.FromBytes(v4)
					s6, s4 := "ERR "+fmt.Sprint(e6), "ERR "+fmt.Sprint(e4)
					if e6 == nil {
						s6 = m.Summary() + fmt.Sprintf("%x", m.ToBytes())
					}
					if e4 == nil {
						s4 = p.Summary() + fmt.Sprintf("%x", p.ToBytes())
					}
					out[g] = s6 + "\n" + s4
				})
				if pan {
					r.Violate("C03:conc:panic:"+mon.LibFrame(st), fmt.Sprintf("the first decode of the process, made by 16 goroutines at once, panicked: %v", val), concReplay{true, -1})
				}
			}(g)
		}
		close(gate)
		wg.Wait()
		for g := 1; g < 16; g++ {
			if out[g] != out[0] && out[g] != "" && out[0] != "" {
				r.Violate("C03:conc:cold-start-differs", fmt.Sprintf("16 goroutines made the first decodes of the process at once, of the same bytes; goroutine %d read %.300q, goroutine 0 read %.300q", g, out[g], out[0]), concReplay{true, -1})
				break
			}
		}
		r.Count("conc.cold_start_decodes", 32)
	}
	typed = v6util.TypedCodes()
	isTyped := func(c int) bool { _, ok := typed[c]; return ok }
	one := func(i int) {
		rng := r.Rand("conc", i)
		rp := concReplay{true, i}
		var v any
		var hs []obs.Named
		var err error
		pan, val, st := mon.Guard(func() {
			switch i % 5 {
			case 0:
				p, _ := gen4.Packet(rng, 8)
				for c, x := range p.Options {
					if len(x) > 300 {
						p.Options[c] = x[:300]
					}
				}
				var q *dhcpv4.DHCPv4
				q, err = dhcpv4.FromBytes(p.ToBytes())
				if err == nil {
					v, hs = q, obs.V4Helpers(q)
				}
			case 1:
				var q *dhcpv4.DHCPv4
				q, err = dhcpv4.FromBytes(special4(rng))
				if err == nil {
					v, hs = q, obs.V4Helpers(q)
				}
			case 2:
				var m dhcpv6.DHCPv6
				m, err = dhcpv6.FromBytes(special6(rng))
				if err == nil {
					v, hs = m, obs.V6Helpers(m)
				}
			case 3:
				var m dhcpv6.DHCPv6
				m, err = dhcpv6.FromBytes(gen6.NonCanonical(rng))
				if err == nil {
					v, hs = m, obs.V6Helpers(m)
				}
			default:
				g := gen6.New(rng, isTyped)
				g.Budget = 3 + rng.IntN(14)
				mm, _ := g.Chain(rng.IntN(3), 0)
				w := mm.ToBytes()
				if len(w) > 4096 {
					return
				}
				var m dhcpv6.DHCPv6
				m, err = dhcpv6.FromBytes(w)
				if err == nil {
					v, hs = m, obs.V6Helpers(m)
				}
			}
		})
		r.Eval(1)
		if pan {
			r.Violate("C03:conc:panic:"+mon.LibFrame(st), fmt.Sprintf("decoding in one of 16 goroutines panicked: %v", val), rp)
			return
		}
		if v == nil {
			r.Shape(fmt.Sprintf("conc/%d/rejected", i%5), false)
			return
		}
		n := 0
		for _, c := range obs.Enumerate(v, 3) {
			c := c
			if pan, val, st := mon.Guard(func() { _ = obs.Render(c.Fn()) }); pan {
				r.Violate("C03:conc:panic:"+mon.LibFrame(st), fmt.Sprintf("%s panicked while other goroutines were reading other messages: %v", c.Path, val), rp)
				return
			}
			n++
		}
		for _, h := range hs {
			h := h
			if pan, val, st := mon.Guard(func() { _ = h.Fn() }); pan {
				r.Violate("C03:conc:panic:"+mon.LibFrame(st), fmt.Sprintf("%s panicked while other goroutines were reading other messages: %v", h.Name, val), rp)
				return
			}
			n++
		}
		r.Count("conc.observer_invocations", n)
		r.Shape(fmt.Sprintf("conc/%d/%d", i%5, min(n/20, 20)), true)
	}
	var rp concReplay
	if mon.ReplayCase(&rp) && rp.Conc {
		// a schedule cannot be replayed from an index; run the case's neighbourhood concurrently
		var wg sync.WaitGroup
		for g := 0; g < 16; g++ {
			wg.Add(1)
			go func(g int) {
				defer wg.Done()
				for k := 0; k < 200; k++ {
					one(rp.Idx + (k*16+g)%64 - 32)
				}
			}(g)
		}
		wg.Wait()
		return
	}
	n := r.Pick(24000, 1000000)
	work := make(chan int, 256)
	var wg sync.WaitGroup
	for g := 0; g < 16; g++ {
		wg.Add(1)
		go func() {
			defer wg.Done()
			for i := range work {
				one(i)
			}
		}()
	}
	for i := 0; i < n; i++ {
		if r.Mine(i) {
			work <- i
		}
	}
	close(work)
	wg.Wait()
	r.Set("concurrent_goroutines", 16)
}
