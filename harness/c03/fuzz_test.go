package c03

import (
	"io"
	"log"
	"testing"

	"verif/harness/mon"
	"verif/harness/v6util"
)

func fuzzEntry(f *testing.F, entry string) {
	log.SetOutput(io.Discard)
	typed = v6util.TypedCodes()
	f.Fuzz(func(t *testing.T, b []byte) {
		if len(b) > 4096 {
			return
		}
		r := mon.New("C03")
		run(r, entry, 0, b, "fuzz")
		if r.NViolations() > 0 {
			t.Fatalf("violation on %x", b)
		}
	})
}

func FuzzC03v6(f *testing.F) {
	sr := mon.New("C03")
	for i := 0; i < 300; i++ {
		f.Add(special6(sr.Rand("fuzzseed", i)))
	}
	fuzzEntry(f, "dhcpv6.FromBytes")
}

func FuzzC03v4(f *testing.F) {
	sr := mon.New("C03")
	for i := 0; i < 300; i++ {
		f.Add(special4(sr.Rand("fuzzseed", i)))
	}
	fuzzEntry(f, "dhcpv4.FromBytes")
}

func FuzzC03frames(f *testing.F) {
	sr := mon.New("C03")
	for i := 0; i < 100; i++ {
		f.Add(frames(sr.Rand("fuzzseed", i)))
	}
	fuzzEntry(f, "rawconn.ReadFrom")
}
