package c03

import (
	"encoding/json"
	"errors"
	"fmt"
	"io"
	"log"
	"math/rand/v2"
	"net"
	"os"
	"reflect"
	"sort"
	"strings"
	"testing"
	"time"

	"github.com/insomniacslk/dhcp/dhcpv4"
	"github.com/insomniacslk/dhcp/dhcpv4/nclient4"
	"github.com/insomniacslk/dhcp/dhcpv6"
	"github.com/insomniacslk/dhcp/iana"
	"github.com/insomniacslk/dhcp/netboot"
	"github.com/insomniacslk/dhcp/rfc1035label"
	"verif/harness/gen4"
	"verif/harness/gen6"
	"verif/harness/mon"
	"verif/harness/obs"
	"verif/harness/ref6"
	"verif/harness/refframe"
	"verif/harness/reflabel"
	"verif/harness/v6util"
)

type replay struct {
	Entry string `json:"entry"`
	Code  int    `json:"code,omitempty"`
	Input string `json:"input"`
	Src   string `json:"src,omitempty"`
}

// ---- process-level attribution: the input is written to disk before every call ----

var cur *mon.Cur
var hdrCache = map[string]string{}

func setCur(rp *replay, raw []byte) {
	k := rp.Entry + "#" + fmt.Sprint(rp.Code)
	h, ok := hdrCache[k]
	if !ok {
		b, _ := json.Marshal(map[string]any{"entry": rp.Entry, "code": rp.Code})
		h = string(b)
		hdrCache[k] = h
	}
	cur.Set(h, raw)
}

type fakeConn struct {
	frames [][]byte
	i      int
}
type fakeAddr struct{}

func (fakeAddr) Network() string { return "fake" }
func (fakeAddr) String() string  { return "fake" }
func (c *fakeConn) ReadFrom(b []byte) (int, net.Addr, error) {
	if c.i >= len(c.frames) {
		return 0, nil, errors.New("end of script")
	}
	f := c.frames[c.i]
	c.i++
	return copy(b, f), fakeAddr{}, nil
}
func (c *fakeConn) WriteTo(b []byte, a net.Addr) (int, error) { return len(b), nil }
func (c *fakeConn) Close() error                              { return nil }
func (c *fakeConn) LocalAddr() net.Addr                       { return fakeAddr{} }
func (c *fakeConn) SetDeadline(time.Time) error               { return nil }
func (c *fakeConn) SetReadDeadline(time.Time) error           { return nil }
func (c *fakeConn) SetWriteDeadline(time.Time) error          { return nil }

var typed map[int]string
var nviol int

// lazyHex: the hex form is only needed in replay records; inputs are small except the "large" family.
func lazyHex(b []byte) string { return mon.Hex(b) }

// v4 value types with a FromBytes method
var v4types = map[string]func() interface{ FromBytes([]byte) error }{
	"v4.IP":                func() interface{ FromBytes([]byte) error } { return new(dhcpv4.IP) },
	"v4.IPs":               func() interface{ FromBytes([]byte) error } { return new(dhcpv4.IPs) },
	"v4.IPMask":            func() interface{ FromBytes([]byte) error } { return new(dhcpv4.IPMask) },
	"v4.Duration":          func() interface{ FromBytes([]byte) error } { return new(dhcpv4.Duration) },
	"v4.Uint16":            func() interface{ FromBytes([]byte) error } { return new(dhcpv4.Uint16) },
	"v4.MessageType":       func() interface{ FromBytes([]byte) error } { return new(dhcpv4.MessageType) },
	"v4.OptionCodeList":    func() interface{ FromBytes([]byte) error } { return new(dhcpv4.OptionCodeList) },
	"v4.String":            func() interface{ FromBytes([]byte) error } { return new(dhcpv4.String) },
	"v4.Strings":           func() interface{ FromBytes([]byte) error } { return new(dhcpv4.Strings) },
	"v4.Routes":            func() interface{ FromBytes([]byte) error } { return new(dhcpv4.Routes) },
	"v4.RelayOptions":      func() interface{ FromBytes([]byte) error } { return new(dhcpv4.RelayOptions) },
	"v4.VIVCIdentifiers":   func() interface{ FromBytes([]byte) error } { return new(dhcpv4.VIVCIdentifiers) },
	"v4.AutoConfiguration": func() interface{ FromBytes([]byte) error } { return new(dhcpv4.AutoConfiguration) },
	"iana.Archs":           func() interface{ FromBytes([]byte) error } { return new(iana.Archs) },
}

var methodsCalled = map[string]int{}
var observerInvocations int

// observe runs every read-only operation on a decoded value; any panic is a violation.
func observe(r *mon.Rec, rp *replay, v any, small bool) {
	calls := obs.Enumerate(v, 4)
	for _, c := range calls {
		name := c.Path
		if !small && (strings.Contains(name, "Summary") || strings.Contains(name, "String") || strings.Contains(name, "LongString")) {
			continue // pretty-printing only on inputs <= 4096 bytes (the servers' read size)
		}
		observerInvocations++
		key := stripIdx(name)
		methodsCalled[key]++
		pan, val, st := mon.Guard(func() {
			res := c.Fn()
			if small {
				_ = obs.Render(res)
			}
		})
		if pan {
			r.Violate("C03:panic:"+mon.LibFrame(st), fmt.Sprintf("read-only operation %s on a value decoded by %s panicked: %v", name, rp.Entry, val), rp)
		}
	}
}

func stripIdx(s string) string {
	var sb strings.Builder
	skip := false
	for i := 0; i < len(s); i++ {
		switch {
		case s[i] == '[' || s[i] == '#':
			skip = true
		case skip && (s[i] == '.'):
			skip = false
			sb.WriteByte(s[i])
		case skip && s[i] == ']':
			skip = false
		case !skip:
			sb.WriteByte(s[i])
		}
	}
	return sb.String()
}

func helpers(r *mon.Rec, rp *replay, hs []obs.Named) {
	for _, h := range hs {
		observerInvocations++
		methodsCalled["helper."+h.Name]++
		pan, val, st := mon.Guard(func() { _ = h.Fn() })
		if pan {
			r.Violate("C03:panic:"+mon.LibFrame(st), fmt.Sprintf("%s on a value decoded by %s panicked: %v", h.Name, rp.Entry, val), rp)
		}
	}
}

var recent4 []*dhcpv4.DHCPv4
var recent6 []dhcpv6.DHCPv6

func errClass(err error) string {
	s := err.Error()
	if len(s) > 50 {
		s = s[:50]
	}
	return strings.Map(func(r rune) rune {
		if r >= '0' && r <= '9' {
			return -1
		}
		return r
	}, s)
}

// run feeds one input to one entry point and, if accepted, runs the observers.
func run(r *mon.Rec, entry string, code int, b []byte, src string) {
	r.Eval(1)
	rp := &replay{Entry: entry, Code: code, Src: src}
	r.Current(rp)
	setCur(rp, b)
	defer func() {
		if r.NViolations() > nviol {
			nviol = r.NViolations()
		}
	}()
	rp.Input = lazyHex(b)
	small := len(b) <= 4096
	var val any
	var err error
	pan, pv, st := mon.Guard(func() {
		switch entry {
		case "dhcpv4.FromBytes":
			val, err = dhcpv4.FromBytes(b)
		case "dhcpv4.Options.FromBytes":
			o := dhcpv4.Options{}
			err = o.FromBytes(b)
			val = o
		case "dhcpv6.FromBytes":
			val, err = dhcpv6.FromBytes(b)
		case "dhcpv6.MessageFromBytes":
			val, err = dhcpv6.MessageFromBytes(b)
		case "dhcpv6.RelayMessageFromBytes":
			val, err = dhcpv6.RelayMessageFromBytes(b)
		case "dhcpv6.ParseOption":
			val, err = dhcpv6.ParseOption(dhcpv6.OptionCode(code), b)
		case "dhcpv6.DUIDFromBytes":
			val, err = dhcpv6.DUIDFromBytes(b)
		case "rfc1035label.FromBytes":
			val, err = rfc1035label.FromBytes(b)
		case "rawconn.ReadFrom":
			// b is a concatenation of length-prefixed frames
			var frames [][]byte
			for i := 0; i+2 <= len(b); {
				n := int(b[i])<<8 | int(b[i+1])
				i += 2
				if i+n > len(b) {
					n = len(b) - i
				}
				frames = append(frames, b[i:i+n])
				i += n
			}
			c := nclient4.NewBroadcastUDPConn(&fakeConn{frames: frames}, &net.UDPAddr{Port: 68})
			// one connection, read buffers of changing sizes (the size is the caller's choice at every call)
			sizes := []int{1500, 576, 1500, 4096, 300, 2048, 64, 65535, 1, 0, 1500}
			so := 0
			if len(b) > 0 {
				so = int(b[len(b)-1])
			}
			for k := 0; k <= len(frames); k++ {
				buf := make([]byte, sizes[(so+k)%len(sizes)])
				if len(b)%3 == 0 {
					buf = make([]byte, 1500)
				}
				if _, _, e := c.ReadFrom(buf); e != nil {
					break
				}
			}
			err = errors.New("n/a")
		default:
			mk := v4types[entry]
			x := mk()
			err = x.FromBytes(b)
			val = x
		}
	})
	if pan {
		r.Violate("C03:panic:"+mon.LibFrame(st), fmt.Sprintf("%s panicked: %v", entry, pv), rp)
		return
	}
	if err != nil {
		cls := errClass(err)
		r.Shape(entry+"|rej|"+cls, !strings.Contains(cls, "buffer too short") && !strings.Contains(cls, "n/a"))
		return
	}
	r.Count("accepted."+entry, 1)
	if val == nil || (reflect.ValueOf(val).Kind() == reflect.Pointer && reflect.ValueOf(val).IsNil()) {
		r.Violate("C03:nil-value-without-error", entry+" returned neither a value nor an error", rp)
		return
	}
	if !small {
		// the read-only-use clause is quantified over accepted inputs of up to 4096 bytes (the servers' read size)
		r.Shape(entry+"|acc-large", true)
		r.Count("accepted_large", 1)
		return
	}
	observe(r, rp, val, small)
	shape := entry + "|acc"
	switch v := val.(type) {
	case *dhcpv4.DHCPv4:
		helpers(r, rp, obs.V4Helpers(v))
		codes := make([]int, 0, len(v.Options))
		for c := range v.Options {
			codes = append(codes, int(c))
		}
		sort.Ints(codes)
		shape += fmt.Sprint(codes)
		recent4 = append(recent4, v)
		if len(recent4) > 6 {
			recent4 = recent4[1:]
		}
	case dhcpv6.DHCPv6:
		helpers(r, rp, obs.V6Helpers(v))
		if res := ref6.Decode(b); res.Tree != nil && len(b) < 4096 {
			k := map[string]int{}
			res.Tree.Kinds(k)
			ks := make([]string, 0, len(k))
			for n := range k {
				ks = append(ks, n)
			}
			sort.Strings(ks)
			shape += strings.Join(ks, ",")
		}
		recent6 = append(recent6, v)
		if len(recent6) > 6 {
			recent6 = recent6[1:]
		}
	default:
		shape += fmt.Sprintf("%T/%d", val, min(len(b), 8))
	}
	r.Shape(shape, true)
	if r.NSamples() < 5 && len(b) > 8 && len(b) < 60 {
		r.Sample(map[string]any{"entry": entry, "code": code, "input": mon.Hex(b), "src": src, "observer_calls": len(obs.Enumerate(val, 4))})
	}
}

// conversations: netboot extractors over all sequences of 0..4 recently decoded messages.
func conversations(r *mon.Rec) {
	rp := &replay{Entry: "netboot.conversation"}
	r.Current(rp)
	setCur(rp, nil)
	n4, n6 := len(recent4), len(recent6)
	var seq4 func(cur []*dhcpv4.DHCPv4)
	seq4 = func(cur []*dhcpv4.DHCPv4) {
		observerInvocations++
		pan, val, st := mon.Guard(func() { netboot.ConversationToNetconfv4(cur) })
		if pan {
			r.Violate("C03:panic:"+mon.LibFrame(st), fmt.Sprintf("ConversationToNetconfv4 over %d messages panicked: %v", len(cur), val), rp)
		}
		if len(cur) == 4 {
			return
		}
		for i := 0; i < n4 && i < 3; i++ {
			seq4(append(cur[:len(cur):len(cur)], recent4[i]))
		}
	}
	seq4(nil)
	var seq6 func(cur []dhcpv6.DHCPv6, desc string)
	seq6 = func(cur []dhcpv6.DHCPv6, desc string) {
		observerInvocations++
		methodsCalled["helper.netboot.ConversationToNetconf(seq)"]++
		pan, val, st := mon.Guard(func() { netboot.ConversationToNetconf(cur) })
		if pan {
			r.Violate("C03:panic:"+mon.LibFrame(st), fmt.Sprintf("ConversationToNetconf over message types [%s] panicked: %v", desc, val), rp)
		}
		if len(cur) == 4 {
			return
		}
		for i := 0; i < n6 && i < 3; i++ {
			seq6(append(cur[:len(cur):len(cur)], recent6[i]), desc+fmt.Sprint(recent6[i].Type())+",")
		}
	}
	seq6(nil, "")
	r.Eval(1)
}

// ---- workload ----

var entries = []string{"dhcpv4.FromBytes", "dhcpv4.Options.FromBytes", "dhcpv6.FromBytes", "dhcpv6.MessageFromBytes", "dhcpv6.RelayMessageFromBytes",
	"dhcpv6.DUIDFromBytes", "rfc1035label.FromBytes"}

func vendorString(r *rand.Rand) []byte {
	s := []string{"Arista;DCS-7050S-64;01.23;JPE12221671", "Arista;;", "Arista;x;y", "Cisco;8800;12.34;FOC00000000", "Cisco;8800", "ZPESystems:NSC:001234567", "ZPESystems:NSC",
		"NVOS##MMM1234##MM1234X56ABC", "NVOS##x", "1271-23422Z11-123", "1271-x", "1271", "Juniper-ptx1000-DD123", "Juniper-qfx10008", "Juniper:ex3400-24p:AB12", "PXEClient:Arch:00000:UNDI:002001",
		"Eth1/2:2.100", "Ethernet1/2/3:2", "xe-1/2/3.0:untagged", "ge-0/0/0.0:RE0", "et-0/0/0:0.0", "Ethernet1:45", "Ethernet1/1:2020", "Port-Channel1", "", ";", ":", "-",
		"FPR4100", "FPR9300", "1271-x-y", "Juniper-", "Juniper:", "ZPESystems:", "NVOS####", "Cisco;", "Arista"}[r.IntN(37)]
	return []byte(s)
}

// specials: inputs built around the helper packages' vendor formats (realistic ZTP / netboot traffic).
func special4(r *rand.Rand) []byte {
	p, _ := gen4.Packet(r, 3)
	p.OpCode = dhcpv4.OpcodeType(1 + r.UintN(2))
	switch r.IntN(5) {
	case 0:
		p.Options[60] = vendorString(r)
		// the options the extractors look at next to the class identifier (client identifier, host name), present
		// with nothing in them, with one octet, with a type octet in front, with NULs
		comp := func() []byte {
			switch r.IntN(7) {
			case 0:
				return nil
			case 1:
				return []byte{}
			case 2:
				return []byte{byte(r.UintN(2))}
			case 3:
				return append([]byte{0}, "FOC1234X5YZ"...)
			case 4:
				return []byte("JPE12221671\x00")
			case 5:
				return []byte{0, 0}
			}
			return gen4.Bytes(r, 1+r.IntN(12))
		}
		if r.IntN(3) != 0 {
			p.Options[61] = comp()
		}
		if r.IntN(3) != 0 {
			p.Options[12] = comp()
		}
	case 1:
		v := vendorString(r)
		if r.IntN(2) == 0 { // Cisco VIVC format and malformed variants of it
			v = []byte([]string{"SN:0;PID:R-IOSXRV9000-CC", "SN:FOC1;PID", "SN", ";", "SN:1:2;PID:x", "PID:x;SN:"}[r.IntN(6)])
		}
		ent := []uint32{9, 9, 33049, 1271, uint32(r.UintN(70000))}[r.IntN(5)] // 9 = Cisco
		p.Options[124] = append([]byte{byte(ent >> 24), byte(ent >> 16), byte(ent >> 8), byte(ent), byte(len(v))}, v...)
		if r.IntN(3) == 0 { // a second identifier
			p.Options[124] = append(p.Options[124], 0, 0, 0, 9, 3, 'S', 'N', ':')
		}
	case 2:
		v := vendorString(r)
		p.Options[82] = append([]byte{1, byte(len(v))}, v...)
	case 3:
		p.Options[53] = []byte{byte(1 + r.UintN(8))}
		p.Options[1] = gen4.Bytes(r, []int{4, 4, 3, 0}[r.IntN(4)])
		p.Options[3] = gen4.Bytes(r, []int{4, 8, 5}[r.IntN(3)])
		p.Options[6] = gen4.Bytes(r, 4*r.IntN(3))
		p.Options[51] = gen4.Bytes(r, []int{4, 4, 2}[r.IntN(3)])
		if r.IntN(2) == 0 {
			p.Options[119] = reflabel.Encode([]string{"example.com"})
		}
		p.BootFileName = "http://boot/" + string(vendorString(r))
	case 4:
		p.Options[12] = vendorString(r)
	}
	return p.ToBytes()
}

func tlv(code int, v []byte) []byte {
	return append([]byte{byte(code >> 8), byte(code), byte(len(v) >> 8), byte(len(v))}, v...)
}

func special6(r *rand.Rand) []byte {
	var opts []byte
	if r.IntN(2) == 0 {
		opts = append(opts, tlv(1, append([]byte{0, byte(1 + r.UintN(4))}, gen4.Bytes(r, 10+r.IntN(10))...))...)
	}
	for i := 0; i < 1+r.IntN(3); i++ {
		v := vendorString(r)
		switch r.IntN(7) {
		case 0:
			opts = append(opts, tlv(16, append([]byte{0, 0, byte(r.UintN(256)), byte(r.UintN(256)), byte(len(v) >> 8), byte(len(v))}, v...))...)
		case 1:
			en := []uint32{33049, 1271, 30065, 9, 2636, uint32(r.UintN(70000))}[r.IntN(6)]
			sub := tlv(1+r.IntN(12), v)
			if r.IntN(2) == 0 {
				sub = append(sub, tlv(1+r.IntN(12), vendorString(r))...)
			}
			opts = append(opts, tlv(17, append([]byte{byte(en >> 24), byte(en >> 16), byte(en >> 8), byte(en)}, sub...))...)
		case 2:
			opts = append(opts, tlv(37, append([]byte{0, 0, 0, 9}, v...))...)
		case 3:
			opts = append(opts, tlv(59, []byte("http://boot/x"))...)
			opts = append(opts, tlv(60, []byte{0, 1, 'a'})...)
		case 4:
			ia := append(append(gen4.Bytes(r, 4), 0, 0, 0, 1, 0, 0, 0, 2), tlv(5, append(gen4.Bytes(r, 16), 0, 0, 0, 1, 0, 0, 0, 2))...)
			opts = append(opts, tlv(3, ia)...)
		case 5:
			opts = append(opts, tlv(23, gen4.Bytes(r, 16*r.IntN(3)))...)
			opts = append(opts, tlv(24, reflabel.Encode([]string{"example.com"}))...)
		case 6:
			opts = append(opts, tlv(18, v)...)
		}
	}
	msg := append([]byte{[]byte{1, 2, 3, 7, 11}[r.IntN(5)], 1, 2, 3}, opts...)
	for k := r.IntN(3); k > 0; k-- {
		h := make([]byte, 34)
		h[0] = byte(12 + r.UintN(2))
		copy(h[2:], gen4.Bytes(r, 32))
		if r.IntN(2) == 0 { // EUI-64 style peer address
			copy(h[18:], []byte{0xfe, 0x80, 0, 0, 0, 0, 0, 0, 0x02, 0x11, 0x22, 0xff, 0xfe, 0x33, 0x44, 0x55})
		}
		extra := []byte{}
		switch r.IntN(4) {
		case 0:
			extra = tlv(37, append([]byte{0, 0, 0, 9}, vendorString(r)...))
		case 1:
			extra = tlv(79, append([]byte{0, 1}, gen4.Bytes(r, 6)...))
		case 2: // vendor options on the relay itself
			extra = tlv(16, append([]byte{0, 0, 4, 0xf7, 0, 17}, []byte("1271-23422Z11-123")...))
		}
		if r.IntN(8) == 0 {
			msg = append(h, extra...) // relay without relay-msg
		} else {
			msg = append(h, append(extra, tlv(9, msg)...)...)
		}
	}
	return msg
}

func frames(r *rand.Rand) []byte {
	var out []byte
	for i := 0; i < 1+r.IntN(6); i++ {
		f := refframe.Default([4]byte{1, 2, 3, 4}, [4]byte{255, 255, 255, 255}, 67, 68, gen4.Bytes(r, r.IntN(40)))
		// the header octets a reader has no business with, as any sender may set them
		if r.IntN(2) == 0 {
			f.TOS = []byte{0, 20, 0x10, 0xb8, 0xff, byte(r.UintN(256))}[r.IntN(6)]
			f.ID = uint16(r.UintN(65536))
			f.TTL = []byte{1, 64, 255, 0, 128}[r.IntN(5)]
		}
		if r.IntN(4) == 0 { // IP options of the kinds that exist, with lengths that fit and lengths that do not
			f.IHL = 6 + r.IntN(10)
			f.Options = refframe.IPOptions(r.IntN, f.IHL*4-20)
		}
		switch r.IntN(8) {
		case 0:
			f.IHL = 5 + r.IntN(11)
			f.Options = nil
		case 1:
			f.TotalLen = r.IntN(80)
			f.Pad = r.IntN(20)
		case 2:
			f.Proto = byte(r.UintN(256))
		case 3:
			f.Version = r.IntN(16)
		case 4:
			f.UDPLen = r.IntN(70000) % 65536
		}
		b := refframe.Build(f)
		switch r.IntN(6) {
		case 0:
			b = b[:r.IntN(len(b)+1)]
		case 1:
			b[r.IntN(len(b))] = byte(r.UintN(256))
		case 2:
			b[0] = byte(r.UintN(256))
		case 3:
			b[2], b[3] = byte(r.UintN(256)), byte(r.UintN(256))
		}
		out = append(out, byte(len(b)>>8), byte(len(b)))
		out = append(out, b...)
	}
	return out
}

// large builds inputs up to 65507 bytes from adversarial families.
func large(r *rand.Rand) (string, int, []byte) {
	n := []int{5000, 16000, 40000, 65507}[r.IntN(4)]
	switch r.IntN(6) {
	case 0: // nested relays
		msg := []byte{1, 1, 2, 3}
		for len(msg)+38 < n {
			h := make([]byte, 34)
			h[0] = 12
			msg = append(h, tlv(9, msg)...)
			if len(msg) > 65000 {
				break
			}
		}
		return "dhcpv6.FromBytes", 0, msg
	case 1: // nested IA_TA
		v := []byte{}
		for len(v)+8 < n-8 && len(v) < 65000 {
			v = tlv(4, append([]byte{0, 0, 0, 1}, v...))
		}
		return "dhcpv6.FromBytes", 0, append([]byte{1, 1, 2, 3}, v...)
	case 2: // thousands of minimal options
		b := []byte{1, 1, 2, 3}
		for len(b)+4 <= n {
			b = append(b, 0, byte(14+r.IntN(3)), 0, 0)
		}
		return "dhcpv6.FromBytes", 0, b
	case 3: // v4: maximal repeated options
		w, _ := gen4.WirePacket(r, -1)
		for len(w)+257 < n {
			w = append(w, byte(1+r.UintN(3)), 255)
			w = append(w, make([]byte, 255)...)
		}
		return "dhcpv4.FromBytes", 0, append(w, 255)
	case 4: // pointer fan in a domain search list (names stay <= 255 octets)
		v := []byte{}
		for i := 0; i < 30; i++ {
			v = append(v, 7, 'l', 'o', 'n', 'g', 'l', 'b', 'l')
		}
		v = append(v, 0)
		for len(v)+2 < n-8 && len(v) < 65000 {
			v = append(v, 0xC0, 0)
		}
		return "dhcpv6.FromBytes", 0, append([]byte{1, 1, 2, 3}, tlv(24, v)...)
	default: // user class item flood
		v := []byte{}
		for len(v)+2 < n-8 && len(v) < 65000 {
			v = append(v, 0, 0)
		}
		return "dhcpv6.FromBytes", 0, append([]byte{1, 1, 2, 3}, tlv(15, v)...)
	}
}

// deepNest: a container option nested in itself to a random depth up to what 4096 octets allow (4RD: 4 octets per
// level -> ~1000 levels, IA_TA 8, IA_NA/IA_PD 16, IA address 28, IA prefix 29, vendor-less relay 38), with a small
// leaf, bare or inside one relay.
func deepNest(r *rand.Rand) []byte {
	type cont struct {
		code int
		pre  []byte
	}
	cs := []cont{{97, nil}, {4, []byte{0, 0, 0, 1}}, {3, make([]byte, 12)}, {25, make([]byte, 12)}, {5, make([]byte, 24)}, {26, append(make([]byte, 8), append([]byte{64}, make([]byte, 16)...)...)}}
	c := cs[r.IntN(len(cs))]
	per := 4 + len(c.pre)
	maxd := (4096 - 60) / per
	d := 1 + r.IntN(min(maxd, 140))
	if r.IntN(4) == 0 { // the depth classes around powers of two (printing a nest costs about depth^2 per observer: the deepest ones are rare)
		d = []int{63, 64, 65, 127, 128, 129, 255, 256, 257, 257, 300, 511, 513}[r.IntN(13)]
		d = max(1, min(d, maxd))
	}
	v := []byte{}
	if r.IntN(2) == 0 {
		v = tlv(13, []byte{0, 0, 'o', 'k'})
	}
	for i := 0; i < d; i++ {
		v = tlv(c.code, append(append([]byte{}, c.pre...), v...))
	}
	if r.IntN(4) == 0 && c.code != 97 { // mixed: the nest sits inside a 4RD option
		v = tlv(97, v)
	}
	msg := append([]byte{byte(1 + r.UintN(11)), 1, 2, 3}, v...)
	if r.IntN(4) == 0 && len(msg) < 4000 {
		h := make([]byte, 34)
		h[0] = 12
		msg = append(h, tlv(9, msg)...)
	}
	// relay nests: up to 107 levels fit
	if r.IntN(8) == 0 {
		msg = []byte{1, 1, 2, 3}
		for k := 1 + r.IntN(107); k > 0 && len(msg)+38 <= 4096; k-- {
			h := make([]byte, 34)
			h[0] = byte(12 + r.UintN(2))
			msg = append(h, tlv(9, msg)...)
		}
	}
	return msg
}

func oneCase(r *mon.Rec, i int, isTyped func(int) bool, typedList []int) {
	rng := r.Rand("c03", i)
	switch k := rng.IntN(20); {
	case k < 4: // v4: valid / mutated / special
		w, _ := gen4.WirePacket(rng, 8)
		if rng.IntN(2) == 0 {
			w = special4(rng)
		}
		if rng.IntN(3) != 0 {
			for m := 0; m < 1+rng.IntN(3); m++ {
				w = gen4.Mutate(rng, w, nil)
			}
		}
		run(r, "dhcpv4.FromBytes", 0, w, "v4")
		if len(w) > 240 && rng.IntN(3) == 0 {
			run(r, "dhcpv4.Options.FromBytes", 0, w[240:], "v4opts")
		}
	case k < 10: // v6 messages
		var w []byte
		if rng.IntN(3) == 0 {
			w = special6(rng)
		} else {
			g := gen6.New(rng, isTyped)
			g.Budget = 3 + rng.IntN(25)
			m, _ := g.Chain(rng.IntN(4), 0)
			w = m.ToBytes()
		}
		if len(w) > 4096 {
			w = w[:4096]
		}
		if rng.IntN(3) != 0 {
			lf := ref6.Decode(w).LenFields
			for m := 0; m < 1+rng.IntN(3); m++ {
				w = gen6.Mutate(rng, w, lf, nil)
			}
		}
		e := []string{"dhcpv6.FromBytes", "dhcpv6.FromBytes", "dhcpv6.MessageFromBytes", "dhcpv6.RelayMessageFromBytes"}[rng.IntN(4)]
		run(r, e, 0, w, "v6")
	case k < 13: // single v6 options
		c := typedList[rng.IntN(len(typedList))]
		g := gen6.New(rng, isTyped)
		g.Budget = 6
		g.NoV4 = rng.IntN(4) != 0
		var v []byte
		if has(gen6.AllCodes, c) {
			o, _ := g.Option(c, 2)
			v = o.ToBytes()
		} else {
			v = gen4.Bytes(rng, rng.IntN(40))
		}
		if rng.IntN(2) == 0 {
			for m := 0; m < 1+rng.IntN(3); m++ {
				v = gen6.Mutate(rng, v, nil, nil)
			}
		}
		run(r, "dhcpv6.ParseOption", c, v, "opt6")
	case k < 14: // DUIDs
		g := gen6.New(rng, isTyped)
		d, _ := g.DUID()
		v := d.ToBytes()
		if rng.IntN(2) == 0 {
			v = gen6.Mutate(rng, v, nil, nil)
		}
		run(r, "dhcpv6.DUIDFromBytes", 0, v, "duid")
	case k < 16: // labels
		g := gen6.New(rng, isTyped)
		v := reflabel.Encode([]string{g.Name(), g.Name()})
		for m := 0; m < rng.IntN(4); m++ {
			v = gen6.Mutate(rng, v, nil, nil)
		}
		run(r, "rfc1035label.FromBytes", 0, v, "label")
		// pointer webs, bare and inside every option that carries names (DHCPv6 24, 39, 56/3; DHCPv4 119)
		w := reflabel.Web(rng)
		run(r, "rfc1035label.FromBytes", 0, w, "label-web")
		for _, b := range wrapNames(w) {
			run(r, b.entry, 0, b.b, "label-web")
		}
		w = reflabel.Boundary(rng)
		switch rng.IntN(4) {
		case 0:
			w = reflabel.FarPointer(rng)
		case 1:
			w = reflabel.ManyPointers(rng)
		}
		run(r, "rfc1035label.FromBytes", 0, w, "label-boundary")
		for _, b := range wrapNames(w) {
			run(r, b.entry, 0, b.b, "label-boundary")
		}
	case k < 18: // v4 value types
		names := make([]string, 0, len(v4types))
		for n := range v4types {
			names = append(names, n)
		}
		sort.Strings(names)
		n := names[rng.IntN(len(names))]
		v := gen4.Bytes(rng, rng.IntN(24))
		if rng.IntN(2) == 0 {
			for i := range v {
				v[i] = byte(rng.UintN(6))
			}
		}
		run(r, n, 0, v, "v4type")
	case k < 19: // raw frames
		run(r, "rawconn.ReadFrom", 0, frames(rng), "frames")
	default: // 2% large inputs (here 5%)
		if k := rng.IntN(12); k < 4 {
			e, c, b := large(rng)
			run(r, e, c, b, "large")
		} else if k == 4 {
			// deep nests that are still small enough to be printed (<= 4096 octets): every option that can contain
			// options, nested in itself as deep as the size allows, at every depth class -- printing indents per level
			b := deepNest(rng)
			run(r, "dhcpv6.FromBytes", 0, b, "deep-nest")
		} else {
			run(r, "rawconn.ReadFrom", 0, frames(rng), "frames")
		}
	}
	if i%64 == 0 {
		conversations(r)
	}
}

func has(l []int, c int) bool {
	for _, x := range l {
		if x == c {
			return true
		}
	}
	return false
}

type wrapped struct {
	entry string
	b     []byte
}

// wrapNames puts a label stream into every option that carries domain names.
func wrapNames(w []byte) []wrapped {
	msg6 := func(o []byte) []byte { return append([]byte{7, 1, 2, 3}, o...) }
	v4 := make([]byte, 240)
	v4[0], v4[1], v4[2] = 2, 1, 6
	copy(v4[236:], []byte{99, 130, 83, 99})
	v4 = append(v4, 119, byte(len(w)))
	v4 = append(append(v4, w...), 255)
	out := []wrapped{
		{"dhcpv6.FromBytes", msg6(tlv(24, w))},
		{"dhcpv6.FromBytes", msg6(tlv(39, append([]byte{1}, w...)))},
		{"dhcpv6.FromBytes", msg6(tlv(56, tlv(3, w)))},
	}
	if len(w) <= 255 {
		out = append(out, wrapped{"dhcpv4.FromBytes", v4})
	}
	return out
}

// labelEnum: every string over the label alphabet up to length L through the label parser, and up to length L-1
// inside every name-carrying option (exhaustive small scope for the one recursive structure decoding has to follow).
func labelEnum(r *mon.Rec, L int) {
	A := reflabel.Alphabet
	buf := make([]byte, 0, L)
	total := 0
	var rec func(d int)
	rec = func(d int) {
		run(r, "rfc1035label.FromBytes", 0, buf, "label-enum")
		total++
		if d >= 2 && d < L {
			for _, w := range wrapNames(buf) {
				run(r, w.entry, 0, w.b, "label-enum")
				total++
			}
		}
		if d == L {
			return
		}
		for _, s := range A {
			buf = append(buf, s)
			rec(d + 1)
			buf = buf[:len(buf)-1]
		}
	}
	k := 0
	for _, s1 := range A {
		for _, s2 := range A {
			if r.Mine(k) {
				buf = append(buf[:0], s1, s2)
				rec(2)
			}
			k++
		}
	}
	r.Count("label_enum_inputs_this_shard", total)
	r.Set("label_enum", fmt.Sprintf("all strings over %x up to length %d through rfc1035label.FromBytes, up to length %d inside DHCPv6 options 24/39/56 and DHCPv4 option 119", A, L, L-1))
}

func TestCheck(t *testing.T) {
	log.SetOutput(io.Discard)
	r := mon.New("C03")
	defer r.Flush()
	typed = v6util.TypedCodes()
	typedList := v6util.SortedCodes(typed)
	isTyped := func(c int) bool { _, ok := typed[c]; return ok }
	var rp replay
	if mon.ReplayCase(&rp) {
		run(r, rp.Entry, rp.Code, mon.UnHex(rp.Input), "replay")
		return
	}
	if dir, job := os.Getenv("VERIF_RUN"), os.Getenv("VERIF_JOB"); dir != "" && job != "" {
		cur = mon.NewCur(dir + "/cur-" + job + ".bin")
	}
	// termination watchdog: when no input completes for the limit, the current input is recorded as a suspect,
	// the shard's results are flushed and the driver re-runs that input alone with a larger limit.
	r.Watchdog(15 * time.Second)
	// the -race/checkptr stage runs a 1/VERIF_SAMPLE sample of the generated cases and no enumeration
	sample := 1
	if v := os.Getenv("VERIF_SAMPLE"); v != "" {
		fmt.Sscan(v, &sample)
	}
	if sample > 1 {
		n := r.Pick(150000, 5000000)
		for i := 0; i < n; i++ {
			if r.Mine(i) && (i/max(r.NShards, 1))%sample == 0 {
				oneCase(r, i, isTyped, typedList)
			}
		}
		r.Count("observer_invocations", observerInvocations)
		return
	}
	// (1) exhaustive: every byte string of length <= 2 (quick) / <= 3 for the main entry points (thorough)
	k := 0
	all := append([]string{}, entries...)
	for n := range v4types {
		all = append(all, n)
	}
	sort.Strings(all)
	for _, e := range all {
		if r.Mine(k) {
			run(r, e, 0, nil, "enum")
			for a := 0; a < 256; a++ {
				run(r, e, 0, []byte{byte(a)}, "enum")
				for b := 0; b < 256; b++ {
					run(r, e, 0, []byte{byte(a), byte(b)}, "enum")
				}
			}
		}
		k++
	}
	for _, c := range typedList {
		if r.Mine(k) {
			run(r, "dhcpv6.ParseOption", c, nil, "enum")
			for a := 0; a < 256; a++ {
				run(r, "dhcpv6.ParseOption", c, []byte{byte(a)}, "enum")
				for b := 0; b < 256; b += 5 {
					run(r, "dhcpv6.ParseOption", c, []byte{byte(a), byte(b)}, "enum")
				}
			}
		}
		k++
	}
	if !r.Quick() {
		for _, e := range []string{"dhcpv6.FromBytes", "rfc1035label.FromBytes", "dhcpv6.DUIDFromBytes", "dhcpv4.Options.FromBytes"} {
			for a := 0; a < 256; a++ {
				if !r.Mine(a) {
					continue
				}
				for b := 0; b < 256; b++ {
					for c := 0; c < 256; c++ {
						run(r, e, 0, []byte{byte(a), byte(b), byte(c)}, "enum3")
					}
				}
			}
		}
	}
	labelEnum(r, r.Pick(6, 7))
	r.Set("exhaustive_small_scope", "all byte strings of length <= 2 per entry point (<= 3 for four entry points in the thorough tier)")
	// (1b) committed corpus: replay + mutants through the matching entry points
	nc := 0
	for _, ce := range []struct {
		sub     string
		entries []string
	}{{"v6", []string{"dhcpv6.FromBytes", "dhcpv6.MessageFromBytes", "dhcpv6.RelayMessageFromBytes"}}, {"v4", []string{"dhcpv4.FromBytes"}}, {"frame", []string{"rawconn.ReadFrom"}}, {"label", []string{"rfc1035label.FromBytes"}}} {
		for i, b := range mon.Corpus(ce.sub) {
			nc++
			if !r.Mine(i) {
				continue
			}
			rng := r.Rand("corpus."+ce.sub, i)
			for _, e := range ce.entries {
				run(r, e, 0, b, "corpus")
			}
			for k := 0; k < r.Pick(2, 30); k++ {
				m := gen6.Mutate(rng, b, nil, nil)
				run(r, ce.entries[rng.IntN(len(ce.entries))], 0, m, "corpus-mut")
			}
		}
	}
	r.Set("corpus_entries", nc)
	// (2) generated / mutated / special inputs
	n := r.Pick(150000, 5000000)
	for i := 0; i < n; i++ {
		if r.Mine(i) {
			oneCase(r, i, isTyped, typedList)
		}
	}
	r.Count("observer_invocations", observerInvocations)
	r.Count("distinct_type_method_pairs_this_shard", len(methodsCalled))
	var names []string
	for n := range methodsCalled {
		names = append(names, n)
	}
	sort.Strings(names)
	if r.Shard == 0 {
		if len(names) > 400 {
			names = names[:400]
		}
		r.Set("methods_called_shard0", names)
	}
}
