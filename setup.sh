#!/bin/bash
# MANIFEST.setup_cmd: builds every monitor binary once (warms the Go build cache, incl. -race std).
set -e
cd "$(dirname "$0")"
export GOFLAGS=-mod=mod GOPROXY=off GOSUMDB=off GOTOOLCHAIN=local
mkdir -p bin run evidence
cp /repo/go.sum harness/go.sum
cd harness
go1.26.8 build ./...
for d in c[0-9][0-9]; do
  [ -d "$d" ] || continue
  go1.26.8 test -c -tags verif -vet=off -o ../bin/$d.test ./$d
done
# race flavours (only the packages that use them; list kept in checks_cfg.py)
for d in $(python3 -c "
import sys; sys.path.insert(0,'..')
from checks_cfg import CHECKS
print(' '.join(sorted({c.get('pkg',k.lower()) for k,c in CHECKS.items() if any(s.get('race') for s in c['stages'])})))"); do
  go1.26.8 test -c -race -tags verif -vet=off -o ../bin/$d.race.test ./$d
done
echo setup ok
