# Per-property configuration of the driver (./check) and source of MANIFEST.json (gen_manifest.py).
S16 = {"quick": 16, "thorough": 16}

CHECKS = {
    "C01": dict(
        title="DHCPv4 encode->decode preserves every header field and option value",
        stages=[dict(name="rt", shards=S16, timeout={"quick": 600, "thorough": 3000}),
                dict(name="conc", run="TestConc", shards={"quick": 2, "thorough": 4}, timeout={"quick": 600, "thorough": 3000}),
                dict(name="concrace", run="TestConc", race=True, shards={"quick": 2, "thorough": 4}, timeout={"quick": 600, "thorough": 3000}, env={"VERIF_SAMPLE": "8"})],
        race_is_violation=True,
        min_counters=["conc.cases"],
        rule="cases = (a) one packet per (code, boundary length) with lengths {0..3,252..258,507..513,762..768,1017..1023,4090..4096} "
             "for 8 codes (quick) / all 254 codes (thorough), (b) seeded random packets over the C01 domain (0..12 options, values 0..4096 B, "
             "nil/4-byte/16-byte IPs, hlen 0..16, names without NUL). Shape = (hlen, name length classes, multiset of (code class, value length "
             "class {0,1-254,255,256-509,510,511+}), 16-byte IP used); non-trivial iff some option is empty or >255 bytes, or hlen != 6, or a 16-byte IP form is used.",
        technique="generated round-trip executions of the real encoder/decoder checked online against the generator's own record (reference-model monitor); the same monitor from 16 goroutines on values of their own (plain and under the race detector); large option areas (60 kB..1 MB) and decoded packets edited by their owner; decoded results are overwritten after judging (shared decoder state shows in later cases) with canaries on process-wide values",
        level_text="Every generated packet is encoded and decoded by the real library and compared field by field with the value the generator "
                   "recorded (not with the library's own view). Split boundaries are enumerated exhaustively per code; the rest is sampled. Held on the executions observed, not a proof.",
        level_note="Trusts the harness generator's record of the packet and Go's reflect-free projection of the public struct fields.",
        design_ref="4/C01",
        assumptions=["packets are built through public struct fields and the Options map", "HWType <= 255 as the property's domain says"],
        exhaustive_note="split-boundary lengths per code are enumerated completely",
    ),
    "C04": dict(
        title="DHCPv4 decoding accepts exactly well-formed packets and reads the RFC values",
        stages=[dict(name="diff", shards=S16, timeout={"quick": 600, "thorough": 3000})],
        rule="differential executions: (a) EVERY options area over the byte alphabet {0,1,2,3,53,61,82,255} up to length 6 (quick) / 8 (thorough) behind a fixed valid header, "
             "(b) every truncation point of generated valid packets, (c) all 256 values of every length octet, every cookie octet and hlen of generated packets, "
             "(d) generated non-canonical packets (unsorted, split, padded, trailing bytes) and structure-aware mutants of them. Shape = reject reason, or the sequence of "
             "(code class, length class) + pads + trailing-bytes flag + hlen; non-trivial iff the options area has >= 2 elements or the case is a reject other than a short header.",
        technique="differential monitor: real dhcpv4.FromBytes vs an independent RFC 2131/2132/3396 reference decoder (accept/reject agreement + value equality), exhaustive small scope + mutation; decoded results are overwritten after judging, canaries on process-wide values",
        level_text="Accept/reject and every decoded field of the real decoder are compared with an independently written reference decoder on an exhaustively enumerated small scope "
                   "(all option areas over an 8-symbol alphabet up to a fixed length), on every truncation/length/cookie perturbation of generated packets and on random mutants.",
        level_note="Trusts harness/ref4 (independent reference decoder, ~100 lines, itself cross-checked against the wire generator's expectation on every generated packet).",
        assumptions=["reference decoder ref4 implements the C04 statement", "inputs beyond 1500 bytes are not generated here (C03/C09 cover large inputs)"],
        exhaustive_note="all options areas over the alphabet up to the stated length; all truncation points; all 256 values of each perturbed octet",
    ),
    "C07": dict(
        title="DHCPv4 encoding is deterministic, canonical and readable by any RFC decoder",
        stages=[dict(name="enc", shards=S16, timeout={"quick": 600, "thorough": 3000}),
                dict(name="conc", run="TestConc", shards={"quick": 2, "thorough": 4}, timeout={"quick": 600, "thorough": 3000}),
                dict(name="concrace", run="TestConc", race=True, shards={"quick": 2, "thorough": 4}, timeout={"quick": 600, "thorough": 3000}, env={"VERIF_SAMPLE": "8"})],
        race_is_violation=True,
        min_counters=["conc.cases", "reencoded_after_edit"],
        rule="(a) generated packets of the C01 domain, each encoded 4 times (Go randomises map iteration per call); (b) option sets of 2..6 options: ALL permutations of the same updates "
             "(UpdateOption / WithGeneric modifier / add-delete-re-add styles interleaved), 7..12 options: 200 sampled orders. Shape = sorted code classes + split pattern (+ permutation size); "
             "non-trivial iff >= 3 options or option 82 present or a value > 255 bytes.",
        technique="wire-format validator and independent reference decoder applied to every encoding produced by the real encoder; byte-equality monitor across repeated encodings and all construction orders; equal-contents twin with spare-capacity slices must encode to identical bytes; packets re-encoded after their owner changed them, packets decoded from non-canonical bytes, earlier encodings held across the re-encode; the same monitor from 16 goroutines (plain and under the race detector)",
        level_text="Every encoding produced is checked by a validator sharing no code with the library (length floor, cookie, ascending order with 82 last, adjacency and 255-byte splits, "
                   "single End, zero padding) and re-read by the reference decoder against the generator's record; equal contents must give identical bytes over all enumerated construction orders.",
        level_note="Trusts harness/ref4.Validate and ref4.Decode.",
        assumptions=["option codes 1..254 only (0 and 255 are not options)"],
        exhaustive_note="all k! construction orders for k <= 6 options of each drawn option set",
    ),
    "C17": dict(
        min_counters=['setget.ok', 'result.wf', 'result.default'],
        title="DHCPv4 typed accessors agree with the raw option bytes",
        stages=[dict(name="acc", shards=S16, timeout={"quick": 600, "thorough": 3000})],
        rule="for each of the 30 typed accessors of *DHCPv4 (method set checked by reflection; unmodelled ones are listed) and EVERY raw value length 0..64: fills {zeros, 0xFF, counting, small values} "
             "+ 200 (quick) / 5000 (thorough) random fills + structure-aware values (routes, relay sub-options, user classes, VIVC entries, compressed names, truncated forms), placed directly in Options and "
             "via encode->decode; plus the reverse direction constructor -> UpdateOption -> accessor (also after a wire trip). Shape = (accessor, length, placement, well-formed|default); non-trivial iff length > 0.",
        technique="per-accessor reference interpreter (written from RFC 2132/3442/3004/3925/3397/3046/4578/8925) evaluated online against the real accessors over exhaustive lengths and generated contents; history mode (option read, result overwritten by the caller, raw value edited in place, read again)",
        level_text="Each accessor result is compared with an independent interpretation of the raw bytes; every off-by-one length of each fixed-size type is hit because all lengths 0..64 are enumerated.",
        level_note="Trusts the reference interpreters in harness/c17 and harness/reflabel; relay-agent values containing sub-option codes 0/255 and gray-zone compression pointers are unjudged (counted).",
        assumptions=["a non-nil empty slice planted in Options is exercised for crash-freedom only (the decoder never produces it)"],
        exhaustive_note="every raw length 0..64 per accessor",
    ),
    "C15": dict(
        title="DHCPv4 reply and request builders correlate with the packet they answer",
        stages=[dict(name="bld", shards=S16, timeout={"quick": 600, "thorough": 3000})],
        rule="each case: an input packet (generated over the C01 domain or decoded from generated non-canonical wire bytes; any opcode/flags/giaddr; options 82, 61, 54, 55 present with a value, "
             "present empty or absent), one of the 6 exported builders, and 0..4 user modifiers drawn from all 24 exported With* functions (list cross-checked against a source scan of /repo/dhcpv4 at "
             "check time), including ones colliding with a default. Shape = (builder, input source, opcode class, presence of 82/61/54/55, sorted modifier names); non-trivial iff a modifier is used or "
             "option 82/61 carries a value.",
        technique="field-level reference model of the builders' documented defaults and of every With* modifier, evaluated online against the real builders (model-based runtime monitor); modifier lists re-used across builders, inputs and earlier results re-read after later builds; options merged into built packets (second instances continue the value) between builds",
        level_text="(1) the build without user modifiers is checked against the fields the statement names (flipped opcode, xid, htype, chaddr, flags, giaddr, byte-exact echo/omission of options 82 and 61, "
                   "option 50/54/xid for request-from-offer, type/ciaddr/unicast/PRL for renew, release, inform, discover); (2) the build with user modifiers must equal the model's 'defaults, then the "
                   "user modifiers in order' on every field and option.",
        level_note="Trusts the modifier models in harness/c15 (written from the modifiers' documentation). Opcodes other than 1/2 have no 'opposite' and are exercised for crash-freedom only; offers with a nil YourIPAddr are unjudged for option 50.",
        assumptions=["an option present with a non-nil empty slice is normalised to the decoder's form (nil) before the call"],
    ),
    "C02": dict(
        min_counters=['edited_values', 'in_place_edits', 'conc.cases'],
        title="DHCPv6 encode->decode preserves messages, relay chains and every option type",
        stages=[dict(name="rt", shards=S16, timeout={"quick": 900, "thorough": 3600}),
                dict(name="conc", run="TestConc", shards={"quick": 2, "thorough": 4}, timeout={"quick": 900, "thorough": 3600}),
                dict(name="concrace", run="TestConc", race=True, shards={"quick": 2, "thorough": 4}, timeout={"quick": 900, "thorough": 3600}, env={"VERIF_SAMPLE": "8"})],
        race_is_violation=True,
        rule="generated values: Message (any non-relay type octet) or relay chain of depth 0..8, 0..20 options per level from every typed option code (set discovered at run time with "
             "ParseOption(code,nil) over all 65536 codes) plus unknown codes; nested IA_NA/IA_TA/IA_PD with addresses, prefixes, status codes; vendor options; NTP sub-options; relay-msg; embedded DHCPv4; "
             "4RD rules; addresses from classes {::, v4-mapped, link-local, multicast, v4-compatible, random}; all DUID kinds. Shape = sorted set of kind paths (e.g. relay/relaymsg/msg/iana/iaaddr/status); "
             "non-trivial iff >= 2 distinct typed option kinds or nesting depth >= 3.",
        technique="generated round trips through the real encoder/decoder compared on a neutral value tree with the generator's record (oracle A) and with an independent RFC 8415 reference decoder applied to the emitted bytes (oracle B); cut-off copies decoded before each round trip; the same monitor from 16 goroutines on values of their own (plain and under the race detector); decoded results overwritten after judging",
        level_text="Every generated value is encoded and decoded by the real library; the decoded value (projected by reflection onto a neutral tree) must equal the tree the generator built, and the emitted "
                   "bytes must be read by an independently written decoder as exactly that tree, so symmetric encode/decode errors are visible. Evidence lists per-code hit counts; a typed code without generator would be listed as reduced_oracle.",
        level_note="Trusts harness/ref6 + reflabel + ref4 (reference decoders), harness/proj (reflection projection) and the generator's record.",
        assumptions=["field domains as in the property quantifier (whole seconds < 2^32, elapsed time in 10 ms units, prefix lengths in range, valid names <= 255 octets, unique ORO codes, non-empty class lists, 16-byte addresses)"],
    ),
    "C05": dict(
        title="DHCPv6 decoding accepts exactly well-formed messages and reads the RFC values",
        stages=[dict(name="diff", shards=S16, timeout={"quick": 900, "thorough": 3600})],
        rule="differential executions: (a) EVERY byte string over the alphabet {00,01,02,03,04,08,0c,0e,ff} up to length 6 (quick) / 8 (thorough) behind a message header and up to length-2 behind a relay header "
             "(all TLV framings of codes 1,2,3,4,8,12,14,0x0101.. with lengths 0..12, truncated headers included), (b) every truncation point and every length-field perturbation (-1,+1,-2,+2,0,0xFFFF) at every "
             "option length field (offsets reported by the reference parser) of generated valid messages containing every typed option, (c) structure-aware mutants <= 4096 bytes, (d) ParseOption directly for every "
             "typed code x every payload length 0..64 x {zeros, ones, counting, small values, random, valid payload cut/padded}. Shape = reject reason class, or the set of kind paths of the accepted tree; "
             "non-trivial iff the tree holds a typed option or the reject is caused by an inner layout rule.",
        technique="differential monitor: real dhcpv6.FromBytes/ParseOption vs an independent three-valued RFC 8415 reference decoder (accept/reject agreement + value-tree equality), exhaustive small scope + perturbation + mutation; relay depth sweep, name-length boundary and far-pointer families; decoded results overwritten after judging",
        level_text="Accept/reject and every decoded field (neutral value tree) of the real decoder are compared with an independently written reference decoder; gray zones of the RFCs (reserved label types, "
                   "forward pointers, compression inside DHCPv6 names, empty DNS list, vendor class without items, over-long DUIDs, partial names outside the FQDN option) answer Unspecified and are only counted.",
        level_note="Trusts harness/ref6, reflabel, ref4 (reference decoders, Appendix A/C of DESIGN.md) and harness/proj (reflection projection).",
        assumptions=["4RD map-rule layout taken from the library's documentation of RFC 7600 (reduced independence for code 98)"],
        exhaustive_note="all byte strings over the 9-symbol alphabet up to the stated length behind both header kinds; all payload lengths 0..64 per typed code",
    ),
    "C06": dict(
        title="Decode->encode->decode is a fixpoint for DHCPv4 and DHCPv6",
        stages=[dict(name="fix", shards=S16, timeout={"quick": 900, "thorough": 3600}),
                dict(name="conc", run="TestConc", shards={"quick": 2, "thorough": 4}, timeout={"quick": 900, "thorough": 3600})],
        rule="every input the library accepts among: generated NON-canonical DHCPv4 packets (unsorted, arbitrarily split, padded, trailing bytes, 64/128-byte names without NUL, hlen up to 255) and their mutants; "
             "hand-built non-canonical DHCPv6 encodings (duplicate ORO codes, reserved 4RD flag bits, host bits beyond a prefix, prefix length 0 with an address, out-of-range prefix lengths, compressed and partial names, "
             "maximal numeric fields, empty class items, embedded non-canonical DHCPv4, duplicate options) wrapped in 0..2 relays; generated DHCPv6 messages and their structure-aware mutants. "
             "Shape = (v4 option-area shape | v6 set of kind paths | gray-zone reason) + flag 'input differs from its re-encoding'; non-trivial iff the input is non-canonical or nests >= 3 levels.",
        technique="online fixpoint monitor on the real codec (b -> decode -> encode -> decode -> encode) plus an independent reference decoder comparing the RFC reading of the original and the re-encoded bytes; second stage: the same monitor driven from 16 goroutines at once, each on values of its own",
        level_text="For each accepted b: the re-encoding must decode, to an equal message (neutral tree; only the allowed v4 name cut applied), and must re-encode to identical bytes; when the reference decoder "
                   "accepts b, its reading of b and of the re-encoding must be the same tree (the tree already erases exactly the allowed differences: v4 option order/padding/splitting, duplicate ORO codes, "
                   "reserved 4RD bits, address bits beyond a prefix length), so a self-consistent but meaning-changing re-encoding is caught.",
        level_note="Trusts harness/ref4, ref6 and proj; inputs in a gray zone of the reference are checked for library self-consistency only.",
        assumptions=["hlen > 16 is re-encoded as the clipped length (chaddr bytes equal): treated as part of 'equal message'"],
    ),
    "C16": dict(
        min_counters=['reply_levels_updated_after_build', 'chains_with_arbitrary_hop_counts'],
        title="DHCPv6 builders and relay encapsulation preserve identity and nesting",
        stages=[dict(name="bld", shards=S16, timeout={"quick": 900, "thorough": 3600})],
        rule="(a) relay cases: an inner message of any type with a random subset of {client-id, server-id, IA_NA (1 or 2), IA_PD, rapid-commit, vendor class}, wrapped by EncapsulateRelay into a chain of depth 1..16 "
             "with addresses from realistic classes and any subset of interface-id / remote-id (+ unrelated options) per level; every check is made on the built chain and again after ToBytes/FromBytes; "
             "(b) builder cases: messages of every type 1..14 (and arbitrary type octets) with every subset of those options, 1/3 of them after a wire trip. Shape = (depth, #interface-ids, #remote-ids, inner options) "
             "resp. (message type, option subset, via wire); non-trivial iff depth >= 2 resp. a defined message type.",
        technique="reference model of the relay/builder contracts evaluated online on the real builders' results (neutral-tree equality per level), also after a wire round trip; arbitrary hop counts, untyped carriers of echoed options, inputs re-read after every builder, inner payload swapped and all lookups repeated",
        level_text="Decapsulate(Encapsulate(m)) == m, hop count = level index, GetInnerMessage/GetTransactionID/DecapsulateRelayIndex(-1, 0..depth-1) find the right node at every depth; relay-reply from relay-forward: "
                   "same depth, RELAY-REPL at each level, link/peer equal level by level, interface-id and remote-id echoed at the same level, the given reply innermost; advertise/request/reply builders: type, xid kept, "
                   "client-id/server-id/IA_NA/IA_PD echoed (tree equality), rapid-commit carried; wrong type / missing option / nil input must yield an error and no value.",
        level_note="Trusts harness/proj for equality. DECLINE as input of the reply builder is unjudged (RFC 8415 answers it with a Reply, the library refuses it; the statement does not decide it).",
        assumptions=["which message types are 'wrong' for the reply builder follows RFC 8415 section 18.3 (Solicit only with rapid commit; Request, Confirm, Renew, Rebind, Release, Information-request)"],
    ),
    "C19": dict(
        min_counters=['failed_decodes_into_a_parsed_set', 'reparse_sequences', 'edit.kind7'],
        title="Domain-name label encoding round-trips and decoding follows RFC 1035",
        stages=[dict(name="lbl", shards=S16, timeout={"quick": 900, "thorough": 3600})],
        rule="(a) EVERY byte string over the alphabet {00,01,02,03,3f,40,'a',c0,c1} up to length 6 (quick) / 8 (thorough); (b) generated lists of 0..8 names x 1..8 labels x 1..63 arbitrary non-dot bytes (<= 255 octets): "
             "encode -> decode and comparison of the bytes with the RFC 1035 encoding; (c) mutated encodings <= 512 bytes with inserted backward/forward/self/chained pointers, pointer fans, over-long names, truncations, "
             "reserved label types, trailing partial names; (d) parsed sets (plain and compressed) with every kind of single edit (replace in place, append, delete, reorder, edit one name, replace the slice). "
             "Shape = (verdict class, #names, #pointers, partial, root present, size class) / edit kind; non-trivial iff >= 2 names, a pointer, a partial name, a malformed reason or an edit.",
        technique="differential monitor against an independent three-valued RFC 1035/4704 name decoder + encode/decode/edit round-trip oracles on the real rfc1035label package; earlier encodings held and compared after later encodes; hand-built sets read and then edited in place",
        level_text="Reference says Names => the library must accept with exactly those names and an unmodified parsed set must re-encode to exactly the parsed bytes; reference says Malformed (label overrun, truncated "
                   "pointer, name > 255 octets) => the library must fail; gray zones (reserved label types, forward/self/mid-label pointers, pointer chains) are unjudged and counted. After an edit the encoding must decode, by the reference, to the edited names.",
        level_note="Trusts harness/reflabel (DESIGN.md Appendix C).",
        assumptions=["names are lists of labels without '.' bytes, as the quantifier says"],
        exhaustive_note="all byte strings over the 9-symbol alphabet up to the stated length",
    ),
    "C18": dict(
        min_counters=['gray_sequences', 'overlapping_writes_checked', 'sequence_writes_checked', 'passing_read_faults_injected', 'frames_with_all_ones_udp_checksum', 'datagrams_delivered'],
        title="Raw UDP connection emits valid IPv4/UDP frames and reads only its own",
        stages=[dict(name="frm", shards=S16, timeout={"quick": 600, "thorough": 3000})],
        rule="write side: EVERY payload length 0..1500 x 6 patterns {zeros, 0xFF, ffff0001 carry stress, alternating, 2 x random}, source/destination addresses {0.0.0.0, 255.255.255.255, random; 4- and 16-byte forms; "
             "bound address set or unset} and ports incl. 0 and 65535; the deprecated client4.MakeRawUDPPacket is checked for lengths/ports/addresses/payload. read side: sequences of 1..30 frames drawn from "
             "{valid, IHL 6..15 with options, trailing link padding, total length shorter than the frame, longer than the frame, IP payload shorter than a UDP header, non-IPv4 versions, non-UDP protocols, "
             "truncated at a random offset, other port, IHL < 5, other address} with bound address set or unset, ending in a scripted read error; gray-zone frames (UDP length disagreeing, fragments, bad checksums) "
             "are fed in separate sequences for crash-freedom only. Shape = (length parity, length class, pattern, bound-address flag) / the sequence of frame classes; non-trivial iff payload non-empty / >= 2 frames.",
        technique="independent RFC 791/768/1071 frame validator applied to every frame written through the real BroadcastRawUDPConn, and a reference reader predicting the exact ReadFrom result sequence for scripted frame sequences; write sequences on one connection through one destination object and payload buffer changed in place; passing read faults between frames; returned addresses re-read after later reads",
        level_text="Every emitted frame is validated field by field incl. both checksums by code sharing nothing with the library; for reads the reference yields the expected (payload bounded by total length, source) "
                   "sequence and the terminating error, and the real ReadFrom results must equal it in order.",
        level_note="Trusts harness/refframe. A transmitted UDP checksum of 0 is accepted only in the RFC 768 corner where the computed checksum is itself 0 (counted as udp_checksum_zero_edge). Zero-length reads are not frames and are not generated.",
        assumptions=["the inner conn is a datagram socket delivering one link-layer payload per read, as packet.Listen(Datagram) does"],
        exhaustive_note="all payload lengths 0..1500 on the write side",
    ),
    "C03": dict(
        min_counters=['conc.observer_invocations', 'observer_invocations', 'conc.cold_start_decodes'],
        title="No input can crash decoding or any read-only use of a decoded message",
        stages=[dict(name="crash", shards=S16, timeout={"quick": 1200, "thorough": 7200}),
                dict(name="checkptr", race=True, shards={"quick": 4, "thorough": 8}, timeout={"quick": 1200, "thorough": 7200}, env={"VERIF_SAMPLE": "8"}),
                dict(name="conc", run="TestConc", race=True, shards={"quick": 2, "thorough": 4}, timeout={"quick": 1200, "thorough": 7200}),
                dict(name="concplain", run="TestConc", shards={"quick": 2, "thorough": 4}, timeout={"quick": 1200, "thorough": 7200})],
        crash_is_violation=True,
        race_violation_pattern=r"runtime\.map(assign|access|delete|iter|clear)",
        rule="entry points: dhcpv4.FromBytes, dhcpv4.Options.FromBytes, dhcpv6.FromBytes / MessageFromBytes / RelayMessageFromBytes, dhcpv6.ParseOption for every typed code (discovered at run time), DUIDFromBytes, "
             "rfc1035label.FromBytes, iana.Archs and every exported dhcpv4 value type's FromBytes, BroadcastRawUDPConn.ReadFrom over scripted frame lists. Inputs: EVERY byte string of length <= 2 per entry point "
             "(<= 3 for four entry points in the thorough tier); generated valid values of every option type, hand-built ZTP/netboot style messages (vendor class / vendor opts / remote-id / circuit-id / boot file formats "
             "of each vendor the helper packages know, truncated and malformed variants, relays with and without relay-msg), all of them structure-aware mutated; raw frame lists; a stream of large inputs up to 65507 bytes "
             "(nested relays, nested IA, option floods, repeated v4 options, pointer fans, item floods). On every accepted value <= 4096 bytes: every exported non-mutating method reachable by a reflective walk (depth <= 4, "
             "arguments synthesised: none, Duration, option codes, indent, enterprise numbers, nil decoder) plus builders, relay operations, MAC extraction, ztpv4/ztpv6/netboot extractors, and netboot conversations over "
             "all sequences of 0..4 messages drawn from the 3 most recently decoded ones. Shape = (entry point, accept|error class, option codes / kinds); non-trivial iff accepted or the error is not 'buffer too short'.",
        technique="crash monitor: recover() around every entry point and observer call + child process per shard with the current input kept in a MAP_SHARED record (attributes fatal errors) + in-process termination watchdog with solo re-run; second stage under -race (checkptr); concurrent stages (16 goroutines on values of their own, plain and under -race; races on runtime maps inside the library are violations)",
        level_text="Any panic, fatal error, abnormal child exit or non-termination is a violation keyed by the first library frame of the stack; evidence reports the number of observer invocations and distinct (type, method) pairs called.",
        level_note="Go's memory safety turns out-of-bounds accesses into the panics monitored here; the -race stage adds checkptr. Pretty-printing is only exercised on inputs <= 4096 bytes, as the property says.",
        assumptions=["methods named Set*/Add*/Update*/Del*/Delete*/FromBytes/Unmarshal/Marshal are mutators and not called", "interfaces/netlink/socket functions are outside the statement"],
        exhaustive_note="all byte strings of length <= 2 for each entry point",
    ),
    "C08": dict(
        min_counters=['live_encodings_compared', 'observer_results_compared'],
        title="Decoded messages own their memory; encoded output is a fresh buffer",
        stages=[dict(name="own", shards=S16, timeout={"quick": 1200, "thorough": 7200})],
        rule="accepted inputs: generated DHCPv6 messages/relay chains over every typed option (per-code hit counts in evidence), hand-built name-bearing messages (domain search list, FQDN, NTP FQDN; compressed, "
             "partial, nested in IA, inside relays), generated and non-canonical DHCPv4 packets; each followed by the overwrite patterns {all-zero, all-0xFF, 0x05, 0x3F, 0x01 (small lengths), seeded random, next packet of "
             "the batch} on the source buffer, 64 extra random patterns on the exact byte range a poison fault touched, and inversion of every byte of the slice returned by ToBytes. Shape = family + kind set / option codes; "
             "non-trivial iff the message holds a name-bearing, nested or variable-length option.",
        technique="page-protection poison sanitizer (decode from an mmap copy, mprotect PROT_NONE, run all observers with SetPanicOnFault) to find stale reads + scribble differential of full observer snapshots before/after overwriting the source and output buffers to decide; live-encodings monitor (results of ToBytes held while the same and other messages are encoded again, written into, compared)",
        level_text="Snapshot S0 = results of every reflectively reachable read-only method (incl. ToBytes, Summary, String, accessors; exported fields only) + builders/helpers; after each overwrite pattern the snapshot must be "
                   "identical. A poison fault localises the aliasing reader (stack + input offset); it becomes a violation only when a pattern makes an observable difference, otherwise it is counted as a suspect.",
        level_note="Only API-observable state is compared (unexported fields are not rendered). Option-level ToBytes of byte-slice options returns the option's own slice by design; the output clause is checked at message level.",
        assumptions=["observers as enumerated by harness/obs (mutators excluded)"],
    ),
    "C20": dict(
        min_counters=['subjects_reread_after_another_value', 'exhaustive_sequences'],
        title="Reading or printing a message never changes it",
        stages=[dict(name="pure", shards=S16, timeout={"quick": 1200, "thorough": 7200}),
                dict(name="race", race=True, shards={"quick": 8, "thorough": 16}, timeout={"quick": 1200, "thorough": 7200})],
        rule="subjects: generated and decoded DHCPv4 packets, generated and decoded DHCPv6 messages/relay chains (every option type), standalone DHCPv6 options and DUIDs, standalone DHCPv4 option values built by "
             "every exported constructor with caller-owned argument slices (rendered as an extra observable). Operations: every reflectively reachable exported non-mutating method (ToBytes, String, Summary, accessors, "
             "with synthesised arguments) + builders/helpers. Orders: forward, reverse, each call twice in a row, 2 (quick) / 5 (thorough) seeded permutations, each on a FRESH identical copy; for operation sets <= 40 the "
             "reference is each operation evaluated first on its own pristine copy, and for sets <= 12 ALL sequences of <= 3 calls are followed by a full comparison. Shape = subject kind + size class.",
        technique="order-differential purity monitor over fresh identical copies of each value (pristine per-operation references for small operation sets, exhaustive sequences of <= 3 calls), plus a reader-writes detector: two goroutines running the same read-only calls under the Go race detector; encoding and printed form taken before anything else is called on one extra copy and compared after all reads; operations that are the identity on the value (restore, encode, re-edit); builders and extractors among the operations on exchange-shaped messages; hand-set values that no wire form carries exactly (elapsed times, lifetimes); by-code accessors called with codes 0 and 255",
        level_text="A read-only call that changes any later result (encoding, printed form, accessor result, or the caller's own slices) makes some operation's result depend on what ran before it, which the comparison "
                   "against pristine / differently-ordered evaluations exposes; repeated calls must return equal results. Race reports name writes by 'read-only' methods and are counted as suspects (the sequential oracle decides).",
        level_note="Only API-observable state is compared (exported fields, method results). For whole messages (hundreds of operations) the reference is one forward pass, so a change masked in every tried order would be missed; "
                   "such an effect still shows on the standalone-value subjects with pristine references.",
        assumptions=["fresh copies are produced by re-running the seeded generator / re-decoding the same bytes (checked to be deterministic)"],
        exhaustive_note="all sequences of <= 3 read-only calls for every subject with <= 12 operations",
    ),
    "C09": dict(
        min_counters=['measured_after_a_large_datagram'],
        title="Decoding cost is bounded: linear size, at most quadratic work",
        stages=[dict(name="cost", shards=S16, timeout={"quick": 1800, "thorough": 7200})],
        parallel=8, slow_rerun_limit=300,
        rule="23 adversarial families (compression-pointer fans in the domain search list, NTP FQDN, FQDN and DHCPv4 option 119; over-long names; unterminated label chains; many short names; relay / IA_TA / IA address / "
             "4RD nesting to maximal depth; minimal-option, ORO, user-class, vendor-class, boot-file-param, vendor sub-option, NTP sub-option floods; DNS address lists; DHCPv4 inside DHCPv6; repeated, maximal and empty "
             "DHCPv4 options) each built at n in {64,128,256,1k,4k,16k,65507} (ladder: a rung is only run if the extrapolated cost stays under 8 GB), then a seeded hill-climb of 2000 (quick) / 30000 (thorough) "
             "mutation steps per family maximising bytes allocated per input byte. Shape = (family, size class, floor(log2(alloc/n)), accepted); non-trivial iff alloc/n >= 64 or nesting depth >= 8.",
        technique="allocation meter (runtime.MemStats.TotalAlloc/Mallocs deltas around decode and re-encode in a single-goroutine child) + reflective deep-size of the decoded value (address-range union), judged against committed per-family constants and a scaling-law oracle between n and 16n",
        level_text="Oracle 1: alloc(decode)+alloc(re-encode) <= ka*n + kd*n*d + Ca and retained <= kr*n + Cr with constants committed in harness/c09/bounds.go (about 4x the worst measured value per family). "
                   "Oracle 2 (independent of the constants): from n to 16n the allocation may grow at most 64x for families of constant depth and 1024x for families whose depth grows with n; retained size at most 64x.",
        level_note="Constants were measured with go1.26.8 on linux/amd64 on the repaired tree; a different Go runtime could shift allocation sizes by small factors (margin 4x). Pretty-printing is outside the guarantee and not measured.",
        assumptions=["d is the nesting depth reported by the independent reference parser (1 for DHCPv4)", "TotalAlloc is cumulative and unaffected by GC, which stays enabled"],
    ),
    "C12": dict(
        min_counters=['scenarios_with_a_read_fault', 'scenarios_with_a_failing_write', 'seq.transmissions_checked', 'transmissions_checked'],
        title="Retransmission follows the configured schedule exactly",
        stages=[dict(name="sched", shards={"quick": 8, "thorough": 16}, timeout={"quick": 900, "thorough": 3600})],
        rule="full grid, both clients (real nclient4/nclient6 over a scripted PacketConn inside testing/synctest bubbles): T in {1ms,10ms,250ms,5s} (+ {3ns,7ms,100ms,1s,64s} thorough) x n in {-1,0,1..6} x request size "
             "variants x 3 destinations x caller context with/without a far deadline x {silence | response accepted in try k < n at offset {start, middle, last ns} of that try}. Shape = the scenario tuple; non-trivial iff n != 1 or a response is accepted.",
        technique="virtual-time execution (testing/synctest) of the real clients against a scripted PacketConn that records (virtual instant, destination, bytes) of every WriteTo; exact-instant oracle; sequences of calls on one client (also re-submitting one request object edited in place); read faults, failing transmissions, every negative try count observed for 13 transmissions, requests of every message kind, a matcher with a memory, responses of exactly 1500 octets; the DHCPv4 client also over the library's own raw broadcast connection (destination, port and payload read back from the frames written); call sequences that send the same message and get the byte-identical answer each time",
        level_text="With no acceptable response: exactly n transmissions at offsets T*(2^k-1), each byte-identical to request.ToBytes() taken before the call, to the requested destination, and the no-response error at exactly "
                   "T*(2^n-1); n = -1: the first 10 transmissions on schedule, then cancellation yields ctx.Err(); a response accepted in try k returns at that very instant and no transmission follows during the next 4*T*2^n.",
        level_note="Instants are exact because time is virtual (synctest); a blocked goroutine left in the bubble or a deadlock fails the scenario. Trusts testing/synctest of go1.26.8.",
        assumptions=["the scripted conn delivers a datagram only when the receive loop is blocked in ReadFrom, as a socket does"],
        exhaustive_note="the whole configuration grid is enumerated on every run",
    ),
    "C11": dict(
        min_counters=['scenarios_with_a_read_fault', 'followup_calls_checked', 'double_close_scenarios', 'slow_matcher_timeouts', 'wfail.scenarios', 'burst.datagrams', 'wblock.scenarios', 'lockheld.scenarios', 'closegated.scenarios'],
        title="Client calls always complete: timeout, cancellation, Close and cleanup",
        stages=[dict(name="grid", shards={"quick": 8, "thorough": 16}, timeout={"quick": 900, "thorough": 3600}),
                dict(name="stress", run="TestStress", race=True, shards={"quick": 8, "thorough": 16}, timeout={"quick": 900, "thorough": 5400})],
        race_is_violation=True,
        rule="(grid, virtual time) both clients x T in {1ms,7ms,100ms,5s} x tries 1..5 x traffic {silence; acceptable response at instant ta; same-xid datagrams the matcher rejects every T/7, T/2, T-1ns for 3x the retry "
             "budget; burst of bufferCap+3 rejected datagrams at ta; mixture of rejected/wrong-xid/undecodable/empty datagrams; rejected stream + acceptable response} x event {none; ctx cancel, ctx deadline, Close, Close twice at "
             "instant tc} with ta, tc on {1ns, T/3, T-1ns, T+1ns, 2.5T, budget-1ns, budget+T} (quick: a deterministic third of the traffic x event products). "
             "(stress, real time, -race) histories of 8 caller goroutines + a feeder + Close racing them, jitter at conn and cancel.gap hook points. Shape = scenario tuple with instants classed {try0, later, after} / order hash of the history.",
        technique="virtual-time execution (testing/synctest) of the real clients with exact return-instant oracle and bubble-exit goroutine check; real-time -race stress histories with completion/leak checker; follow-up call per scenario, conn.Close errors, failing writes with bursts routed meanwhile, slow-matcher bursts; read faults while the client is open, a call made (or Close called) while another call's write is parked, write deadlines honoured by the scripted connection, responses checked for completeness; Close against a matcher held at a gate with a backlog of up to 100 datagrams behind it; stress histories with two and three tries per call",
        level_text="Grid: the call returns exactly at min(arrival of an acceptable response, context end, Close, T*(2^n-1)) with the matching result (response / ctx.Err() / no-response error), never later; an immediate "
                   "second call with the same transaction id is not refused; Close and a second Close return nil; the synctest bubble only exits when every client goroutine has finished (a deadlock is reported). "
                   "Stress: every call returns, errors are from the allowed set, no (nil, nil), no client goroutine survives Close, zero race reports.",
        level_note="Liveness is decided as bounded progress: exact bounds under virtual time; in real time a 20 s watchdog after Close (a stuck client goroutine then is a violation with the goroutine dump as witness).",
        assumptions=["events are never scheduled on the same virtual instant as a try boundary (offsets of +-1ns are used instead)", "a call started on an already closed client may fail with the conn's closed error"],
        exhaustive_note="thorough tier enumerates the whole grid",
    ),
    "C10": dict(
        min_counters=['burst.datagrams', 'wfail.scenarios', 'stress.delivered.matching', 'steps'],
        title="A client call only ever returns a response to its own transaction",
        stages=[dict(name="model", shards={"quick": 8, "thorough": 16}, timeout={"quick": 900, "thorough": 3600}),
                dict(name="stress", run="TestStress", race=True, shards={"quick": 8, "thorough": 16}, timeout={"quick": 900, "thorough": 5400})],
        race_is_violation=True,
        rule="(model, virtual time) seeded scripts of 5..40 steps over both clients: start call i (transaction id from a pool of 1..3 so that ids collide; matcher nil / accept-type / reject-all; 1 or 2 tries), inject a "
             "datagram of class {matching, other type, wrong id, wrong hardware address, wrong opcode, undecodable, empty, relay-typed, duplicate of an earlier one}, advance virtual time, cancel, Close; synctest.Wait() "
             "after every step makes the execution deterministic and it is compared EXACTLY (result kind, returned datagram, return instant, transmission count) with a sequential model. 2/5 of the scripts open the "
             "cancel gap through the verif hook (virtual sleep between 'stop listening' and 'unregister') and are judged by invariants only. (stress, real time, -race) histories of 8 callers, few ids, a feeder "
             "pushing mixed datagram streams, blocking matchers, jitter at conn and hook points, one deliberately held transaction id. Shape = script skeleton / order hash of the observed history; non-trivial iff >= 2 calls overlap or an id collides.",
        technique="virtual-time deterministic replay of the real clients against a sequential model (exact equality), hook-driven gap scenarios with invariant oracle, and offline history checker with unique nonces over -race stress histories; slow-matcher burst scenarios (buffer full, receive loop waiting); returned messages re-read after later traffic; stress histories with two and three tries per call (retransmitting callers side by side under the race detector)",
        level_text="Model: per call the result (own-transaction datagram that is first acceptable in arrival order / no-response / ctx error / id-in-use), its instant and the number of transmissions must equal the model's. "
                   "History checker: a returned datagram was injected, has the call's id, passes the v4 opcode/hardware-address filters, is accepted by the call's matcher (re-evaluated), its routing interval overlaps the "
                   "call, is returned by one call only, is the first acceptable one after the call's transmission (single-try calls); a call living entirely inside another call's pending window with the same id is refused; "
                   "never (nil, nil), never a nil message to a matcher, no error outside the allowed set; zero race reports.",
        level_note="States with a goroutine parked on the client's mutex behind a receive loop blocked on a full channel are only reached in the real-time stage (a mutex wait is not durably blocking under synctest).",
        assumptions=["script events never coincide with a try deadline (advances are multiples of 10 ms + 1 ns)", "all calls of one script share the client's try count"],
    ),
    "C13": dict(
        min_counters=['datagrams_injected', 'transmissions_decoded', 'v6.outcome.request-reply'],
        title="Lease acquisition follows the DHCP exchange rules for every server behaviour",
        stages=[dict(name="xchg", shards=S16, timeout={"quick": 900, "thorough": 5400})],
        rule="scripted servers (0..3) as reaction tables over the client's own messages, played in virtual time behind the real nclient4 / nclient6: to DISCOVER -> {OFFER, duplicate OFFER, wrong-xid OFFER, wrong-hardware-address "
             "OFFER, OFFER with BOOTREQUEST opcode, ACK/NAK instead of OFFER, undecodable, silence}; to REQUEST / renewal REQUEST -> {ACK, NAK, ACK or NAK bearing another server id, ACK without server id, OFFER again, "
             "wrong-xid ACK, undecodable, silence}, each with a delay from {0,1,30,99,101,150,250} ms, ACK address possibly different from the offered one, broadcast flag on/off; DHCPv6: to SOLICIT -> {ADVERTISE, wrong-xid "
             "ADVERTISE, REPLY, wrong-xid REPLY, undecodable, ADVERTISE without server id, relay-typed, silence}, to REQUEST -> {REPLY, wrong-xid REPLY, ADVERTISE with the REQUEST's xid, undecodable, silence}, Solicit+Request and "
             "RapidSolicit. ALL tables with <= 2 servers and one reaction per phase are enumerated; the rest is seeded. Shape = outcome class + reaction table; non-trivial iff at least one server reacts.",
        technique="virtual-time execution of the real clients against scripted servers; every client transmission is decoded by the independent reference decoders and the result (Lease / ErrNak / message / error) is classified against the exchange rules using unique nonces; every datagram must be taken off the wire while the client is open; lease contents compared with an independent decoding of the datagrams; no-response failures must take the whole schedule; caller options in DISCOVER/REQUEST (client identifiers, maximum size, request list, user class, FQDN) that no scripted server echoes; DHCPv6 responses read during the first try judged in retransmitted exchanges too",
        level_text="DHCPv4: every transmission carries the client's hardware address; the REQUEST carries the selected offer's yiaddr as option 50, its server id as option 54 and its xid; the exchange is completed only by the first "
                   "ACK/NAK of that transaction bearing that server id delivered while the call waited (ACK => Lease{that Offer, that ACK}; NAK => ErrNak with that NAK; anything else ignored); renewal REQUEST: ciaddr = leased "
                   "address, broadcast flag clear, no option 50/54, same completion rule; exactly one RELEASE for the leased address sent to the lease's server id, port 67. DHCPv6: ADVERTISE/REPLY paired by xid, REQUEST carries "
                   "the advertised client id, server id and IA_NA (tree-equal), a rapid-commit REPLY is accepted directly.",
        level_note="Offers lacking a server identifier are outside the statement and exercised for crash/termination only. 'First delivered' is only demanded when a single transmission (one try) is involved, so that datagrams arriving between two tries cannot cause false alarms.",
        assumptions=["server datagrams are hand-built from field values (v6) / built with the library encoder from harness-chosen fields (v4)"],
        exhaustive_note="all reaction tables with <= 2 servers and one reaction per phase (v4), all one/two-reaction SOLICIT tables (v6)",
    ),
    "C14": dict(
        min_counters=['handler_invocations', 'real_socket_datagrams', 'stop.close-in-read', 'stop.read-error'],
        title="Servers dispatch each valid datagram exactly once and survive bad ones",
        stages=[dict(name="serve", race=True, shards=S16, timeout={"quick": 900, "thorough": 5400})],
        race_is_violation=True, slow_rerun_limit=400,
        rule="both servers (server4/server6.NewServer with WithConn(scripted PacketConn)) under the race detector: sequences of 0..200 datagrams mixing valid messages of every type (DHCPv6: every option type, relay nesting 0..4), "
             "truncated, bad-cookie, End-less, undecodable, short-relay and empty datagrams, from senders with an address, with a nil address, with 0.0.0.0 (4- and 16-byte forms), zone-qualified link-local; handlers that return "
             "at once, outlive the next k reads (k up to 20) or run until the end; the sequence ends with a scripted read error or Close() at a seeded position. Each valid datagram carries a unique nonce. "
             "Shape = (server, stop kind, #datagrams, sequence of classes); non-trivial iff it mixes decodable and undecodable datagrams or a handler outlives a read.",
        technique="offline conservation checker with unique ids over handler-invocation logs recorded behind a scripted PacketConn (entry/exit message snapshots vs an independent decoding of a pristine copy), under the Go race detector with a goroutine-leak probe; handler installed through the exported field, senders of every address kind (and non-UDP ones), datagrams up to exactly the read size, real loopback sockets",
        level_text="Multiset of handler nonces = multiset of decodable datagrams read before the stop (each exactly once, none for undecodable ones); the handler's message equals the reference decoding of a pristine copy "
                   "of the datagram at entry and still at exit (independent of later datagrams and of buffer reuse); peer = sender (DHCPv4: 255.255.255.255 with the sender's port when the sender has no address); Serve returns "
                   "only after the scripted read error (with that error) or Close; no Serve goroutine survives; zero race reports.",
        level_note="The scripted conn writes only into the buffer of the current ReadFrom call, like a socket, so buffer reuse is flagged only when a handler can observe it or the race detector sees it. Senders that are not *net.UDPAddr are outside the quantifier.",
        assumptions=["datagrams in a gray zone of the reference decoders are not generated"],
    ),
}
