# Per-property configuration of the driver (./check) and source of MANIFEST.json (gen_manifest.py).
S16 = {"quick": 16, "thorough": 16}

CHECKS = {
    "C01": dict(
        title="DHCPv4 encode->decode preserves every header field and option value",
        stages=[dict(name="rt", shards=S16, timeout={"quick": 600, "thorough": 3000})],
        rule="cases = (a) one packet per (code, boundary length) with lengths {0..3,252..258,507..513,762..768,1017..1023,4090..4096} "
             "for 8 codes (quick) / all 254 codes (thorough), (b) seeded random packets over the C01 domain (0..12 options, values 0..4096 B, "
             "nil/4-byte/16-byte IPs, hlen 0..16, names without NUL). Shape = (hlen, name length classes, multiset of (code class, value length "
             "class {0,1-254,255,256-509,510,511+}), 16-byte IP used); non-trivial iff some option is empty or >255 bytes, or hlen != 6, or a 16-byte IP form is used.",
        technique="generated round-trip executions of the real encoder/decoder checked online against the generator's own record (reference-model monitor)",
        level_text="Every generated packet is encoded and decoded by the real library and compared field by field with the value the generator "
                   "recorded (not with the library's own view). Split boundaries are enumerated exhaustively per code; the rest is sampled. Held on the executions observed, not a proof.",
        level_note="Trusts the harness generator's record of the packet and Go's reflect-free projection of the public struct fields.",
        design_ref="4/C01",
        assumptions=["packets are built through public struct fields and the Options map", "HWType <= 255 as the property's domain says"],
        exhaustive_note="split-boundary lengths per code are enumerated completely",
    ),
}
