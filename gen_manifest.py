#!/usr/bin/env python3
"""Regenerates MANIFEST.json from checks_cfg.py (so the two never disagree)."""
import json, os, subprocess
from checks_cfg import CHECKS
ROOT = os.path.dirname(os.path.abspath(__file__))
props = [json.loads(l) for l in open(os.path.join(ROOT, "properties.jsonl"))]
try:
    hooks_commits = open(os.path.join(ROOT, "hook_commits.txt")).read().split()
except OSError:
    hooks_commits = []
NA_REASON = {}
try:
    NA_REASON = json.load(open(os.path.join(ROOT, "not_applicable.json")))
except OSError:
    pass
m = {
    "version": 1,
    "setup_cmd": "./setup.sh",
    "hooks": {
        "guard": "verif",
        "enable": "go1.26.8 test -c -tags verif (harness module replaces github.com/insomniacslk/dhcp => /repo); files dhcpv4/nclient4/verif_on.go, dhcpv6/nclient6/verif_on.go",
        "baseline_off_cmd": "cd /repo && go test -mod=mod -json -vet=off -count=1 -timeout 25m ./...",
        "source_commits": hooks_commits,
        "add_only": True,
    },
    "engines": [{
        "name": "vdrive", "path": "check",
        "serves_properties": sorted(CHECKS),
        "kind_free_text": "runtime monitoring: generated/enumerated/stress workloads run against the real library built from /repo; "
                          "monitors = reference decoders and models, recover/child-process crash guard, Go race detector, mprotect poison sanitizer, "
                          "allocation meter, testing/synctest virtual time, offline history checkers over event logs",
    }],
    "checks": [],
    "not_applicable": [],
    "notes": "All checks: ./check <ID> <quick|thorough>; replay with ./check <ID> --replay <file>. Evidence is written by the driver from the shard results of the run.",
}
for p in props:
    pid = p["id"]
    c = CHECKS.get(pid)
    if not c:
        m["not_applicable"].append({"property_id": pid, "reason": NA_REASON.get(pid, "check not built yet in this session (planned in DESIGN.md section 4/" + pid + ")")})
        continue
    m["checks"].append({
        "property_id": pid,
        "quick_cmd": "./check %s quick" % pid,
        "thorough_cmd": "./check %s thorough" % pid,
        "evidence_file": "/verif/evidence/%s.json" % pid,
        "replay_cmd_template": "./check %s --replay {path}" % pid,
        "engine": "vdrive",
        "level_claimed": {"category": c.get("level", "exploration"), "text": c["level_text"], "design_ref": c.get("design_ref", "4/" + pid)},
        "level_note": c["level_note"],
        "technique": c["technique"],
    })
json.dump(m, open(os.path.join(ROOT, "MANIFEST.json"), "w"), indent=1)
print("MANIFEST.json:", len(m["checks"]), "checks,", len(m["not_applicable"]), "not claimed")
