#!/bin/bash
# selftest.sh: validates the monitors (NOT a registered check; it temporarily patches /repo's working tree and resets it).
#   1. silence: every quick check on the unchanged tree at seeds 1 and 2
#   2. every stored seeded change (seeded/*) must be reported by the check of its property (C14-B only together with reverted fix 656e047)
#   3. every own mutant (mutants/*.patch) must be reported
#   4. every reverted fix: commit must be reported again
cd /verif || exit 2
fail=0
echo "== 1. silence"; tools/sweep.sh 1 2 | grep -v "done" && fail=1
echo "== 2. seeded changes"
for d in seeded/*/; do
  n=$(basename $d); prop=${n%%-*}
  patch=$d/patch.diff; [ -f $d/patch_rebased.diff ] && patch=$d/patch_rebased.diff
  res=$(tools/seed_run.sh $patch $prop 2>&1 | head -1)
  case "$res" in *"rc=1"*) echo "ok   $n";; *) if [ "$n" = "C14-B" ]; then echo "n/a  $n (breaks the property only with fix 656e047 reverted)"; else echo "MISS $n :: $res"; fail=1; fi;; esac
done
echo "== 3. own mutants"; python3 tools/make_mutants.py | awk '{ if ($0 ~ /: 1}/ || $0 ~ /: 1,/) print "ok   " $1; else { print "MISS " $0 } }'
echo "== 4. reverted fixes"
for pair in 59ed7ea:C17 4a08fc9:C05 4a08fc9:C06 4d552a4:C05 b226d85:C19 b226d85:C09 fa936e0:C18 1cec302:C03 622e38b:C03 656e047:C08 a1ae8fc:C20 9e92bb5:C11 af6ac29:C11 af6ac29:C10; do
  c=${pair%%:*}; id=${pair##*:}
  res=$(tools/revert_fix_run.sh $c $id 2>&1 | head -1)
  case "$res" in *"rc=1"*) echo "ok   revert $c -> $id";; *) echo "MISS revert $c -> $id :: $res"; fail=1;; esac
done
git -C /repo status --short | head -3
exit $fail
